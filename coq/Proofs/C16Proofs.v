(* Proofs/C16Proofs.v - answered requests leave nothing behind: the INCOMING half over Model/Endpoint.v.
   For EVERY configuration and EVERY event list (no guard):

     futs_subset_inflight        an entry k |-> FTask t / FJob j of _request_futures points to the future
                                 whose callback is request k's and which is still in flight (= FW)
     table_bounded               #(incoming entries) <= #(request futures in flight), for histories of
                                 any length
     tables_empty_at_quiescence  at quiescence no incoming entry is left
     outgoing_only_from_sends    _result_types keys and FOut entries only come from send_request calls
     incoming_quiescent_empty    a history without send_request that ends quiescent leaves both tables
                                 EMPTY
   The outgoing half (every answered outgoing request has left both tables) is C16_outgoing over
   Model/Outgoing.v (Proofs/OutgoingProofs.v). *)
From Coq Require Import ZArith NArith List Bool Lia Arith.
From Pygls Require Import Base.Assoc Base.AssocFacts Model.Endpoint Model.EndpointX Spec.EndpointSpec Proofs.EndpointInv Proofs.EndpointFuts Proofs.EndpointXProofs.
Import ListNotations.

(* ------------------------------------------------------------------ in-flight request futures *)
Definition task_inflight_id (tk : task) : list id :=
  match t_cb tk, t_st tk with
  | CReq i, TLive _ _ _ | CReq i, TDoneCb _ => [i]
  | _, _ => []
  end.
Definition job_inflight_id (jb : job) : list id :=
  match j_cb jb, j_st jb with
  | CReq i, JQueued | CReq i, JRunning => [i]
  | _, _ => []
  end.
(* ids of the requests whose handler future is in flight, with multiplicity *)
Definition inflight_ids (s : st) : list id :=
  flat_map task_inflight_id (tasks s) ++ flat_map job_inflight_id (jobs s).
Definition inflight (s : st) : nat := length (inflight_ids s).

Definition is_incoming (r : fref) : bool := match r with FOut _ => false | _ => true end.
Definition incoming_entries (s : st) : list (id * fref) := filter (fun p => is_incoming (snd p)) (futs s).

Lemma futs_subset_inflight_st : forall s k r, FW s -> In (k, r) (futs s) ->
  is_incoming r = true -> In k (inflight_ids s).
Proof.
  intros s k r F HI INC. destruct F as (_ & H). specialize (H k r HI).
  unfold inflight_ids. apply in_or_app. destruct r as [t|j|o]; cbn [ref_ok] in H; [| |discriminate].
  - left. destruct H as (tk & N & C & F). apply in_flat_map. exists tk. split; [eapply nth_error_In; exact N|].
    unfold task_inflight_id. rewrite C. destruct (t_st tk) eqn:T; [left; reflexivity|left; reflexivity|].
    exfalso. apply (F r). reflexivity.
  - right. destruct H as (jb & N & C & F). apply in_flat_map. exists jb. split; [eapply nth_error_In; exact N|].
    unfold job_inflight_id. rewrite C. destruct F as [F|F]; rewrite F; left; reflexivity.
Qed.

Lemma nodup_filter_keys : forall (l : list (id * fref)) p, NoDup (keys l) -> NoDup (keys (filter p l)).
Proof.
  intros l p. induction l as [|[k r] l IH]; cbn [keys map filter fst]; intro ND; [constructor|].
  inversion ND as [|? ? Hni ND']; subst. destruct (p (k, r)); cbn [keys map fst]; [|apply IH; exact ND'].
  constructor; [|apply IH; exact ND']. intro H. apply Hni. unfold keys in *. apply in_map_iff in H.
  destruct H as [[k' r'] [E H]]. cbn in E. subst k'. apply filter_In in H. apply in_map_iff. exists (k, r'). split; [reflexivity|apply H].
Qed.

Theorem futs_subset_inflight : forall c evs k r, In (k, r) (futs (run c evs)) ->
  is_incoming r = true -> In k (inflight_ids (run c evs)).
Proof. intros c evs k r. apply futs_subset_inflight_st. apply fw_run. Qed.

(* the table never holds more incoming entries than there are request futures in flight *)
Lemma table_bounded_st : forall s, FW s -> length (incoming_entries s) <= inflight s.
Proof.
  intros s F. unfold inflight.
  replace (length (incoming_entries s)) with (length (keys (incoming_entries s)))
    by (unfold keys; apply map_length).
  apply NoDup_incl_length.
  - apply nodup_filter_keys. apply F.
  - intros k HI. unfold keys, incoming_entries in HI. apply in_map_iff in HI. destruct HI as [[k' r] [E HI]]. cbn in E. subst k'.
    apply filter_In in HI. destruct HI as [HI INC]. eapply futs_subset_inflight_st; [exact F|exact HI|exact INC].
Qed.

Theorem table_bounded : forall c evs, length (incoming_entries (run c evs)) <= inflight (run c evs).
Proof. intros. apply table_bounded_st, fw_run. Qed.

Lemma tables_empty_st : forall s0, FW s0 -> quiescent s0 = true ->
  incoming_entries s0 = [] /\ inflight s0 = 0.
Proof.
  intros s0 F0 Q. split.
  - destruct (incoming_entries s0) as [|[k r] l] eqn:E; [reflexivity|]. exfalso.
    assert (HI : In (k, r) (incoming_entries s0)) by (rewrite E; left; reflexivity).
    unfold incoming_entries in HI. apply filter_In in HI. destruct HI as [HI INC].
    destruct (fw_quiescent _ F0 Q k r HI) as [o EO]. subst r. discriminate.
  - unfold quiescent in Q. apply andb_true_iff in Q. destruct Q as [Q _].
    apply andb_true_iff in Q. destruct Q as [Q _]. apply andb_true_iff in Q. destruct Q as [Q1 Q2].
    unfold inflight, inflight_ids. rewrite app_length.
    assert (A : flat_map task_inflight_id (tasks s0) = []).
    { induction (tasks s0) as [|tk l IH]; [reflexivity|]. cbn [forallb] in Q1. apply andb_true_iff in Q1.
      destruct Q1 as [I1 I2]. cbn [flat_map]. rewrite (IH I2), app_nil_r. unfold task_idle in I1. unfold task_inflight_id.
      destruct (t_st tk); try discriminate. destruct (t_cb tk); reflexivity. }
    assert (B : flat_map job_inflight_id (jobs s0) = []).
    { induction (jobs s0) as [|jb l IH]; [reflexivity|]. cbn [forallb] in Q2. apply andb_true_iff in Q2.
      destruct Q2 as [I1 I2]. cbn [flat_map]. rewrite (IH I2), app_nil_r. unfold job_idle in I1. unfold job_inflight_id.
      destruct (j_st jb); try discriminate; destruct (j_cb jb); reflexivity. }
    rewrite A, B. reflexivity.
Qed.

Theorem tables_empty_at_quiescence : forall c evs, quiescent (run c evs) = true ->
  incoming_entries (run c evs) = [] /\ inflight (run c evs) = 0.
Proof. intros c evs. apply tables_empty_st, fw_run. Qed.

(* ------------------------------------------------------------------ the outgoing entries only come from sends *)
(* s' has no result-type key and no FOut entry that s does not have *)
Definition osub (s s' : st) : Prop :=
  incl (keys (rtypes s')) (keys (rtypes s)) /\
  forall k o, In (k, FOut o) (futs s') -> In (k, FOut o) (futs s).

Lemma osub_refl : forall s, osub s s.
Proof. intro s. split; [apply incl_refl|auto]. Qed.
Lemma osub_trans : forall s1 s2 s3, osub s1 s2 -> osub s2 s3 -> osub s1 s3.
Proof. intros s1 s2 s3 (A1 & A2) (B1 & B2). split; [eapply incl_tran; eassumption|auto]. Qed.

Lemma osub_same : forall s s', rtypes s' = rtypes s -> futs s' = futs s -> osub s s'.
Proof. intros s s' E1 E2. unfold osub. rewrite E1, E2. split; [apply incl_refl|auto]. Qed.

Lemma incl_keys_remove : forall (V : Type) i (l : list (id * V)), incl (keys (Assoc.remove id_eqb i l)) (keys l).
Proof. intros V i l k H. eapply in_keys_remove. exact H. Qed.

Lemma osub_rtype_pop : forall i s, osub s (rtype_pop i s).
Proof. intros i s. split; [apply incl_keys_remove|auto]. Qed.

Lemma osub_fut_pop : forall i s, osub s (fut_pop i s).
Proof. intros i s. split; [apply incl_refl|]. intros k o H. unfold fut_pop in H. cbn [futs set_futs] in H. eapply in_remove. exact H. Qed.

Lemma osub_fut_set_in : forall i r s, is_incoming r = true -> osub s (fut_set i r s).
Proof.
  intros i r s INC. split; [apply incl_refl|]. intros k o H. unfold fut_set in H. cbn [futs set_futs] in H.
  destruct (in_set id_eqb id_eqb_spec _ _ _ _ _ H) as [[E1 E2]|H']; [subst r; discriminate|exact H'].
Qed.

Lemma osub_hook : forall c sv src s, osub s (hook c sv src s).
Proof.
  intros [w h f] sv src s. destruct s.
  destruct w, h, sv, src; unfold hook, write_call, do_write, failing, add_out, add_wq, add_err, snoc; cbn;
  repeat match goal with |- context [if ?b then _ else _] => destruct b; cbn end; apply osub_same; reflexivity.
Qed.

Lemma osub_send_response : forall c sv i r s, osub s (send_response c sv i r s).
Proof.
  intros [w h f] sv i r s. destruct s.
  destruct w, h, sv, r as [code|v [|]]; unfold send_response, send_data, hook, write_call, do_write, failing,
    rtype_pop, add_out, add_wq, add_err, snoc; cbn;
  repeat match goal with |- context [if ?b then _ else _] => destruct b; cbn end;
  first [apply osub_same; reflexivity | (split; cbn; [apply incl_keys_remove|auto])].
Qed.

Lemma osub_run_cb : forall c sv cb r s, osub s (run_cb c sv cb r s).
Proof.
  intros c sv cb r s. unfold run_cb. destruct cb as [i|].
  - unfold request_callback. eapply osub_trans; [|apply osub_fut_pop].
    destruct r; try apply osub_send_response; (eapply osub_trans; [apply osub_send_response|apply osub_hook]).
  - unfold notification_callback. destruct r; try apply osub_refl; apply osub_hook.
Qed.

Lemma osub_core : forall s s', rtypes s' = rtypes s -> futs s' = futs s -> osub s s'.
Proof. exact osub_same. Qed.

Lemma osub_cancel_ref : forall c r s, osub s (cancel_ref c r s).
Proof.
  intros c r s. unfold cancel_ref. destruct r as [t|k|o].
  - destruct (nth_error (tasks s) t) as [tk|]; [|apply osub_refl]. destruct (t_st tk); try apply osub_refl. apply osub_same; reflexivity.
  - destruct (nth_error (jobs s) k) as [jb|]; [|apply osub_refl]. destruct (j_st jb); try apply osub_refl.
    eapply osub_trans; [|apply osub_run_cb]. apply osub_same; reflexivity.
  - destruct (nth_error (outg s) o) as [[| |]|]; try apply osub_refl. apply osub_same; reflexivity.
Qed.

Lemma osub_submit : forall c w p cb b early reg s, (forall k s', osub s' (reg k s')) -> osub s (submit c w p cb b early reg s).
Proof.
  intros c w p cb b early reg s R. unfold submit. destruct early.
  - eapply osub_trans; [|apply osub_run_cb]. eapply osub_trans; [|apply R]. apply osub_same; reflexivity.
  - eapply osub_trans; [|apply R]. apply osub_same; reflexivity.
Qed.

Lemma osub_execute_request : forall c i p b s, osub s (fst (execute_request c i p b s)).
Proof.
  intros c i p b s. unfold execute_request. destruct (bkind b) as [|n|early]; cbn [fst].
  - destruct (bout b); cbn [fst]; try (apply osub_same; reflexivity);
      (eapply osub_trans; [|apply osub_send_response]; apply osub_same; reflexivity).
  - eapply osub_trans; [|apply osub_fut_set_in; reflexivity]. apply osub_same; reflexivity.
  - apply osub_submit. intros k s'. apply osub_fut_set_in. reflexivity.
Qed.

Lemma osub_exec_notification : forall c w p b s, osub s (fst (exec_notification c w p b s)).
Proof.
  intros c w p b s. unfold exec_notification. destruct (bkind b) as [|n|early]; cbn [fst]; try (apply osub_same; reflexivity).
  apply osub_submit. intros k s'. apply osub_refl.
Qed.

Lemma osub_chain : forall c w u s, osub s (chain c w u s).
Proof. intros c w u s. unfold chain. destruct u; [apply osub_exec_notification|apply osub_refl]. Qed.

Lemma osub_on_exc : forall c i x s, osub s (on_exc c i x s).
Proof.
  intros c i x s. unfold on_exc. destruct x as [[|code]|]; try apply osub_refl;
    (eapply osub_trans; [apply osub_send_response|apply osub_hook]).
Qed.

Lemma osub_fold_cancel : forall c rs s, osub s (fold_left (fun s' r => cancel_ref c r s') rs s).
Proof.
  intros c rs. induction rs as [|r rs IH]; intro s; cbn [fold_left]; [apply osub_refl|].
  eapply osub_trans; [apply osub_cancel_ref|apply IH].
Qed.

Lemma osub_log : forall w p ph sv s, osub s (log w p ph sv s).
Proof. intros. apply osub_same; reflexivity. Qed.

Lemma osub_handle_request : forall c i m s, osub s (handle_request c i m s).
Proof.
  intros c i m s. unfold handle_request. destruct m as [|b|u|fails u|cmd u].
  - eapply osub_trans; [apply osub_send_response|apply osub_hook].
  - pose proof (osub_execute_request c i PUser b s) as H. destruct (execute_request c i PUser b s) as [s1 x]. cbn [fst] in H.
    eapply osub_trans; [exact H|apply osub_on_exc].
  - eapply osub_trans; [|apply osub_send_response]. eapply osub_trans; [|apply osub_chain]. eapply osub_trans; [|apply osub_log].
    unfold lsp_shutdown. eapply osub_trans; [apply osub_log|]. eapply osub_trans; [apply osub_fold_cancel|apply osub_same; reflexivity].
  - destruct fails.
    + eapply osub_trans; [|apply osub_on_exc]. apply osub_same; reflexivity.
    + eapply osub_trans; [|apply osub_send_response]. eapply osub_trans; [|apply osub_chain]. apply osub_same; reflexivity.
  - destruct cmd as [b|].
    + pose proof (osub_execute_request c i PCommand b (log (WReq i) PBuiltin HStart Loop s)) as H.
      destruct (execute_request c i PCommand b (log (WReq i) PBuiltin HStart Loop s)) as [s2 x]. cbn [fst] in H.
      eapply osub_trans; [apply osub_log|]. eapply osub_trans; [exact H|]. eapply osub_trans; [apply osub_log|].
      destruct x; [apply osub_on_exc|apply osub_chain].
    + eapply osub_trans; [|apply osub_on_exc]. apply osub_same; reflexivity.
Qed.

Lemma osub_handle_notification : forall c tag m s, osub s (handle_notification c tag m s).
Proof.
  intros c tag m s. unfold handle_notification. destruct m as [|b|i|u|fails u].
  - apply osub_refl.
  - pose proof (osub_exec_notification c (WNot tag) PUser b s) as H.
    destruct (exec_notification c (WNot tag) PUser b s) as [s1 x]. cbn [fst] in H.
    destruct x; [eapply osub_trans; [exact H|apply osub_hook]|exact H].
  - unfold cancel_notification. destruct (Assoc.get id_eqb i (futs s)); [|apply osub_refl].
    eapply osub_trans; [apply osub_fut_pop|apply osub_cancel_ref].
  - unfold lsp_exit. destruct (c_writer c); [apply osub_same; reflexivity|].
    eapply osub_trans; [|apply osub_chain]. apply osub_same; reflexivity.
  - destruct fails; [eapply osub_trans; [|apply osub_hook]|eapply osub_trans; [|apply osub_chain]]; apply osub_same; reflexivity.
Qed.

Lemma osub_handle_response : forall c i s, osub s (handle_response c i s).
Proof.
  intros c i s. unfold handle_response. destruct (Assoc.get id_eqb i (futs s)) as [r|]; [|apply osub_hook].
  assert (H : osub s (hook c Loop EJsonRpc (fut_pop i s))) by (eapply osub_trans; [apply osub_fut_pop|apply osub_hook]).
  destruct r as [t|j|o]; [exact H|eapply osub_trans; [exact H|apply osub_same; reflexivity]|].
  destruct (nth_error (outg (fut_pop i s)) o) as [[| |]|]; try exact H.
  eapply osub_trans; [apply osub_fut_pop|apply osub_same; reflexivity].
Qed.

Lemma osub_recv : forall c f s, osub s (recv c f s).
Proof.
  intros c f s. unfold recv. destruct f as [|v i ps m|v tag ps m|v i iserr ps].
  - apply osub_hook.
  - destruct ps; try (eapply osub_trans; [apply osub_send_response|apply osub_hook]).
    destruct (negb v); [apply osub_hook|]. destruct (shutdown s); [apply osub_refl|apply osub_handle_request].
  - destruct ps; try apply osub_hook. destruct (negb v); [apply osub_hook|].
    destruct (shutdown s && negb (is_exit m)); [apply osub_refl|apply osub_handle_notification].
  - pose proof (osub_rtype_pop i s) as H.
    assert (HH : osub s (hook c Loop EJsonRpc (rtype_pop i s))) by (eapply osub_trans; [exact H|apply osub_hook]).
    destruct (negb iserr && negb (Assoc.mem id_eqb i (rtypes s))); [exact HH|].
    destruct ps; try exact HH. destruct (negb v); [exact HH|].
    destruct (shutdown (rtype_pop i s)); [exact H|eapply osub_trans; [exact H|apply osub_handle_response]].
Qed.

Lemma osub_task_step : forall t s, osub s (task_step t s).
Proof.
  intros t s. unfold task_step. destruct (nth_error (tasks s) t) as [tk|]; [|apply osub_refl].
  destruct (t_st tk) as [a b m| |]; try apply osub_refl.
  destruct m; [destruct a; cbn [negb]; [destruct (breact (t_b tk))|]|];
    unfold task_advance, task_finish; try (destruct a); try (destruct b); apply osub_same; reflexivity.
Qed.

Lemma osub_loop_cb : forall c t s, osub s (loop_cb c t s).
Proof.
  intros c t s. unfold loop_cb. destruct (nth_error (tasks s) t) as [tk|]; [|apply osub_refl].
  destruct (t_st tk); try apply osub_refl. eapply osub_trans; [|apply osub_run_cb]. apply osub_same; reflexivity.
Qed.

Lemma osub_job_start : forall k s, osub s (job_start k s).
Proof.
  intros k s. unfold job_start. destruct (nth_error (jobs s) k) as [jb|]; [|apply osub_refl].
  destruct (j_st jb); try apply osub_refl. apply osub_same; reflexivity.
Qed.

Lemma osub_job_finish : forall c k s, osub s (job_finish c k s).
Proof.
  intros c k s. unfold job_finish. destruct (nth_error (jobs s) k) as [jb|]; [|apply osub_refl].
  destruct (j_st jb); try apply osub_refl. eapply osub_trans; [|apply osub_run_cb]. apply osub_same; reflexivity.
Qed.

Lemma osub_write_step : forall c s, osub s (write_step c s).
Proof.
  intros [w h f] s. unfold write_step. destruct (wq s) as [|x r]; [apply osub_refl|]. destruct x as [fr|rc].
  - apply osub_same; unfold do_write, failing; destruct s; cbn;
      repeat match goal with |- context [if ?b then _ else _] => destruct b; cbn end; reflexivity.
  - apply osub_same; reflexivity.
Qed.

Definition sent (e : ev) : list id := match e with UserSend i => [i] | _ => [] end.

(* one event: new outgoing bookkeeping appears only for a send_request with that id *)
Lemma osub_step : forall c s e,
  incl (keys (rtypes (step c s e))) (keys (rtypes s) ++ sent e) /\
  (forall k o, In (k, FOut o) (futs (step c s e)) -> In (k, FOut o) (futs s) \/ In k (sent e)).
Proof.
  intros c s e.
  assert (Z : forall s', osub s s' -> incl (keys (rtypes s')) (keys (rtypes s) ++ sent e) /\
            (forall k o, In (k, FOut o) (futs s') -> In (k, FOut o) (futs s) \/ In k (sent e))).
  { intros s' (A & B). split; [intros k H; apply in_or_app; left; apply A; exact H|intros k o H; left; apply B; exact H]. }
  unfold step. destruct (exit s); [apply Z, osub_refl|].
  destruct e as [f|t|t|j|j| | |i].
  - apply Z, osub_recv. - apply Z, osub_task_step. - apply Z, osub_loop_cb. - apply Z, osub_job_start.
  - apply Z, osub_job_finish. - apply Z, osub_write_step.
  - apply Z. unfold exit_cb. destruct (exitq s); [apply osub_refl|apply osub_same; reflexivity].
  - unfold user_send. cbn [sent].
    set (s2 := set_rtypes _ _).
    assert (E : rtypes (fst (send_data c Loop (OReq i) true s2)) = rtypes s2 /\ futs (fst (send_data c Loop (OReq i) true s2)) = futs s2).
    { destruct c as [w h f]. destruct s2. destruct w, h; unfold send_data, hook, write_call, do_write, failing, add_out, add_wq, add_err, snoc; cbn;
      repeat match goal with |- context [if ?b then _ else _] => destruct b; cbn end; split; reflexivity. }
    destruct E as [E1 E2]. rewrite E1, E2. unfold s2, fut_set. proj. split.
    + intros k H. destruct (id_eqb k i) eqn:EQ.
      * apply id_eqb_spec in EQ. subst k. apply in_or_app. right. left. reflexivity.
      * apply in_or_app. left. unfold keys in *. apply in_map_iff in H. destruct H as [[k' u] [E H]]. cbn in E. subst k'.
        destruct (in_set id_eqb id_eqb_spec _ _ _ _ _ H) as [[X _]|H']; [subst k; rewrite id_eqb_refl in EQ; discriminate|].
        apply in_map_iff. exists (k, u). split; [reflexivity|exact H'].
    + intros k o H. destruct (in_set id_eqb id_eqb_spec _ _ _ _ _ H) as [[X _]|H']; [right; left; symmetry; exact X|left; exact H'].
Qed.

Definition sent_ids (evs : list ev) : list id := flat_map sent evs.

Theorem outgoing_only_from_sends : forall c evs,
  incl (keys (rtypes (run c evs))) (sent_ids evs) /\
  (forall k o, In (k, FOut o) (futs (run c evs)) -> In k (sent_ids evs)).
Proof.
  intros c evs. unfold run.
  assert (G : forall evs s,
     incl (keys (rtypes (fold_left (step c) evs s))) (keys (rtypes s) ++ sent_ids evs) /\
     (forall k o, In (k, FOut o) (futs (fold_left (step c) evs s)) -> In (k, FOut o) (futs s) \/ In k (sent_ids evs))).
  { induction evs0 as [|e r IH]; intro s; cbn [fold_left sent_ids flat_map].
    - split; [rewrite app_nil_r; apply incl_refl|auto].
    - destruct (IH (step c s e)) as [A B]. destruct (osub_step c s e) as [C D]. split.
      + intros k H. apply A in H. apply in_app_or in H. destruct H as [H|H].
        * apply C in H. apply in_app_or in H. apply in_or_app. destruct H; [left; assumption|right; apply in_or_app; left; assumption].
        * apply in_or_app. right. apply in_or_app. right. exact H.
      + intros k o H. destruct (B k o H) as [H1|H1].
        * destruct (D k o H1) as [H2|H2]; [left; exact H2|right; apply in_or_app; left; exact H2].
        * right. apply in_or_app. right. exact H1. }
  destruct (G evs init) as [A B]. split.
  - intros k H. apply A in H. exact H.
  - intros k o H. destruct (B k o H) as [[]|H1]. exact H1.
Qed.

(* a history without send_request that ends quiescent: both tables are empty *)
Theorem incoming_quiescent_empty : forall c evs, sent_ids evs = [] -> quiescent (run c evs) = true ->
  futs (run c evs) = [] /\ rtypes (run c evs) = [].
Proof.
  intros c evs NS Q. destruct (outgoing_only_from_sends c evs) as [A B]. rewrite NS in A, B. split.
  - destruct (futs (run c evs)) as [|[k r] l] eqn:E; [reflexivity|]. exfalso.
    assert (HI : In (k, r) (futs (run c evs))) by (rewrite E; left; reflexivity).
    destruct (fw_quiescent _ (fw_run c evs) Q k r HI) as [o EO]. subst r. apply (B k o). left. reflexivity.
  - destruct (rtypes (run c evs)) as [|[k u] l] eqn:E; [reflexivity|]. exfalso. apply (A k). left. reflexivity.
Qed.

(* the size of the table is bounded by the requests in flight plus the outgoing requests sent *)
Corollary table_size_bounded : forall c evs,
  length (futs (run c evs)) <= inflight (run c evs) + length (filter (fun p => negb (is_incoming (snd p))) (futs (run c evs))).
Proof.
  intros c evs. pose proof (table_bounded c evs) as H. unfold incoming_entries in H.
  assert (L : forall (l : list (id * fref)), length l = length (filter (fun p => is_incoming (snd p)) l) + length (filter (fun p => negb (is_incoming (snd p))) l)).
  { induction l as [|x l IH]; [reflexivity|]. cbn [filter]. destruct (is_incoming (snd x)); cbn [negb length]; lia. }
  rewrite (L (futs (run c evs))). lia.
Qed.

(* ================================================================== the same with the events of EndpointX *)
Definition sentx (e : evx) : list id := match e with Base e => sent e | _ => [] end.
Definition sent_idsx (evs : list evx) : list id := flat_map sentx evs.

Lemma osub_stepx : forall c s e,
  incl (keys (rtypes (stepx c s e))) (keys (rtypes s) ++ sentx e) /\
  (forall k o, In (k, FOut o) (futs (stepx c s e)) -> In (k, FOut o) (futs s) \/ In k (sentx e)).
Proof.
  intros c s e. destruct e as [e|i|o]; cbn [stepx sentx]; [apply osub_step| |];
  (assert (Z : forall s', osub s s' -> incl (keys (rtypes s')) (keys (rtypes s) ++ []) /\
            (forall k o, In (k, FOut o) (futs s') -> In (k, FOut o) (futs s) \/ In k []));
   [intros s' (A & B); split; [intros k H; apply in_or_app; left; apply A; exact H|intros k o0 H; left; apply B; exact H]|]);
  destruct (exit s); try (apply Z, osub_refl).
  - apply Z. unfold server_cancel. destruct (Assoc.get id_eqb i (futs s)); [apply osub_cancel_ref|apply osub_refl].
  - apply Z. unfold out_cancel. destruct (nth_error (outg s) o) as [[| |]|]; try apply osub_refl. apply osub_same; reflexivity.
Qed.

Theorem outgoing_only_from_sends_x : forall c evs,
  incl (keys (rtypes (runx c evs))) (sent_idsx evs) /\
  (forall k o, In (k, FOut o) (futs (runx c evs)) -> In k (sent_idsx evs)).
Proof.
  intros c evs. unfold runx.
  assert (G : forall evs s,
     incl (keys (rtypes (fold_left (stepx c) evs s))) (keys (rtypes s) ++ sent_idsx evs) /\
     (forall k o, In (k, FOut o) (futs (fold_left (stepx c) evs s)) -> In (k, FOut o) (futs s) \/ In k (sent_idsx evs))).
  { induction evs0 as [|e r IH]; intro s; cbn [fold_left sent_idsx flat_map].
    - split; [rewrite app_nil_r; apply incl_refl|auto].
    - destruct (IH (stepx c s e)) as [A B]. destruct (osub_stepx c s e) as [C D]. split.
      + intros k H. apply A in H. apply in_app_or in H. destruct H as [H|H].
        * apply C in H. apply in_app_or in H. apply in_or_app. destruct H; [left; assumption|right; apply in_or_app; left; assumption].
        * apply in_or_app. right. apply in_or_app. right. exact H.
      + intros k o H. destruct (B k o H) as [H1|H1].
        * destruct (D k o H1) as [H2|H2]; [left; exact H2|right; apply in_or_app; left; exact H2].
        * right. apply in_or_app. right. exact H1. }
  destruct (G evs init) as [A B]. split.
  - intros k H. apply A in H. exact H.
  - intros k o H. destruct (B k o H) as [[]|H1]. exact H1.
Qed.

Theorem incoming_quiescent_empty_x : forall c evs, sent_idsx evs = [] -> quiescent (runx c evs) = true ->
  futs (runx c evs) = [] /\ rtypes (runx c evs) = [].
Proof.
  intros c evs NS Q. destruct (outgoing_only_from_sends_x c evs) as [A B]. rewrite NS in A, B. split.
  - destruct (futs (runx c evs)) as [|[k r] l] eqn:E; [reflexivity|]. exfalso.
    assert (HI : In (k, r) (futs (runx c evs))) by (rewrite E; left; reflexivity).
    destruct (fw_quiescent _ (fw_runx c evs) Q k r HI) as [o EO]. subst r. apply (B k o). rewrite <- E. exact HI.
  - destruct (rtypes (runx c evs)) as [|[k u] l] eqn:E; [reflexivity|]. exfalso. apply (A k). left. reflexivity.
Qed.
