(* Link between the workspace of C10 (Model/Workspace.v) and the small workspace that the delivery
   model of C14 (Model/Dispatch.v) carries, so that C14's "the user handler sees the workspace
   already updated" means "updated as C10 says".  Neither model is edited.

   Dispatch's workspace (Dispatch.wsp): initialised?, open documents uri -> (version, text NUMBER),
   folders uri -> (), trace, shutdown flag, cancelled progress tokens.  Its messages carry numbered
   texts, and a didChange carries whole-document changes only.  The link interprets the numbers:
     tx t    the text (code points) that Dispatch's text number t stands for, with a left inverse
             `untx` (untx (tx t) = t: different numbers are different texts),
     lg u    the languageId sent with the didOpen of uri u   (Dispatch has none),
     nm u    the name sent with folder u                     (Dispatch has none).
   `op_of` maps Dispatch's didOpen / didChange / didClose / didChangeWorkspaceFolders to C10's
   operations (a change `t` becomes `Whole (tx t)`), `abs s fr` maps a Workspace state to a
   Dispatch workspace: documents (version, untx text), folder uris; trace / shutdown flag / tokens
   are outside Workspace.v and are taken from the frame `fr`.

   Where the two models do NOT say the same, and what each abstracts (none is a modelling error
   with respect to /repo, see the report of this file's author):
   * sync kind None: TextDocument._apply_none_change keeps the text; Dispatch's didChange always
     installs the last text.  Dispatch describes a server whose sync kind is Full or Incremental
     (LanguageServer's default): the link has the hypothesis `snd cf <> SyncNone`, and
     `link_needs_sync_kind` exhibits the difference under SyncNone.
   * Dispatch knows only whole-document changes, no languageId, no folder names, no notebooks; built-ins
     raise before `initialize` (Workspace.v starts at the initialised workspace: the link starts
     after Dispatch's CInitialize).
   * Assoc.remove drops the first binding of a key, AssocWs.adel every binding: the same on
     dictionaries (keys without duplicates: invariant carried below). *)
From Coq Require Import ZArith NArith List Bool Lia.
From Pygls Require Import Base.PyStr Base.AssocWs Model.Codec Model.Doc Model.Workspace
                          Spec.WorkspaceSpec Proofs.WorkspaceProofs.
From Pygls Require Base.Assoc Model.Features Model.Dispatch Spec.DispatchSpec Proofs.C14Proofs.
Import ListNotations.
Open Scope N_scope.

Module D := Dispatch.
Module DS := DispatchSpec.

Section Link.
  Variable tx : N -> list N.
  Variable untx : list N -> N.
  Hypothesis untx_tx : forall t, untx (tx t) = t.
  Variable lg : N -> N.
  Variable nm : N -> N.
  Variable cf : encoding * sync_kind.
  Hypothesis kind_not_none : snd cf <> SyncNone.

  (* ---- correspondence of operations ---- *)
  Definition op_of (k : D.call) : option op :=
    match k with
    | D.CDidOpen u v t => Some (DidOpen (u, lg u, v, tx t))
    | D.CDidChange u v ts => Some (DidChange u v (map (fun t => Whole (tx t)) ts))
    | D.CDidClose u => Some (DidClose u)
    | D.CFolders a r => Some (Folders (map (fun u => (u, nm u)) a) r)
    | _ => None
    end.
  Definition sync_call (k : D.call) : bool := match op_of k with Some _ => true | None => false end.
  Definition ops_of (ks : list D.call) : list op :=
    flat_map (fun k => match op_of k with Some o => [o] | None => [] end) ks.

  (* ---- abstraction ---- *)
  Definition abs_doc (x : doc * N) : Z * N :=
    (match d_version (fst x) with Some v => v | None => 0%Z end, untx (source (fst x))).
  Definition abs_docs (s : ws) : list (N * (Z * N)) := map (fun p => (fst p, abs_doc (snd p))) (w_docs s).
  Definition abs_folders (s : ws) : list (N * unit) := map (fun p => (fst p, tt)) (w_folders s).
  Definition abs (s : ws) (fr : D.wsp) : D.wsp :=
    D.mkW true (abs_docs s) (abs_folders s) (D.w_trace fr) (D.w_shut fr) (D.w_cancelled fr).

  (* ---- association lists: AssocWs (Workspace.v) against Base/Assoc (Dispatch.v) ---- *)
  Lemma map_aset {V W} (g : V -> W) u x (l : list (N * V)) :
    map (fun p => (fst p, g (snd p))) (aset u x l) =
    Assoc.set N.eqb u (g x) (map (fun p => (fst p, g (snd p))) l).
  Proof.
    induction l as [|[k v] r IH]; [reflexivity|].
    cbn [aset map Assoc.set fst snd]. destruct (u =? k); cbn [map fst snd]; [reflexivity|]. rewrite IH. reflexivity.
  Qed.

  Lemma get_map {V W} (g : V -> W) u (l : list (N * V)) :
    Assoc.get N.eqb u (map (fun p => (fst p, g (snd p))) l) = option_map g (aget u l).
  Proof.
    induction l as [|[k v] r IH]; [reflexivity|].
    cbn [aget map Assoc.get fst snd]. destruct (u =? k); [reflexivity|exact IH].
  Qed.

  Lemma keys_map {V W} (g : V -> W) (l : list (N * V)) :
    Assoc.keys (map (fun p => (fst p, g (snd p))) l) = map fst l.
  Proof. unfold Assoc.keys. rewrite map_map. reflexivity. Qed.

  Lemma adel_notin {V} u (l : list (N * V)) : ~ In u (map fst l) -> adel u l = l.
  Proof.
    induction l as [|[k v] r IH]; intros H; [reflexivity|].
    cbn [adel]. destruct (u =? k) eqn:E.
    - apply N.eqb_eq in E. exfalso. apply H. left. cbn. congruence.
    - rewrite IH; [reflexivity|]. intros H'. apply H. right. exact H'.
  Qed.

  Lemma map_adel {V W} (g : V -> W) u (l : list (N * V)) :
    NoDup (map fst l) ->
    map (fun p => (fst p, g (snd p))) (adel u l) =
    Assoc.remove N.eqb u (map (fun p => (fst p, g (snd p))) l).
  Proof.
    induction l as [|[k v] r IH]; intros Hn; [reflexivity|].
    cbn [map fst] in Hn. inversion Hn as [|? ? Hk Hr]; subst.
    cbn [adel map Assoc.remove fst snd]. destruct (u =? k) eqn:E.
    - apply N.eqb_eq in E. subst k. rewrite adel_notin by exact Hk. reflexivity.
    - cbn [map fst snd]. rewrite IH by exact Hr. reflexivity.
  Qed.

  Lemma nodup_aset {V} u x (l : list (N * V)) : NoDup (map fst l) -> NoDup (map fst (aset u x l)).
  Proof.
    intros H. rewrite <- (keys_map (fun _ : V => tt) (aset u x l)), (map_aset (fun _ : V => tt)).
    apply (Assoc.nodup_set N.eqb N.eqb_eq). unfold Assoc.keys. rewrite map_map. exact H.
  Qed.

  Lemma nodup_adel {V} u (l : list (N * V)) : NoDup (map fst l) -> NoDup (map fst (adel u l)).
  Proof.
    intros H. rewrite <- (keys_map (fun _ : V => tt) (adel u l)), (map_adel (fun _ : V => tt) u l H).
    apply Assoc.nodup_remove. unfold Assoc.keys. rewrite map_map. exact H.
  Qed.

  (* ---- the text of a document under whole-document changes (sync kind Full or Incremental) ---- *)
  Lemma upd_whole d v t :
    d_kind d <> SyncNone -> update_text_document d v (Whole t) = mkDoc t (Some v) (d_kind d) (d_enc d).
  Proof.
    destruct d as [src ver k e]. cbn. intros Hk. destruct k; [contradiction|reflexivity|reflexivity].
  Qed.

  Lemma last_cons {A} (r : list A) : forall a d, last (a :: r) d = last r a.
  Proof.
    induction r as [|b r IH]; intros a d; [reflexivity|].
    change (last (a :: b :: r) d) with (last (b :: r) d). rewrite (IH b d), (IH b a). reflexivity.
  Qed.

  Lemma whole_changes d v ts t1 :
    d_kind d <> SyncNone ->
    let d' := did_change d (v, map (fun t => Whole (tx t)) (t1 :: ts)) in
    source d' = tx (last ts t1) /\ d_version d' = Some v /\ d_kind d' = d_kind d.
  Proof.
    intros Hk. unfold did_change. cbn [fst snd map].
    revert d t1 Hk. induction ts as [|t2 r IH]; intros d t1 Hk.
    - cbn [map fold_left]. rewrite (upd_whole d v (tx t1) Hk). repeat split.
    - cbn [map fold_left]. rewrite (upd_whole d v (tx t1) Hk).
      specialize (IH (mkDoc (tx t1) (Some v) (d_kind d) (d_enc d)) t2 Hk).
      cbn [map fold_left d_kind] in IH. rewrite (last_cons r t2 t1). exact IH.
  Qed.

  (* ---- the simulation ---- *)
  (* every stored document was created with the workspace's sync kind *)
  Definition kinds_ok (s : ws) : Prop :=
    forall u d l, aget u (w_docs s) = Some (d, l) -> d_kind d <> SyncNone.
  Definition dict_ok (s : ws) : Prop := NoDup (map fst (w_docs s)) /\ NoDup (map fst (w_folders s)).

  Lemma get_abs u s : Assoc.get N.eqb u (abs_docs s) = option_map abs_doc (aget u (w_docs s)).
  Proof. unfold abs_docs. apply (get_map abs_doc). Qed.

  Lemma folders_sim a : forall r s,
    NoDup (map fst (w_folders s)) ->
    let s' := fold_left folder_loop (zip_longest (map (fun u => (u, nm u)) a) r) s in
    abs_folders s' = D.zip_folders a r (abs_folders s) /\ NoDup (map fst (w_folders s')).
  Proof.
    assert (Hdel : forall r s, NoDup (map fst (w_folders s)) ->
      let s' := fold_left folder_loop (map (fun y => (None, Some y)) r) s in
      abs_folders s' = D.del_folders r (abs_folders s) /\ NoDup (map fst (w_folders s'))).
    { induction r as [|y r IH]; intros s Hn; [split; [reflexivity|exact Hn]|].
      cbn [map fold_left D.del_folders]. unfold folder_loop at 2. cbn [fst snd].
      destruct (IH (remove_folder s y)) as [E N']; [cbn; apply nodup_adel; exact Hn|].
      split; [|exact N']. rewrite E. unfold abs_folders, remove_folder, D.del_folder. cbn.
      rewrite (map_adel (fun _ => tt) y _ Hn). reflexivity. }
    induction a as [|x a IH]; intros r s Hn; [apply Hdel; exact Hn|].
    destruct r as [|y r]; cbn [map zip_longest fold_left D.zip_folders].
    - unfold folder_loop at 2. cbn [fst snd].
      destruct (IH [] (add_folder s (x, nm x))) as [E N']; [cbn; apply nodup_aset; exact Hn|].
      split; [|exact N']. rewrite E. unfold abs_folders, add_folder, D.add_folder. cbn.
      rewrite (map_aset (fun _ => tt)). reflexivity.
    - unfold folder_loop at 2. cbn [fst snd].
      destruct (IH r (remove_folder (add_folder s (x, nm x)) y)) as [E N'].
      { cbn. apply nodup_adel, nodup_aset. exact Hn. }
      split; [|exact N']. rewrite E. unfold abs_folders, add_folder, remove_folder, D.add_folder, D.del_folder. cbn.
      rewrite (map_adel (fun _ => tt) y _ (nodup_aset x (nm x) _ Hn)), (map_aset (fun _ => tt)). reflexivity.
  Qed.

  (* one message: Dispatch's reference step (the built-in's effect, or nothing when it raises) is
     the abstraction of Workspace.v's step *)
  Lemma link_step c k o s fr :
    op_of k = Some o -> D.w_shut fr = false -> kinds_ok s -> dict_ok s ->
    DS.spec_step c (abs s fr) k = abs (impl_step cf s o) fr /\
    kinds_ok (impl_step cf s o) /\ dict_ok (impl_step cf s o).
  Proof.
    intros Ho Hs Hk [Hd Hf]. unfold DS.spec_step, DS.delivered. cbn [abs D.w_shut]. rewrite Hs. cbn [negb].
    destruct k; try discriminate; cbn [op_of] in Ho; injection Ho as <-; cbn [D.ws_effect D.w_init abs negb].
    - (* didOpen *)
      cbn [impl_step put_text_document]. split; [|split].
      + unfold abs, D.set_docs, abs_docs, abs_folders. cbn.
        rewrite (map_aset abs_doc). unfold abs_doc at 2. cbn. rewrite untx_tx. reflexivity.
      + intros x d l. cbn. rewrite aget_aset. destruct (x =? u).
        * intros E. injection E as <- <-. exact kind_not_none.
        * apply Hk.
      + split; cbn; [apply nodup_aset; exact Hd|exact Hf].
    - (* didChange *)
      cbn [impl_step]. unfold lsp_did_change, get_text_document.
      change (D.w_docs (abs s fr)) with (abs_docs s). rewrite !get_abs.
      destruct (aget u (w_docs s)) as [[d l]|] eqn:E.
      + assert (Hkd := Hk u d l E). cbn [handle fst snd option_map].
        assert (Hdocs : D.set_docs (Assoc.set N.eqb u (abs_doc (did_change d (ver, map (fun t => Whole (tx t)) txts), l))
                            (abs_docs s)) (abs s fr) =
                        abs (with_docs s (aset u (did_change d (ver, map (fun t => Whole (tx t)) txts), l) (w_docs s))) fr).
        { unfold abs, D.set_docs, abs_docs, abs_folders. cbn. rewrite (map_aset abs_doc). reflexivity. }
        assert (Hinv : forall d', d_kind d' <> SyncNone ->
                  kinds_ok (with_docs s (aset u (d', l) (w_docs s))) /\ dict_ok (with_docs s (aset u (d', l) (w_docs s)))).
        { intros d' Hd'. split.
          - intros x d0 l0. cbn. rewrite aget_aset. destruct (x =? u); [|apply Hk].
            intros E0. injection E0 as <- <-. exact Hd'.
          - split; cbn; [apply nodup_aset; exact Hd|exact Hf]. }
        destruct txts as [|t1 r].
        * (* no changes: the version is stored *)
          split.
          -- rewrite <- Hdocs. unfold abs_doc. cbn. reflexivity.
          -- apply Hinv. cbn. exact Hkd.
        * destruct (whole_changes d ver r t1 Hkd) as (A & B & C). split.
          -- rewrite <- Hdocs. cbn [option_map]. unfold abs_doc. cbn [fst]. rewrite A, B, untx_tx. reflexivity.
          -- apply Hinv. rewrite C. exact Hkd.
      + cbn [option_map]. destruct txts as [|t1 r]; cbn [map handle fst snd].
        * split; [reflexivity|split; [exact Hk|split; assumption]].
        * split; [reflexivity|]. split; [exact Hk|split; assumption].
    - (* didClose *)
      cbn [impl_step remove_text_document]. split; [|split].
      + unfold abs, D.set_docs, abs_docs, abs_folders. cbn. rewrite (map_adel abs_doc u _ Hd). reflexivity.
      + intros x d l. cbn. rewrite aget_adel. destruct (x =? u); [discriminate|apply Hk].
      + split; cbn; [apply nodup_adel; exact Hd|exact Hf].
    - (* didChangeWorkspaceFolders *)
      cbn [impl_step]. unfold lsp_did_change_workspace_folders. fold folder_loop.
      destruct (folders_sim added removed s Hf) as [E N'].
      destruct (folder_loop_frame (zip_longest (map (fun u => (u, nm u)) added) removed) s) as (F1 & F2 & F3 & F4).
      assert (G : D.set_folders (D.zip_folders added removed (abs_folders s)) (abs s fr) =
                  abs (fold_left folder_loop (zip_longest (map (fun u => (u, nm u)) added) removed) s) fr).
      { unfold abs, D.set_folders, abs_docs. cbn. rewrite <- E, F1. reflexivity. }
      split; [|split].
      + destruct added, removed; rewrite <- G; reflexivity.
      + intros x d l. rewrite F1. apply Hk.
      + split; [rewrite F1; exact Hd|exact N'].
  Qed.

  Lemma ops_of_cons k ks o : op_of k = Some o -> ops_of (k :: ks) = o :: ops_of ks.
  Proof. intros H. unfold ops_of. cbn [flat_map]. rewrite H. reflexivity. Qed.

  Lemma link_fold c ks : forall s fr,
    forallb sync_call ks = true -> D.w_shut fr = false -> kinds_ok s -> dict_ok s ->
    fold_left (DS.spec_step c) ks (abs s fr) = abs (fold_left (impl_step cf) (ops_of ks) s) fr.
  Proof.
    induction ks as [|k r IH]; intros s fr Hs Hsh Hk Hd; [reflexivity|].
    cbn [forallb] in Hs. apply andb_true_iff in Hs. destruct Hs as [Hk1 Hr].
    unfold sync_call in Hk1. destruct (op_of k) as [o|] eqn:Eo; [|discriminate].
    destruct (link_step c k o s fr Eo Hsh Hk Hd) as (E & Hk' & Hd').
    rewrite (ops_of_cons k r o Eo). cbn [fold_left]. rewrite E. apply IH; assumption.
  Qed.

  (* `initialize` builds the workspace C10's histories start from *)
  Lemma init_sim fs : forall s,
    NoDup (map fst (w_folders s)) ->
    abs_folders (fold_left add_folder (map (fun u => (u, nm u)) fs) s) =
      fold_left (fun f u => D.add_folder u f) fs (abs_folders s) /\
    NoDup (map fst (w_folders (fold_left add_folder (map (fun u => (u, nm u)) fs) s))).
  Proof.
    induction fs as [|x r IH]; intros s Hn; [split; [reflexivity|exact Hn]|].
    cbn [map fold_left]. destruct (IH (add_folder s (x, nm x))) as [E N']; [cbn; apply nodup_aset; exact Hn|].
    split; [|exact N']. rewrite E. unfold abs_folders, add_folder, D.add_folder. cbn.
    rewrite (map_aset (fun _ => tt)). reflexivity.
  Qed.

  Lemma init_link c i fs :
    DS.spec_step c D.w0 (D.CInitialize i fs) = abs (init_ws (map (fun u => (u, nm u)) fs)) D.w0 /\
    kinds_ok (init_ws (map (fun u => (u, nm u)) fs)) /\ dict_ok (init_ws (map (fun u => (u, nm u)) fs)).
  Proof.
    unfold init_ws.
    destruct (init_sim fs (mkWs [] [] [] [] 0) (NoDup_nil _)) as [E N'].
    destruct (init_frame (map (fun u => (u, nm u)) fs) (mkWs [] [] [] [] 0)) as (F1 & F2 & F3 & F4).
    split; [|split].
    - unfold DS.spec_step, DS.delivered. cbn. unfold abs, abs_docs. rewrite E, F1. reflexivity.
    - intros u d l. rewrite F1. discriminate.
    - split; [rewrite F1; constructor|exact N'].
  Qed.

  (* ---- the link ---- *)
  (* Whatever user features and commands are registered (c_reg), whichever of them raise
     (c_raises), and whatever the schedule of loop tasks and pool jobs (evs): if the messages
     delivered are `initialize` followed by didOpen / didChange / didClose /
     didChangeWorkspaceFolders notifications, Dispatch's workspace is the abstraction of the state
     of Workspace.v after the corresponding operations. *)
  Theorem link_workspace_dispatch c evs i fs ks :
    DS.calls_of evs = D.CInitialize i fs :: ks -> forallb sync_call ks = true ->
    D.ws (D.run c evs) = abs (run_ws cf (map (fun u => (u, nm u)) fs) (ops_of ks)) D.w0.
  Proof.
    intros Hc Hs. rewrite (proj1 (C14Proofs.ws_run c evs)), Hc. unfold DS.spec_ws. cbn [fold_left].
    destruct (init_link c i fs) as (E & Hk & Hd). rewrite E.
    apply link_fold; [exact Hs|reflexivity|exact Hk|exact Hd].
  Qed.

  (* the snapshot every non-built-in handler body sees on entry (the chained user feature of a
     notification, a loop task or pool job started later) is the abstraction of Workspace.v's state
     after ALL messages delivered so far, the one being handled included *)
  Theorem link_snapshot c evs e i fs ks :
    DS.calls_of (evs ++ [e]) = D.CInitialize i fs :: ks -> forallb sync_call ks = true ->
    exists new, D.hlog (D.run c (evs ++ [e])) = D.hlog (D.run c evs) ++ new /\
      Forall (fun h => C14Proofs.is_b h = false ->
                       D.h_snap h = abs (run_ws cf (map (fun u => (u, nm u)) fs) (ops_of ks)) D.w0) new.
  Proof.
    intros Hc Hs. destruct (C14Proofs.snapshots c evs e) as (new & A & B & _).
    exists new. split; [exact A|].
    rewrite Forall_forall in *. intros h Hh Hb. rewrite (B h Hh), Hb.
    rewrite <- (proj1 (C14Proofs.ws_run c (evs ++ [e]))). exact (link_workspace_dispatch c (evs ++ [e]) i fs ks Hc Hs).
  Qed.

  (* composed with C10: on a well-formed history (here: no folder both added and removed by one
     notification) what Dispatch's workspace, hence the chained user handler, shows for every uri is
     what C10's reference fold says *)
  Theorem link_reference c evs i fs ks :
    DS.calls_of evs = D.CInitialize i fs :: ks -> forallb sync_call ks = true ->
    wf_history cf (map (fun u => (u, nm u)) fs) (ops_of ks) = true ->
    let t := spec_run cf (map (fun u => (u, nm u)) fs) (ops_of ks) in
    (forall u, Assoc.get N.eqb u (D.w_docs (D.ws (D.run c evs))) = option_map abs_doc (o_doc t u)) /\
    (forall u, Assoc.get N.eqb u (D.w_folders (D.ws (D.run c evs))) = option_map (fun _ => tt) (o_folder t u)).
  Proof.
    intros Hc Hs Hw t. rewrite (link_workspace_dispatch c evs i fs ks Hc Hs).
    assert (HR := fold_refines cf _ _ Hw). fold t in HR.
    split; intros u; cbn [abs D.w_docs D.w_folders].
    - unfold abs_docs. rewrite (get_map abs_doc). rewrite (eq_doc _ _ HR u : aget u _ = _). reflexivity.
    - unfold abs_folders. rewrite (get_map (fun _ => tt)). rewrite (eq_folder _ _ HR u : aget u _ = _). reflexivity.
  Qed.
End Link.

(* the hypothesis on the sync kind is needed: under SyncNone Workspace.v keeps the text (as
   TextDocument._apply_none_change does), Dispatch installs the new one *)
Example link_needs_sync_kind :
  let tx := fun t => [t] in
  let untx := fun s => match s with [t] => t | _ => 0 end in
  let ks := [D.CDidOpen 1 1 7; D.CDidChange 1 2 [8]] in
  let w := fold_left (DS.spec_step (D.mkCfg Features.empty_registry [] [] [] []))
                     (D.CInitialize 0 [] :: ks) D.w0 in
  D.w_docs w = [(1, (2%Z, 8))] /\
  abs_docs untx (run_ws (Utf16, SyncNone) [] (ops_of tx (fun _ => 0) (fun _ => 0) ks)) = [(1, (2%Z, 7))] /\
  abs_docs untx (run_ws (Utf16, SyncFull) [] (ops_of tx (fun _ => 0) (fun _ => 0) ks)) = [(1, (2%Z, 8))].
Proof. vm_compute. repeat split. Qed.

(* non-vacuity: a registry-independent run with a close, a change for a closed document (Dispatch:
   the built-in raises; Workspace.v: reported, nothing changes) and a folder change *)
Example link_nonvacuous :
  let tx := fun t : N => [t; t] in
  let ks := [D.CDidOpen 1 1 7; D.CDidOpen 2 1 5; D.CDidChange 1 2 [8; 9]; D.CDidClose 2; D.CDidChange 2 3 [4];
             D.CDidChange 1 4 []; D.CFolders [3; 4] [5; 3]] in
  forallb (sync_call tx (fun _ => 0) (fun _ => 0)) ks = true /\
  fold_left (DS.spec_step (D.mkCfg Features.empty_registry [] [] [] [])) (D.CInitialize 0 [5] :: ks) D.w0 =
    D.mkW true [(1, (4%Z, 9))] [(4, tt)] 0 false [] /\
  w_errs (run_ws (Utf16, SyncIncremental) [(5, 0)] (ops_of tx (fun _ => 0) (fun _ => 0) ks)) = 1.
Proof. vm_compute. repeat split. Qed.

Print Assumptions link_workspace_dispatch.
Print Assumptions link_snapshot.
Print Assumptions link_reference.
