(* Proofs/C06Sim.v - the simulation behind C06 (ii): the relation `R s s'` between a state s of the
   run WITH the B-messages and a state s' of the run WITHOUT them, and its preservation by every
   function of Model/Endpoint.v, either "on the left only" (the function acts for a B-message:
   s moves, s' stays) or "on both sides" (it acts for another message: both move alike, task / job
   indices translated by `rank`). *)
From Coq Require Import ZArith NArith List Bool Arith Lia.
From Pygls Require Import Base.Assoc Model.Endpoint Spec.EndpointSpec Spec.ContainSpec
  Proofs.EndpointInv Proofs.C06Lists.
Import ListNotations.

Section Sim.
Variable B : who -> bool.
Variable c : cfg.
Hypothesis CFG : cfg_ok c = true.

Notation gid := (good_id B).
Notation gt := (good_t B).
Notation gj := (good_j B).
Notation gh := (good_h B).
Notation gw := (good_w B).
Notation gf := (good_f B).

Definition mref (ts : list task) (js : list job) (r : fref) : fref :=
  match r with
  | FTask t => FTask (rank gt ts t)
  | FJob j => FJob (rank gj js j)
  | FOut o => FOut o
  end.
Definition fmap (ts : list task) (js : list job) (p : id * fref) : id * fref := (fst p, mref ts js (snd p)).

Definition cb_ok (w : who) (cb : cbkind) : Prop :=
  match cb with CReq i => w = WReq i | CNot => True end.

(* an in-flight entry points at an existing task / job of the same side as its key *)
Definition fut_ok (ts : list task) (js : list job) (p : id * fref) : Prop :=
  match snd p with
  | FTask t => exists tk, nth_error ts t = Some tk /\ gt tk = gid (fst p)
  | FJob j => exists jb, nth_error js j = Some jb /\ gj jb = gid (fst p)
  | FOut _ => gid (fst p) = true
  end.

Record R (s s' : st) : Prop := mkR {
  r_shut : shutdown s' = shutdown s;
  r_futs : futs s' = map (fmap (tasks s) (jobs s)) (filter gf (futs s));
  r_rt : rtypes s' = rtypes s;
  r_tasks : tasks s' = filter gt (tasks s);
  r_jobs : jobs s' = filter gj (jobs s);
  r_wq : wq s' = filter gw (wq s);
  r_outg : outg s' = outg s;
  r_out : filter no_show (out s') = filter (vis B) (out s);
  r_hlog : hlog s' = filter gh (hlog s);
  r_closed : closed s' = closed s;
  r_exitq : exitq s' = exitq s;
  r_exit : exit s' = exit s;
  r_undef : undef s' = undef s;
  r_fok : Forall (fut_ok (tasks s) (jobs s)) (futs s);
  r_tcb : Forall (fun tk => cb_ok (t_who tk) (t_cb tk)) (tasks s);
  r_jcb : Forall (fun jb => cb_ok (j_who jb) (j_cb jb)) (jobs s);
  r_rtb : Forall (fun p => gid (fst p) = true) (rtypes s) }.

Lemma R_core : forall s s', R s s' -> core_of B s = obs s'.
Proof.
  intros s s' [H1 H2 H3 H4 H5 H6 H7 H8 H9 H10 H11 H12 H13 _ _ _ _].
  unfold core_of, obs. rewrite H1, H2, H3, H4, H5, H6, H7, H8, H9, H10, H11, H12, H13. reflexivity.
Qed.

Lemma R_init : R init init.
Proof. constructor; cbn; try reflexivity; constructor. Qed.

Ltac unf := unfold add_out, add_wq, add_err, log, set_task_st, set_job_st, set_outg_st, fut_set, fut_pop,
                   rtype_pop, new_task, new_job in *.
Ltac rsplit H := destruct H as [H1 H2 H3 H4 H5 H6 H7 H8 H9 H10 H11 H12 H13 H14 H15 H16 H17];
                 constructor; unf; proj; try assumption.

(* ---------------------------------------------------------------- fields R does not read *)
Lemma R_add_err_l : forall e s s', R s s' -> R (add_err e s) s'.
Proof. intros e s s' H. rsplit H. Qed.
Lemma R_add_err_r : forall e s s', R s s' -> R s (add_err e s').
Proof. intros e s s' H. rsplit H. Qed.
Lemma R_nwrites_l : forall n s s', R s s' -> R (set_nwrites n s) s'.
Proof. intros n s s' H. rsplit H. Qed.
Lemma R_nwrites_r : forall n s s', R s s' -> R s (set_nwrites n s').
Proof. intros n s s' H. rsplit H. Qed.
Lemma R_storm_l : forall b s s', R s s' -> R (set_storm b s) s'.
Proof. intros b s s' H. rsplit H. Qed.
Lemma R_storm_r : forall b s s', R s s' -> R s (set_storm b s').
Proof. intros b s s' H. rsplit H. Qed.

(* ---------------------------------------------------------------- out *)
Lemma vis_no_show : forall f, vis B f = true -> no_show f = true.
Proof. intros f H. unfold vis in H. apply andb_true_iff in H. apply H. Qed.

Lemma R_add_out_l : forall f s s', vis B f = false -> R s s' -> R (add_out f s) s'.
Proof. intros f s s' V H. rsplit H. rewrite filter_snoc, V. assumption. Qed.
Lemma R_add_out_r : forall f s s', no_show f = false -> R s s' -> R s (add_out f s').
Proof. intros f s s' V H. rsplit H. rewrite filter_snoc, V. assumption. Qed.
Lemma R_add_out_b : forall f s s', vis B f = true -> R s s' -> R (add_out f s) (add_out f s').
Proof.
  intros f s s' V H. pose proof (vis_no_show f V) as N. rsplit H.
  rewrite !filter_snoc, V, N, H8. reflexivity.
Qed.

(* ---------------------------------------------------------------- hlog *)
Lemma R_log_l : forall w p ph sv s s', B w = true -> R s s' -> R (log w p ph sv s) s'.
Proof. intros w p ph sv s s' V H. rsplit H. rewrite filter_snoc. unfold good_h. cbn [h_who]. rewrite V. assumption. Qed.
Lemma R_log_b : forall w p ph sv s s', B w = false -> R s s' -> R (log w p ph sv s) (log w p ph sv s').
Proof. intros w p ph sv s s' V H. rsplit H. rewrite filter_snoc. unfold good_h. cbn [h_who]. rewrite V, H9. reflexivity. Qed.

(* ---------------------------------------------------------------- wq *)
Lemma R_add_wq_l : forall w s s', gw w = false -> R s s' -> R (add_wq w s) s'.
Proof. intros w s s' V H. rsplit H. rewrite filter_snoc, V. assumption. Qed.
Lemma R_add_wq_b : forall w s s', gw w = true -> R s s' -> R (add_wq w s) (add_wq w s').
Proof. intros w s s' V H. rsplit H. rewrite filter_snoc, V, H6. reflexivity. Qed.

(* ---------------------------------------------------------------- plain fields, both sides *)
Lemma R_set_shutdown_b : forall v s s', R s s' -> R (set_shutdown v s) (set_shutdown v s').
Proof. intros v s s' H. rsplit H. reflexivity. Qed.
Lemma R_set_closed_b : forall v s s', R s s' -> R (set_closed v s) (set_closed v s').
Proof. intros v s s' H. rsplit H. reflexivity. Qed.
Lemma R_set_exit_b : forall v s s', R s s' -> R (set_exit v s) (set_exit v s').
Proof. intros v s s' H. rsplit H. reflexivity. Qed.
Lemma R_set_exitq_b : forall v s s', R s s' -> R (set_exitq v s) (set_exitq v s').
Proof. intros v s s' H. rsplit H. reflexivity. Qed.
Lemma R_set_undef_b : forall v s s', R s s' -> R (set_undef v s) (set_undef v s').
Proof. intros v s s' H. rsplit H. reflexivity. Qed.
Lemma R_set_outg_b : forall v s s', R s s' -> R (set_outg v s) (set_outg v s').
Proof. intros v s s' H. rsplit H. reflexivity. Qed.
Lemma R_set_outg_st_b : forall o x s s', R s s' -> R (set_outg_st o x s) (set_outg_st o x s').
Proof. intros o x s s' H. rsplit H. rewrite H7. reflexivity. Qed.

(* ---------------------------------------------------------------- association lists *)
Lemma remove_absent : forall (V : Type) i (l : list (id * V)), Assoc.mem id_eqb i l = false -> Assoc.remove id_eqb i l = l.
Proof.
  intros V i l H. apply (Assoc.remove_notin id_eqb id_eqb_spec). apply (Assoc.get_none_notin id_eqb id_eqb_spec).
  unfold Assoc.mem in H. destruct (Assoc.get id_eqb i l); [discriminate|reflexivity].
Qed.

Lemma Forall_remove : forall (V : Type) (P : id * V -> Prop) i l, Forall P l -> Forall P (Assoc.remove id_eqb i l).
Proof.
  intros V P i l H. induction H as [|[k v] r Hx Hr IH]; cbn [Assoc.remove]; [constructor|].
  destruct (id_eqb i k); [exact Hr|constructor; assumption].
Qed.

Lemma Forall_set : forall (V : Type) (P : id * V -> Prop) i v l,
  (forall k, k = i -> P (k, v)) -> Forall P l -> Forall P (Assoc.set id_eqb i v l).
Proof.
  intros V P i v l Hv H. induction H as [|[k v0] r Hx Hr IH]; cbn [Assoc.set].
  - constructor; [apply Hv; reflexivity|constructor].
  - destruct (id_eqb i k) eqn:E.
    + constructor; [apply Hv; symmetry; apply id_eqb_spec; exact E|exact Hr].
    + constructor; assumption.
Qed.

Lemma mem_forall_good : forall (l : list (id * unit)) i,
  Forall (fun p => gid (fst p) = true) l -> gid i = false -> Assoc.mem id_eqb i l = false.
Proof.
  intros l i H G. unfold Assoc.mem. induction H as [|[k v] r Hx Hr IH]; cbn [Assoc.get]; [reflexivity|].
  destruct (id_eqb i k) eqn:E; [|exact IH].
  apply id_eqb_spec in E. subst. cbn [fst] in Hx. congruence.
Qed.

Lemma filter_remove_bad : forall i (l : list (id * fref)), gid i = false ->
  filter gf (Assoc.remove id_eqb i l) = filter gf l.
Proof.
  intros i l G. induction l as [|[k v] r IH]; [reflexivity|]. cbn [Assoc.remove].
  destruct (id_eqb i k) eqn:E.
  - apply id_eqb_spec in E. subst. cbn [filter]. unfold good_f at 2. cbn [fst]. rewrite G. reflexivity.
  - cbn [filter]. rewrite IH. reflexivity.
Qed.

Lemma filter_remove_good : forall i (l : list (id * fref)), gid i = true ->
  filter gf (Assoc.remove id_eqb i l) = Assoc.remove id_eqb i (filter gf l).
Proof.
  intros i l G. induction l as [|[k v] r IH]; [reflexivity|]. cbn [Assoc.remove].
  destruct (id_eqb i k) eqn:E.
  - pose proof E as E'. apply id_eqb_spec in E'. subst. cbn [filter]. unfold good_f at 2. cbn [fst]. rewrite G.
    cbn [Assoc.remove]. rewrite E. reflexivity.
  - cbn [filter]. destruct (gf (k, v)); [|exact IH]. cbn [Assoc.remove]. rewrite E, IH. reflexivity.
Qed.

Lemma remove_fmap : forall ts js i l,
  Assoc.remove id_eqb i (map (fmap ts js) l) = map (fmap ts js) (Assoc.remove id_eqb i l).
Proof.
  intros ts js i l. induction l as [|[k v] r IH]; [reflexivity|]. cbn [map Assoc.remove fmap fst snd].
  destruct (id_eqb i k); [reflexivity|]. cbn [map fmap fst snd]. rewrite IH. reflexivity.
Qed.

Lemma get_fmap_filter : forall ts js i l, gid i = true ->
  Assoc.get id_eqb i (map (fmap ts js) (filter gf l)) = option_map (mref ts js) (Assoc.get id_eqb i l).
Proof.
  intros ts js i l G. induction l as [|[k v] r IH]; [reflexivity|]. cbn [Assoc.get filter].
  destruct (id_eqb i k) eqn:E.
  - pose proof E as E'. apply id_eqb_spec in E'. subst. unfold good_f. cbn [fst]. rewrite G.
    cbn [map fmap fst snd Assoc.get]. rewrite E. reflexivity.
  - destruct (gf (k, v)); [|exact IH]. cbn [map fmap fst snd Assoc.get]. rewrite E. exact IH.
Qed.

Lemma get_filter_bad : forall ts js i l, gid i = false ->
  Assoc.get id_eqb i (map (fmap ts js) (filter gf l)) = None.
Proof.
  intros ts js i l G. induction l as [|[k v] r IH]; [reflexivity|]. cbn [filter].
  destruct (gf (k, v)) eqn:K; [|exact IH]. cbn [map fmap fst snd Assoc.get].
  destruct (id_eqb i k) eqn:E; [|exact IH].
  apply id_eqb_spec in E. subst. unfold good_f in K. cbn [fst] in K. congruence.
Qed.

Lemma filter_set_bad : forall i v (l : list (id * fref)), gid i = false ->
  filter gf (Assoc.set id_eqb i v l) = filter gf l.
Proof.
  intros i v l G. induction l as [|[k v0] r IH]; cbn [Assoc.set].
  - cbn [filter]. unfold good_f. cbn [fst]. rewrite G. reflexivity.
  - destruct (id_eqb i k) eqn:E.
    + apply id_eqb_spec in E. subst. cbn [filter]. unfold good_f. cbn [fst]. rewrite G. reflexivity.
    + cbn [filter]. rewrite IH. reflexivity.
Qed.

Lemma filter_set_good : forall i v (l : list (id * fref)), gid i = true ->
  filter gf (Assoc.set id_eqb i v l) = Assoc.set id_eqb i v (filter gf l).
Proof.
  intros i v l G. induction l as [|[k v0] r IH]; cbn [Assoc.set].
  - cbn [filter]. unfold good_f. cbn [fst]. rewrite G. reflexivity.
  - destruct (id_eqb i k) eqn:E.
    + pose proof E as E'. apply id_eqb_spec in E'. subst. cbn [filter]. unfold good_f. cbn [fst]. rewrite G.
      cbn [Assoc.set]. rewrite E. reflexivity.
    + cbn [filter]. destruct (gf (k, v0)); [|exact IH]. cbn [Assoc.set]. rewrite E, IH. reflexivity.
Qed.

Lemma set_fmap : forall ts js i v l,
  Assoc.set id_eqb i (mref ts js v) (map (fmap ts js) l) = map (fmap ts js) (Assoc.set id_eqb i v l).
Proof.
  intros ts js i v l. induction l as [|[k v0] r IH]; [reflexivity|]. cbn [map Assoc.set fmap fst snd].
  destruct (id_eqb i k); [reflexivity|]. cbn [map fmap fst snd]. rewrite IH. reflexivity.
Qed.

(* ---------------------------------------------------------------- stability of references *)
Lemma fmap_snoc_task : forall ts js x p, fut_ok ts js p -> fmap (snoc ts x) js p = fmap ts js p.
Proof.
  intros ts js x [i r] H. unfold fmap, mref. cbn [fst snd] in *. destruct r as [t|j|o]; try reflexivity.
  unfold fut_ok in H. cbn [snd] in H. destruct H as (tk & N & _). apply nth_error_some_lt in N.
  unfold snoc. rewrite rank_app_le by lia. reflexivity.
Qed.
Lemma fmap_snoc_job : forall ts js x p, fut_ok ts js p -> fmap ts (snoc js x) p = fmap ts js p.
Proof.
  intros ts js x [i r] H. unfold fmap, mref. cbn [fst snd] in *. destruct r as [t|j|o]; try reflexivity.
  unfold fut_ok in H. cbn [snd] in H. destruct H as (jb & N & _). apply nth_error_some_lt in N.
  unfold snoc. rewrite rank_app_le by lia. reflexivity.
Qed.
Lemma map_fmap_ext : forall ts js ts2 js2 l, Forall (fun p => fmap ts2 js2 p = fmap ts js p) l ->
  map (fmap ts2 js2) l = map (fmap ts js) l.
Proof. intros. induction H as [|x r Hx Hr IH]; [reflexivity|]. cbn [map]. rewrite Hx, IH. reflexivity. Qed.
Lemma Forall_filter : forall (A : Type) (P : A -> Prop) q l, Forall P l -> Forall P (filter q l).
Proof. intros A P q l H. induction H as [|x r Hx Hr IH]; cbn [filter]; [constructor|]. destruct (q x); [constructor|]; assumption. Qed.

Lemma fut_ok_snoc_task : forall ts js x p, fut_ok ts js p -> fut_ok (snoc ts x) js p.
Proof.
  intros ts js x [i r] H. unfold fut_ok in *. cbn [fst snd] in *. destruct r as [t|j|o]; try exact H.
  destruct H as (tk & N & G). exists tk. split; [|exact G].
  rewrite nth_error_snoc_lt; [exact N|]. eapply nth_error_some_lt; exact N.
Qed.
Lemma fut_ok_snoc_job : forall ts js x p, fut_ok ts js p -> fut_ok ts (snoc js x) p.
Proof.
  intros ts js x [i r] H. unfold fut_ok in *. cbn [fst snd] in *. destruct r as [t|j|o]; try exact H.
  destruct H as (jb & N & G). exists jb. split; [|exact G].
  rewrite nth_error_snoc_lt; [exact N|]. eapply nth_error_some_lt; exact N.
Qed.

Definition tset (x : tstate) (tk : task) : task := mkT (t_who tk) (t_part tk) (t_cb tk) (t_b tk) x.
Definition jset (x : jstate) (jb : job) : job := mkJ (j_who jb) (j_part jb) (j_cb jb) (j_b jb) x.

Lemma fut_ok_upd_task : forall ts js t x p, fut_ok ts js p -> fut_ok (upd_nth t (tset x) ts) js p.
Proof.
  intros ts js t x [i r] H. unfold fut_ok in *. cbn [fst snd] in *. destruct r as [t0|j|o]; try exact H.
  destruct H as (tk & N & G). destruct (Nat.eq_dec t t0) as [E|E].
  - subst. exists (tset x tk). split; [apply nth_error_upd_nth_eq; exact N|exact G].
  - exists tk. split; [rewrite nth_error_upd_nth_neq by exact E; exact N|exact G].
Qed.
Lemma fut_ok_upd_job : forall ts js j x p, fut_ok ts js p -> fut_ok ts (upd_nth j (jset x) js) p.
Proof.
  intros ts js j x [i r] H. unfold fut_ok in *. cbn [fst snd] in *. destruct r as [t0|j0|o]; try exact H.
  destruct H as (jb & N & G). destruct (Nat.eq_dec j j0) as [E|E].
  - subst. exists (jset x jb). split; [apply nth_error_upd_nth_eq; exact N|exact G].
  - exists jb. split; [rewrite nth_error_upd_nth_neq by exact E; exact N|exact G].
Qed.
Lemma fmap_upd_task : forall ts js t x p, fmap (upd_nth t (tset x) ts) js p = fmap ts js p.
Proof. intros ts js t x [i r]. unfold fmap, mref. destruct r; cbn [fst snd]; try reflexivity. rewrite rank_upd_nth; reflexivity. Qed.
Lemma fmap_upd_job : forall ts js j x p, fmap ts (upd_nth j (jset x) js) p = fmap ts js p.
Proof. intros ts js j x [i r]. unfold fmap, mref. destruct r; cbn [fst snd]; try reflexivity. rewrite rank_upd_nth; reflexivity. Qed.

Lemma Forall_upd_nth : forall (A : Type) (P : A -> Prop) (f : A -> A) t l,
  (forall x, P x -> P (f x)) -> Forall P l -> Forall P (upd_nth t f l).
Proof.
  intros A P f t l Hf H. revert t. induction H as [|x r Hx Hr IH]; intros t; [destruct t; constructor|].
  destruct t; cbn [upd_nth]; constructor; auto.
Qed.
Lemma Forall_snoc : forall (A : Type) (P : A -> Prop) l x, Forall P l -> P x -> Forall P (snoc l x).
Proof. intros. unfold snoc. apply Forall_app. split; [assumption|constructor; [assumption|constructor]]. Qed.

(* ---------------------------------------------------------------- rtypes / futs *)
Lemma gid_false : forall i, gid i = false <-> B (WReq i) = true.
Proof. intro i. unfold good_id. destruct (B (WReq i)); cbn; split; congruence. Qed.
Lemma gid_true : forall i, gid i = true <-> B (WReq i) = false.
Proof. intro i. unfold good_id. destruct (B (WReq i)); cbn; split; congruence. Qed.

Lemma R_rtype_pop_l : forall i s s', gid i = false -> R s s' -> R (rtype_pop i s) s'.
Proof.
  intros i s s' G H. pose proof (mem_forall_good _ i (r_rtb _ _ H) G) as M.
  rsplit H; rewrite (remove_absent _ i _ M); assumption.
Qed.
Lemma R_rtype_pop_b : forall i s s', R s s' -> R (rtype_pop i s) (rtype_pop i s').
Proof. intros i s s' H. rsplit H; [rewrite H3; reflexivity|apply Forall_remove; assumption]. Qed.
Lemma R_set_rtypes_b : forall i s s', gid i = true -> R s s' ->
  R (set_rtypes (Assoc.set id_eqb i tt (rtypes s)) s) (set_rtypes (Assoc.set id_eqb i tt (rtypes s')) s').
Proof.
  intros i s s' G H. rsplit H; [rewrite H3; reflexivity|].
  apply Forall_set; [|assumption]. intros k E. subst. exact G.
Qed.

Lemma R_fut_pop_l : forall i s s', gid i = false -> R s s' -> R (fut_pop i s) s'.
Proof.
  intros i s s' G H. rsplit H; [rewrite filter_remove_bad by exact G; assumption|apply Forall_remove; assumption].
Qed.
Lemma R_fut_pop_b : forall i s s', gid i = true -> R s s' -> R (fut_pop i s) (fut_pop i s').
Proof.
  intros i s s' G H. rsplit H; [|apply Forall_remove; assumption].
  rewrite filter_remove_good by exact G. rewrite <- remove_fmap, H2. reflexivity.
Qed.
Lemma R_fut_set_l : forall i r s s', gid i = false -> fut_ok (tasks s) (jobs s) (i, r) -> R s s' -> R (fut_set i r s) s'.
Proof.
  intros i r s s' G F H. rsplit H; [rewrite filter_set_bad by exact G; assumption|].
  apply Forall_set; [|assumption]. intros k E. subst. exact F.
Qed.
Lemma R_fut_set_b : forall i r s s', gid i = true -> fut_ok (tasks s) (jobs s) (i, r) -> R s s' ->
  R (fut_set i r s) (fut_set i (mref (tasks s) (jobs s) r) s').
Proof.
  intros i r s s' G F H. rsplit H; [|apply Forall_set; [|assumption]; intros k E; subst; exact F].
  rewrite filter_set_good by exact G. rewrite <- set_fmap, H2. reflexivity.
Qed.

(* ---------------------------------------------------------------- tasks / jobs *)
Lemma gt_tset : forall x tk, gt (tset x tk) = gt tk. Proof. reflexivity. Qed.
Lemma gj_jset : forall x jb, gj (jset x jb) = gj jb. Proof. reflexivity. Qed.

Lemma futs_stable_task : forall ts js x (l : list (id * fref)), Forall (fut_ok ts js) l ->
  map (fmap (snoc ts x) js) (filter gf l) = map (fmap ts js) (filter gf l).
Proof.
  intros ts js x l H. apply map_fmap_ext. apply Forall_filter.
  eapply Forall_impl; [|exact H]. intros p Hp. apply fmap_snoc_task. exact Hp.
Qed.
Lemma futs_stable_job : forall ts js x (l : list (id * fref)), Forall (fut_ok ts js) l ->
  map (fmap ts (snoc js x)) (filter gf l) = map (fmap ts js) (filter gf l).
Proof.
  intros ts js x l H. apply map_fmap_ext. apply Forall_filter.
  eapply Forall_impl; [|exact H]. intros p Hp. apply fmap_snoc_job. exact Hp.
Qed.
Lemma futs_upd_task : forall ts js t x (l : list (id * fref)),
  map (fmap (upd_nth t (tset x) ts) js) l = map (fmap ts js) l.
Proof. intros. apply map_ext. intro p. apply fmap_upd_task. Qed.
Lemma futs_upd_job : forall ts js j x (l : list (id * fref)),
  map (fmap ts (upd_nth j (jset x) js)) l = map (fmap ts js) l.
Proof. intros. apply map_ext. intro p. apply fmap_upd_job. Qed.

Lemma R_new_task_l : forall w p cb b n s s', B w = true -> cb_ok w cb -> R s s' -> R (new_task w p cb b n s) s'.
Proof.
  intros w p cb b n s s' V K H. rsplit H.
  - rewrite futs_stable_task by assumption. assumption.
  - rewrite filter_snoc. unfold good_t at 1. cbn [t_who]. rewrite V. assumption.
  - eapply Forall_impl; [|exact H14]. intros q Hq. apply fut_ok_snoc_task. exact Hq.
  - apply Forall_snoc; [assumption|exact K].
Qed.
Lemma R_new_task_b : forall w p cb b n s s', B w = false -> cb_ok w cb -> R s s' ->
  R (new_task w p cb b n s) (new_task w p cb b n s').
Proof.
  intros w p cb b n s s' V K H. rsplit H.
  - rewrite futs_stable_task by assumption. assumption.
  - rewrite filter_snoc. unfold good_t at 1. cbn [t_who]. rewrite V, H4. reflexivity.
  - eapply Forall_impl; [|exact H14]. intros q Hq. apply fut_ok_snoc_task. exact Hq.
  - apply Forall_snoc; [assumption|exact K].
Qed.
Lemma R_new_job_l : forall w p cb b x s s', B w = true -> cb_ok w cb -> R s s' -> R (new_job w p cb b x s) s'.
Proof.
  intros w p cb b x s s' V K H. rsplit H.
  - rewrite futs_stable_job by assumption. assumption.
  - rewrite filter_snoc. unfold good_j at 1. cbn [j_who]. rewrite V. assumption.
  - eapply Forall_impl; [|exact H14]. intros q Hq. apply fut_ok_snoc_job. exact Hq.
  - apply Forall_snoc; [assumption|exact K].
Qed.
Lemma R_new_job_b : forall w p cb b x s s', B w = false -> cb_ok w cb -> R s s' ->
  R (new_job w p cb b x s) (new_job w p cb b x s').
Proof.
  intros w p cb b x s s' V K H. rsplit H.
  - rewrite futs_stable_job by assumption. assumption.
  - rewrite filter_snoc. unfold good_j at 1. cbn [j_who]. rewrite V, H5. reflexivity.
  - eapply Forall_impl; [|exact H14]. intros q Hq. apply fut_ok_snoc_job. exact Hq.
  - apply Forall_snoc; [assumption|exact K].
Qed.

Lemma set_task_st_eq : forall t x s, set_task_st t x s = set_tasks (upd_nth t (tset x) (tasks s)) s.
Proof. reflexivity. Qed.
Lemma set_job_st_eq : forall j x s, set_job_st j x s = set_jobs (upd_nth j (jset x) (jobs s)) s.
Proof. reflexivity. Qed.

Lemma R_set_task_st_l : forall t x tk s s', nth_error (tasks s) t = Some tk -> gt tk = false ->
  R s s' -> R (set_task_st t x s) s'.
Proof.
  intros t x tk s s' N G H. rewrite !set_task_st_eq. rsplit H.
  - rewrite (futs_upd_task (tasks s) (jobs s) t x). assumption.
  - rewrite (filter_upd_nth_bad gt (tset x) _ _ _ N G G). assumption.
  - eapply Forall_impl; [|exact H14]. intros q Hq. apply (fut_ok_upd_task _ _ t x _ Hq).
  - apply (Forall_upd_nth _ _ (tset x)); [|assumption]. intros y Hy. exact Hy.
Qed.
Lemma R_set_task_st_b : forall t x s s', (forall tk, nth_error (tasks s) t = Some tk -> gt tk = true) ->
  R s s' -> R (set_task_st t x s) (set_task_st (rank gt (tasks s) t) x s').
Proof.
  intros t x s s' G H. rewrite !set_task_st_eq. rsplit H.
  - rewrite (futs_upd_task (tasks s) (jobs s) t x). assumption.
  - rewrite H4. destruct (nth_error (tasks s) t) as [tk|] eqn:N.
    + rewrite (filter_upd_nth_good gt (tset x) _ _ _ N (G _ eq_refl) (gt_tset x)). reflexivity.
    + rewrite (upd_nth_none _ _ _ _ N). rewrite (upd_nth_none _ _ _ _ (nth_error_filter_rank_none gt _ _ N)). reflexivity.
  - eapply Forall_impl; [|exact H14]. intros q Hq. apply (fut_ok_upd_task _ _ t x _ Hq).
  - apply (Forall_upd_nth _ _ (tset x)); [|assumption]. intros y Hy. exact Hy.
Qed.
Lemma R_set_job_st_l : forall j x jb s s', nth_error (jobs s) j = Some jb -> gj jb = false ->
  R s s' -> R (set_job_st j x s) s'.
Proof.
  intros j x jb s s' N G H. rewrite !set_job_st_eq. rsplit H.
  - rewrite (futs_upd_job (tasks s) (jobs s) j x). assumption.
  - rewrite (filter_upd_nth_bad gj (jset x) _ _ _ N G G). assumption.
  - eapply Forall_impl; [|exact H14]. intros q Hq. apply (fut_ok_upd_job _ _ j x _ Hq).
  - apply (Forall_upd_nth _ _ (jset x)); [|assumption]. intros y Hy. exact Hy.
Qed.
Lemma R_set_job_st_b : forall j x s s', (forall jb, nth_error (jobs s) j = Some jb -> gj jb = true) ->
  R s s' -> R (set_job_st j x s) (set_job_st (rank gj (jobs s) j) x s').
Proof.
  intros j x s s' G H. rewrite !set_job_st_eq. rsplit H.
  - rewrite (futs_upd_job (tasks s) (jobs s) j x). assumption.
  - rewrite H5. destruct (nth_error (jobs s) j) as [jb|] eqn:N.
    + rewrite (filter_upd_nth_good gj (jset x) _ _ _ N (G _ eq_refl) (gj_jset x)). reflexivity.
    + rewrite (upd_nth_none _ _ _ _ N). rewrite (upd_nth_none _ _ _ _ (nth_error_filter_rank_none gj _ _ N)). reflexivity.
  - eapply Forall_impl; [|exact H14]. intros q Hq. apply (fut_ok_upd_job _ _ j x _ Hq).
  - apply (Forall_upd_nth _ _ (jset x)); [|assumption]. intros y Hy. exact Hy.
Qed.

(* reading a task / job through the filter *)
Lemma R_nth_task : forall t tk s s', R s s' -> nth_error (tasks s) t = Some tk -> gt tk = true ->
  nth_error (tasks s') (rank gt (tasks s) t) = Some tk.
Proof. intros t tk s s' H N G. rewrite (r_tasks _ _ H). apply nth_error_filter_rank; assumption. Qed.
Lemma R_nth_task_none : forall t s s', R s s' -> nth_error (tasks s) t = None ->
  nth_error (tasks s') (rank gt (tasks s) t) = None.
Proof. intros t s s' H N. rewrite (r_tasks _ _ H). apply nth_error_filter_rank_none; assumption. Qed.
Lemma R_nth_job : forall j jb s s', R s s' -> nth_error (jobs s) j = Some jb -> gj jb = true ->
  nth_error (jobs s') (rank gj (jobs s) j) = Some jb.
Proof. intros j jb s s' H N G. rewrite (r_jobs _ _ H). apply nth_error_filter_rank; assumption. Qed.
Lemma R_nth_job_none : forall j s s', R s s' -> nth_error (jobs s) j = None ->
  nth_error (jobs s') (rank gj (jobs s) j) = None.
Proof. intros j s s' H N. rewrite (r_jobs _ _ H). apply nth_error_filter_rank_none; assumption. Qed.

Lemma R_rtype_pop_absent : forall i s s', Assoc.mem id_eqb i (rtypes s) = false -> R s s' -> R (rtype_pop i s) s'.
Proof. intros i s s' M H. rsplit H; rewrite (remove_absent _ i _ M); assumption. Qed.

Lemma R_set_wq_l : forall w r s s', wq s = w :: r -> gw w = false -> R s s' -> R (set_wq r s) s'.
Proof. intros w r s s' W G H. rsplit H. rewrite H6, W. cbn [filter]. rewrite G. reflexivity. Qed.
Lemma R_set_wq_b : forall w r s s', wq s = w :: r -> gw w = true -> R s s' ->
  wq s' = w :: filter gw r /\ R (set_wq r s) (set_wq (filter gw r) s').
Proof.
  intros w r s s' W G H. split.
  - rewrite (r_wq _ _ H), W. cbn [filter]. rewrite G. reflexivity.
  - rsplit H. reflexivity.
Qed.

Lemma nth_error_snoc_eq : forall (A : Type) (l : list A) x, nth_error (snoc l x) (length l) = Some x.
Proof. intros. unfold snoc. rewrite nth_error_app2 by lia. rewrite Nat.sub_diag. reflexivity. Qed.

Lemma get_in : forall (V : Type) i (l : list (id * V)) v, Assoc.get id_eqb i l = Some v -> In (i, v) l.
Proof.
  intros V i l v. induction l as [|[k v0] r IH]; cbn [Assoc.get]; [discriminate|].
  destruct (id_eqb i k) eqn:E.
  - intros H. inversion H. subst. apply id_eqb_spec in E. subst. left. reflexivity.
  - intros H. right. apply IH. exact H.
Qed.
End Sim.
