(* Second tie for the outbound path (C03, body / Content-Length clause): the PyMini translation of the SOURCE TEXT
   of JsonRPCProtocol._send_data (pygls/protocol/json_rpc.py, coq/Gen/AstSend.v) and of StdoutWriter.write
   (pygls/io_.py, coq/Gen/AstWriter.v) makes exactly the calls Model/Wire.v's send_data / stdout_writer_write say:
   nothing for falsy data or without a writer, a report and `False` when json.dumps raises, otherwise ONE
   writer.write call whose argument is the utf-8 encoding of header ++ body (header only with _include_headers,
   Content-Length = len(body)), a report instead when encoding raises; StdoutWriter.write = write, then flush.

   Recorded, not executed (they leave the translated code; a recorded call returns normally): self.writer.write,
   self._server._report_server_error, asyncio.ensure_future, self._stdout.write / flush.
   ORACLES: json.dumps(data, default=self._serialize_message) (hypothesis Hdumps: the text Model/Wire.v calls
   `dumps j`, or an exception), format(int) inside the f-string (Hfmt: decimal digits; the translator checks
   f"{n}" by reflection), inspect.isawaitable (Haw).  logger.* is a no-op. *)
From Coq Require Import ZArith NArith List String Bool Lia.
From Pygls Require Import Base.PyMini Base.PyMiniFacts.
From Pygls Require Gen.AstSend Gen.AstWriter Model.Wire.
Import ListNotations.
Open Scope string_scope.
Open Scope Z_scope.

Notation f_send_data := AstSend.f_send_data.

Fixpoint wcall (oracle : callT) (f : nat) (d : nat) : callT :=
  match d with
  | O => fun _ _ _ _ => Stuck "call depth"
  | S d' => fun q recv args kw =>
    match find_def q AstSend.prog with
    | Some fd => run_fun (wcall oracle f d') f fd recv args kw
    | None => oracle q recv args kw
    end
  end.

Ltac ssimp :=
  cbn [run_fun bind_params exec_block exec exec_atomic eval apply_global global_method obj_method
       is_procedure is_stateful log_effect construct ctor_check ctor_default exn_in exc_val exn_name
       fqual fkind_of fparams fbody class_of is_init
       get set mem_str path_eqb snoc as_int b2z py_compare py_binop is_none
       py_getattr global_const ctor_table builtin bind_names set_field
       String.eqb Ascii.eqb Bool.eqb map fst snd forallb rev app andb orb negb].

(* the protocol object *)
Definition s_content_type : list N :=
  [97; 112; 112; 108; 105; 99; 97; 116; 105; 111; 110; 47; 118; 115; 99; 111; 100; 101; 45; 106; 115; 111; 110; 114; 112; 99]%N.
Definition s_utf8' : list N := [117; 116; 102; 45; 56]%N.
Definition writer_val (w : Wire.wkind) : val :=
  match w with Wire.WNone => VNone | _ => VObj "$writer" [] end.
Definition proto_val (c : Wire.cfg) (rest : list (string * val)) (log : list val) : val :=
  VObj "JsonRPCProtocol"
    (("writer", writer_val (Wire.writer c)) :: ("_include_headers", VBool (Wire.include_headers c)) ::
     ("CONTENT_TYPE", VStr s_content_type) :: ("CHARSET", VStr s_utf8') :: ("$log", VList log) :: rest).

(* entries of the effect log *)
Definition bytes_val (b : list N) : val := VObj "bytes" [("data", VStr b)].
Definition e_write (b : list N) : val :=
  VTuple [VGlobal ["writer"; "write"]; VList [bytes_val b]; VList []; VBool false].
Definition e_report (k : exn) : val :=
  VTuple [VGlobal ["_server"; "_report_server_error"]; VList [exc_val k; VGlobal ["JsonRpcInternalError"]]; VList [];
          VBool false].
Definition e_ensure (tok : val) : val := VTuple [VGlobal ["asyncio.ensure_future"]; VList [tok]].
Definition tok_val (n : N) : val := VObj "Result" [("n", VInt (Z.of_N n))].

(* what json.dumps does with the data: the text, or an exception *)
Inductive dumped := DText (body : list N) | DRaise (k : exn).

Definition data_of (c : Wire.cfg) (body : list N) : list N :=
  if Wire.include_headers c then (Wire.header (len body) ++ body)%list else body.

(* the entries _send_data appends and what it returns *)
Definition expect (c : Wire.cfg) (t : bool) (dm : dumped) (aw : bool) (n0 : N) : list val * val :=
  if negb t then ([], VNone)
  else match Wire.writer c with
  | Wire.WNone => ([], VNone)
  | _ =>
    match dm with
    | DRaise k => ([e_report k], VBool false)
    | DText body =>
      match Wire.py_encode_utf8 (data_of c body) with
      | Some bytes => (e_write bytes :: (if aw then [e_ensure (tok_val n0)] else []), VNone)
      | None => ([e_report (ExcUser "UnicodeEncodeError")], VNone)
      end
    end
  end.

Section Send.
Variable oracle : callT.
Variable dv : val.             (* the argument `data` *)
Variable dm : dumped.
Variable aw : bool.
Hypothesis Hdumps :
  oracle ["json"; "dumps"] (Some (VGlobal ["json"])) [dv] [("default", VGlobal ["$bound._serialize_message"])] =
  match dm with DText body => Ok (VStr body) | DRaise k => Raise k end.
Hypothesis Hfmt : forall n : N, oracle ["format"] None [VInt (Z.of_N n)] [] = Ok (VStr (Json.digits n)).
Hypothesis Haw : forall tok, oracle ["inspect"; "isawaitable"] (Some (VGlobal ["inspect"])) [tok] [] = Ok (VBool aw).

Lemma header_eq (n : N) :
  ([67; 111; 110; 116; 101; 110; 116; 45; 76; 101; 110; 103; 116; 104; 58; 32]%N ++ Json.digits n ++
   [13; 10; 67; 111; 110; 116; 101; 110; 116; 45; 84; 121; 112; 101; 58; 32]%N ++ s_content_type ++
   [59; 32; 99; 104; 97; 114; 115; 101; 116; 61]%N ++ s_utf8' ++ [13; 10; 13; 10]%N ++ [])%list = Wire.header n.
Proof. reflexivity. Qed.

Lemma wcall_oracle f d q recv args kw : find_def q AstSend.prog = None ->
  wcall oracle f (S d) q recv args kw = oracle q recv args kw.
Proof. intros H. cbn [wcall]. rewrite H. reflexivity. Qed.

Lemma wcall_S f d q recv args kw fd : find_def q AstSend.prog = Some fd ->
  wcall oracle f (S d) q recv args kw = run_fun (wcall oracle f d) f fd recv args kw.
Proof. intros H. cbn [wcall]. rewrite H. reflexivity. Qed.

Ltac tsimp :=
  cbn [truthy run_fun bind_params exec_block exec exec_atomic eval apply_global global_method obj_method
       is_procedure is_stateful log_effect construct ctor_check ctor_default exn_in exc_val exn_name
       fqual fkind_of fparams fbody class_of is_init
       get set mem_str path_eqb snoc as_int b2z py_compare py_binop is_none
       py_getattr global_const ctor_table builtin bind_names set_field str_method str_eqb N.eqb Pos.eqb s_utf8' s_content_type
       String.eqb Ascii.eqb Bool.eqb map fst snd rev app andb orb negb].

Theorem send_data_ok f d c rest log :
  wcall oracle f (S (S d)) ["JsonRPCProtocol"; "_send_data"] (Some (proto_val c rest log)) [dv] [] =
  Ok (VTuple [snd (expect c (truthy dv) dm aw (len log));
              proto_val c rest (log ++ fst (expect c (truthy dv) dm aw (len log)))]).
Proof.
  rewrite (wcall_S f (S d) ["JsonRPCProtocol"; "_send_data"] _ _ _ f_send_data eq_refl).
  unfold f_send_data, AstSend.f_send_data, proto_val at 1, expect. ssimp.
  destruct (truthy dv) eqn:Ht; tsimp.
  2:{ unfold proto_val. rewrite app_nil_r. reflexivity. }
  destruct c as [w h]. cbn [Wire.writer Wire.include_headers].
  destruct w eqn:Hw; cbn [writer_val]; tsimp.
  1:{ unfold proto_val. rewrite app_nil_r. reflexivity. }
  all: rewrite (wcall_oracle f d ["json"; "dumps"] _ _ _ eq_refl), Hdumps.
  all: destruct dm as [body|k]; tsimp.
  all: try (destruct k; tsimp; reflexivity).
  all: destruct h; tsimp.
  all: try (rewrite (wcall_oracle f d ["format"] _ _ _ eq_refl), Hfmt; tsimp).
  all: unfold Wire.py_encode_utf8, data_of, Wire.header, Wire.CRLF, Wire.WLit.content_length,
         Wire.WLit.content_type_key, Wire.WLit.CONTENT_TYPE, Wire.WLit.charset_key, Wire.WLit.CHARSET;
       cbn [Wire.include_headers app].
  all: match goal with |- context[forallb ?p ?l] => destruct (forallb p l) eqn:Hs end; tsimp.
  all: try (rewrite (wcall_oracle f d ["inspect"; "isawaitable"] _ _ _ eq_refl), Haw; tsimp; destruct aw; tsimp).
  all: unfold proto_val, e_write, e_ensure, e_report, bytes_val, tok_val; rewrite <- ?app_assoc; try reflexivity.
Qed.
End Send.

(* ------------------------------------------------------------------------------------------ *)
(* link to Model/Wire.v                                                                        *)
Definition t_of (d : Wire.pydata) : bool := match d with Wire.Tree t _ => t | Wire.Unser t => t end.
Definition dumped_of (k : exn) (d : Wire.pydata) : dumped :=
  match d with Wire.Tree _ j => DText (Json.dumps j) | Wire.Unser _ => DRaise k end.
Definition ret_val (r : Wire.ret) : val := match r with Wire.RetNone => VNone | Wire.RetFalse => VBool false end.

(* the writer.write calls among recorded entries *)
Definition entry_write (e : val) : list Wire.call :=
  match e with
  | VTuple (h :: VList [VObj _ [(_, VStr b)]] :: _) =>
    if py_eq h (VGlobal ["writer"; "write"]) then [Wire.Write b] else []
  | _ => []
  end.
Definition writes_of (es : list val) : list Wire.call := flat_map entry_write es.

Lemma expect_model c d k aw n0 :
  writes_of (fst (expect c (t_of d) (dumped_of k d) aw n0)) = fst (Wire.send_data c d) /\
  snd (expect c (t_of d) (dumped_of k d) aw n0) = ret_val (snd (Wire.send_data c d)).
Proof.
  destruct c as [w h]. unfold expect, Wire.send_data, data_of. cbn [Wire.writer Wire.include_headers].
  destruct d as [t j|t]; cbn [t_of dumped_of]; destruct t; cbn [negb]; try (split; reflexivity);
    destruct w; try (split; reflexivity).
  all: match goal with |- context[Wire.py_encode_utf8 ?x] => destruct (Wire.py_encode_utf8 x) end;
       destruct aw; split; reflexivity.
Qed.

(* JsonRPCProtocol._send_data(data): for every configuration, every data value (its truth value and what
   json.dumps makes of it given by Model/Wire.v's pydata d), every log so far: the writer.write calls appended
   and the value returned are Wire.send_data's; nothing already recorded is touched *)
Theorem ast_send_data_equiv oracle dv d k aw f n c rest log :
  truthy dv = t_of d ->
  oracle ["json"; "dumps"] (Some (VGlobal ["json"])) [dv] [("default", VGlobal ["$bound._serialize_message"])] =
    match dumped_of k d with DText body => Ok (VStr body) | DRaise k => Raise k end ->
  (forall n : N, oracle ["format"] None [VInt (Z.of_N n)] [] = Ok (VStr (Json.digits n))) ->
  (forall tok, oracle ["inspect"; "isawaitable"] (Some (VGlobal ["inspect"])) [tok] [] = Ok (VBool aw)) ->
  exists ret new,
    wcall oracle f (S (S n)) ["JsonRPCProtocol"; "_send_data"] (Some (proto_val c rest log)) [dv] [] =
      Ok (VTuple [ret; proto_val c rest (log ++ new)]) /\
    writes_of new = fst (Wire.send_data c d) /\ ret = ret_val (snd (Wire.send_data c d)).
Proof.
  intros Ht Hd Hf Ha.
  exists (snd (expect c (t_of d) (dumped_of k d) aw (len log))), (fst (expect c (t_of d) (dumped_of k d) aw (len log))).
  split; [|apply expect_model].
  rewrite <- Ht. apply send_data_ok; [exact Hd | exact Hf | exact Ha].
Qed.

(* StdoutWriter.write(data): write, then flush, on the underlying stream *)
Definition e_stdout_write (b : list N) : val :=
  VTuple [VGlobal ["_stdout"; "write"]; VList [bytes_val b]; VList []; VBool false].
Definition e_stdout_flush : val := VTuple [VGlobal ["_stdout"; "flush"]; VList []; VList []; VBool false].
Definition entry_top (e : val) : list Wire.top :=
  match e with
  | VTuple (h :: VList args :: _) =>
    if py_eq h (VGlobal ["_stdout"; "flush"]) then [Wire.TFlush]
    else match args with
         | [VObj _ [(_, VStr b)]] => if py_eq h (VGlobal ["_stdout"; "write"]) then [Wire.TWrite b] else []
         | _ => []
         end
  | _ => []
  end.

Theorem ast_stdout_writer_write_equiv f d b rest log :
  PyMini.run AstWriter.prog f (S d) ["StdoutWriter"; "write"]
             (Some (VObj "StdoutWriter" (("$log", VList log) :: rest))) [bytes_val b] =
    Ok (VObj "StdoutWriter" (("$log", VList (log ++ [e_stdout_write b; e_stdout_flush])) :: rest)) /\
  flat_map entry_top [e_stdout_write b; e_stdout_flush] = Wire.stdout_writer_write b.
Proof.
  split; [|reflexivity].
  unfold PyMini.run. cbn [mk_call find_def AstWriter.prog]. unfold AstWriter.f_write. ssimp.
  rewrite <- app_assoc. reflexivity.
Qed.

(* non-vacuity: the body "{}" with headers through a stdout writer: one write of
   "Content-Length: 2\r\nContent-Type: application/vscode-jsonrpc; charset=utf-8\r\n\r\n{}"; a lone surrogate in the
   body: a report, no write; data that json.dumps refuses: a report and False *)
Definition demo_oracle (dm : dumped) : callT := fun q _ args _ =>
  match q, args with
  | ["json"; "dumps"], _ => match dm with DText b => Ok (VStr b) | DRaise k => Raise k end
  | ["format"], [VInt n] => Ok (VStr (Json.digits (Z.to_N n)))
  | ["inspect"; "isawaitable"], _ => Ok (VBool false)
  | _, _ => Stuck "no"
  end.

Example ast_send_data_example :
  let c := {| Wire.writer := Wire.WStdout; Wire.include_headers := true |} in
  let dv := VObj "Message" [] in
  wcall (demo_oracle (DText [123; 125]%N)) 0 2 ["JsonRPCProtocol"; "_send_data"] (Some (proto_val c [] [])) [dv] [] =
    Ok (VTuple [VNone; proto_val c [] [e_write (Wire.header 2 ++ [123; 125]%N)]]) /\
  fst (Wire.send_data c (Wire.Tree true (Json.JObj []))) = [Wire.Write (Wire.header 2 ++ [123; 125]%N)] /\
  wcall (demo_oracle (DText [34; 55296; 34]%N)) 0 2 ["JsonRPCProtocol"; "_send_data"] (Some (proto_val c [] [])) [dv] [] =
    Ok (VTuple [VNone; proto_val c [] [e_report (ExcUser "UnicodeEncodeError")]]) /\
  wcall (demo_oracle (DRaise TypeError)) 0 2 ["JsonRPCProtocol"; "_send_data"] (Some (proto_val c [] [])) [dv] [] =
    Ok (VTuple [VBool false; proto_val c [] [e_report TypeError]]).
Proof. cbv zeta. repeat split; vm_compute; reflexivity. Qed.

