(* Truncation at every byte offset (C15, framing half): the loop on the first `cut` bytes of a
   stream of well-formed frames, followed by an orderly close or a reset. *)
From Coq Require Import ZArith NArith List Bool Lia ZifyBool ZifyN ZifyNat.
From Pygls Require Import Base.Bytes Model.Framing Spec.FramingSpec
  Proofs.FramingProofs Proofs.FramingProofsFrames.
Ltac Zify.zify_post_hook ::= Z.to_euclidean_division_equations.
Open Scope N_scope.

(* ---------- take on appended lists ---------- *)

Lemma take_app_ge : forall (a r : list N) c, len a <= c -> take c (a ++ r) = a ++ take (c - len a) r.
Proof.
  induction a as [|x a IH]; intros r c H.
  - cbn [app]. change (len (@nil N)) with 0. replace (c - 0) with c by lia. reflexivity.
  - rewrite blen_cons in *. cbn [app take]. replace (c =? 0) with false by lia.
    rewrite IH by lia. replace (c - 1 - len a) with (c - (1 + len a)) by lia. reflexivity.
Qed.

Lemma len_take_le : forall (s : list N) c, len (take c s) <= len s.
Proof.
  induction s as [|x s IH]; intros c; [cbn [take]; lia|].
  cbn [take]. destruct (c =? 0); [rewrite blen_cons; change (len (@nil N)) with 0; lia|].
  rewrite !blen_cons. specialize (IH (c - 1)). lia.
Qed.

Lemma len_take : forall (s : list N) c, c <= len s -> len (take c s) = c.
Proof.
  induction s as [|x s IH]; intros c H.
  - change (len (@nil N)) with 0 in H. cbn [take]. change (len (@nil N)) with 0. lia.
  - cbn [take]. destruct (c =? 0) eqn:E; [change (len (@nil N)) with 0; lia|].
    rewrite blen_cons in *. rewrite IH by lia. lia.
Qed.

Lemma no_lf_take : forall (s : list N) c, no_lf s = true -> no_lf (take c s) = true.
Proof.
  induction s as [|x s IH]; intros c H; [reflexivity|].
  cbn [no_lf forallb] in H. apply andb_prop in H. destruct H as [H1 H2].
  cbn [take]. destruct (c =? 0); [reflexivity|].
  cbn [no_lf forallb]. rewrite H1. apply IH, H2.
Qed.

Lemma take_nonempty : forall (s : list N) c, s <> [] -> c <> 0 -> take c s <> [].
Proof. intros [|x s] c Hs Hc; [congruence|]. cbn [take]. replace (c =? 0) with false by lia. discriminate. Qed.

(* ---------- the header recogniser needs a complete line ---------- *)

Lemma span_tail_no_lf : forall p s a b, no_lf s = true -> span p s = (a, b) -> no_lf b = true.
Proof.
  induction s as [|x s IH]; intros a b H E.
  - inversion E. reflexivity.
  - cbn [span] in E. destruct (p x).
    + destruct (span p s) as [a' b'] eqn:E'. inversion E; subst.
      cbn [no_lf forallb] in H. apply andb_prop in H. eapply IH; [apply H|reflexivity].
    + inversion E; subst. exact H.
Qed.

Lemma strip_prefix_no_lf : forall p s r, no_lf s = true -> strip_prefix p s = Some r -> no_lf r = true.
Proof.
  induction p as [|a p IH]; intros s r H E.
  - inversion E; subst. exact H.
  - destruct s as [|c s]; [discriminate|]. cbn [strip_prefix] in E. destruct (a =? c); [|discriminate].
    cbn [no_lf forallb] in H. apply andb_prop in H. eapply IH; [apply H|exact E].
Qed.

Lemma eqb_bytes_crlf_lf tail : eqb_bytes tail [13; 10] = true -> no_lf tail = false.
Proof.
  destruct tail as [|a [|b [|c t]]]; cbn [eqb_bytes]; try discriminate.
  - rewrite andb_false_r. discriminate.
  - rewrite andb_true_r. intros H. apply andb_prop in H. destruct H as [_ H].
    apply N.eqb_eq in H. subst. cbn. rewrite andb_false_r. reflexivity.
  - rewrite !andb_false_r. discriminate.
Qed.

(* a line without its LF never matches the Content-Length pattern *)
Lemma parse_cl_no_lf l : no_lf l = true -> parse_cl l = CLNoMatch.
Proof.
  intros H. unfold parse_cl. destruct (strip_prefix CL_PREFIX l) as [r|] eqn:E; [|reflexivity].
  pose proof (strip_prefix_no_lf _ _ _ H E) as Hr.
  destruct (span is_digit r) as [ds tail] eqn:S.
  pose proof (span_tail_no_lf _ _ _ _ Hr S) as Ht.
  destruct (eqb_bytes tail [13; 10]) eqn:Q; [|rewrite andb_false_r; reflexivity].
  apply eqb_bytes_crlf_lf in Q. congruence.
Qed.

Lemma split_line_no_lf : forall l, no_lf l = true -> split_line l = None.
Proof.
  induction l as [|c l IH]; intros H; [reflexivity|].
  cbn [no_lf forallb] in H. apply andb_prop in H. destruct H as [H1 H2].
  cbn [split_line]. destruct (c =? 10); [discriminate|]. rewrite (IH H2). reflexivity.
Qed.

(* ---------- whole_from, one step at a time ---------- *)

Lemma whole_cont k e st st' evs :
  (forall eof, step k eof st = OCont st' evs) ->
  whole_from k e st = (let (es, r) := whole_from k e st' in (evs ++ es, r)).
Proof.
  intros H. unfold whole_from. destruct e.
  - rewrite (run_cont _ _ _ _ _ (H true)). reflexivity.
  - rewrite (run_cont _ _ _ _ _ (H false)).
    destruct (run k false st') as [es r]. destruct (finish k AtReset r) as [es' r'].
    rewrite app_assoc. reflexivity.
Qed.

Lemma finish_reset k st : finish k AtReset (Blocked st) = ([], Done (cut_term k AtReset)).
Proof. destruct k; reflexivity. Qed.

Lemma cut_term_eof k : cut_term k AtEOF = EndedNormally.
Proof. destruct k; reflexivity. Qed.

Lemma readline_no_lf k eof l :
  no_lf l = true -> line_fits k l -> readline k eof l = if eof then RLine l [] else RLBlocked.
Proof.
  intros Hl Hf. unfold readline. rewrite (split_line_no_lf l Hl).
  destruct k; try reflexivity. cbn [line_fits] in Hf. replace (limit <? len l) with false by lia. reflexivity.
Qed.

Lemma line_fits_nil k : line_fits k [].
Proof. destruct k; cbn [line_fits]; auto. change (len (@nil N)) with 0. lia. Qed.

(* the input ends inside a header line (or exactly between two lines): nothing is delivered *)
Lemma partial_line k e cl l :
  no_lf l = true -> line_fits k l ->
  whole_from k e (PHeader cl, l) = ([], Done (cut_term k e)).
Proof.
  intros Hl Hf. unfold whole_from. destruct e.
  - rewrite cut_term_eof. rewrite run_unfold. unfold step. rewrite (readline_no_lf k true l Hl Hf).
    destruct (is_nil l) eqn:Hnil; [reflexivity|].
    rewrite (parse_cl_no_lf l Hl).
    replace (if cl =? 0 then CLNoMatch else CLNoMatch) with CLNoMatch by (destruct (cl =? 0); reflexivity).
    destruct (negb (cl =? 0) && is_blank l) eqn:B.
    + rewrite run_unfold. unfold step, readexactly. change (len (@nil N)) with 0.
      apply andb_prop in B. destruct B as [B _]. replace (cl <=? 0) with false by lia.
      destruct k; reflexivity.
    + rewrite run_unfold. unfold step. rewrite (readline_no_lf k true [] eq_refl (line_fits_nil k)).
      reflexivity.
  - rewrite run_unfold. unfold step. rewrite (readline_no_lf k false l Hl Hf).
    rewrite finish_reset. reflexivity.
Qed.

(* the input ends inside a body: a blocking reader at EOF hands over the bytes that arrived *)
Lemma partial_body k e n b :
  len b < n ->
  whole_from k e (PBody n, b) =
  ((if short_delivery k e && negb (is_nil b) then [Body b] else []), Done (cut_term k e)).
Proof.
  intros H. unfold whole_from. destruct e.
  - rewrite cut_term_eof. rewrite run_unfold. unfold step, readexactly. replace (n <=? len b) with false by lia.
    destruct k; [reflexivity|..]; cbn [short_delivery andb];
      (destruct (is_nil b) eqn:Hnil; [reflexivity|]); cbn [negb];
      rewrite run_unfold; unfold step, readline; cbn [split_line is_nil]; reflexivity.
  - rewrite run_unfold. unfold step, readexactly. replace (n <=? len b) with false by lia.
    rewrite finish_reset. destruct k; reflexivity.
Qed.

(* ---------- a cut strictly inside one frame ---------- *)

Lemma line_fits_take k l c : line_fits k l -> line_fits k (take c l).
Proof. destruct k; cbn [line_fits]; auto. pose proof (len_take_le l c). lia. Qed.

(* cut inside (or right at the start of) the line l ++ [10] *)
Lemma cut_in_line k e cl l rest c :
  c <= len l -> no_lf l = true -> line_fits k l ->
  whole_from k e (PHeader cl, take c (l ++ 10 :: rest)) = ([], Done (cut_term k e)).
Proof.
  intros Hc Hl Hf. rewrite take_app_le by exact Hc.
  apply partial_line; [apply no_lf_take, Hl|apply line_fits_take, Hf].
Qed.

Lemma no_lf_cl ds : all_digits ds = true -> no_lf (CLEN_PREFIX ++ ds ++ [13]) = true.
Proof. intros H. rewrite !no_lf_app, (digits_no_lf ds H). reflexivity. Qed.
Lemma no_lf_ct v : no_lf v = true -> no_lf (CT_PREFIX ++ v ++ [13]) = true.
Proof. intros H. rewrite !no_lf_app, H. reflexivity. Qed.

Definition short_ev (sh : bool) (b : list N) : list ev := if sh && negb (is_nil b) then [Body b] else [].

(* after the header block: the body, possibly short *)
Lemma cut_after_header k e b c :
  b <> [] -> c < len b ->
  whole_from k e (PBody (len b), take c b) = (short_ev (short_delivery k e) (take c b), Done (cut_term k e)).
Proof. intros Hb Hc. apply partial_body. rewrite len_take by lia. exact Hc. Qed.

Lemma len_cl_line ds : len (cl_line ds) = len (CLEN_PREFIX ++ ds ++ [13]) + 1.
Proof. rewrite <- cl_line_shape', blen_app. reflexivity. Qed.
Lemma len_ct_line v : len (ct_line v) = len (CT_PREFIX ++ v ++ [13]) + 1.
Proof. rewrite <- ct_line_shape', blen_app. reflexivity. Qed.

Lemma whole_nil_evs (o : list ev * result) : (let (es, r) := o in ([] ++ es, r)) = o.
Proof. destruct o; reflexivity. Qed.

(* Uniform treatment of a header line: either the cut falls inside it, or it is consumed. *)
Lemma header_line_cases k e cl cl' l rest c (X : list ev * result) :
  no_lf l = true -> line_fits k l ->
  (forall eof r, step k eof (PHeader cl, l ++ 10 :: r) = OCont (PHeader cl', r) []) ->
  (c <= len l -> X = ([], Done (cut_term k e))) ->
  (len l + 1 <= c -> whole_from k e (PHeader cl', take (c - (len l + 1)) rest) = X) ->
  whole_from k e (PHeader cl, take c (l ++ 10 :: rest)) = X.
Proof.
  intros Hl Hf Hs H1 H2. destruct (N.le_gt_cases c (len l)) as [L|G].
  - rewrite (H1 L). apply cut_in_line; assumption.
  - replace (l ++ 10 :: rest) with ((l ++ [10]) ++ rest) by (rewrite <- app_assoc; reflexivity).
    rewrite take_app_ge by (rewrite blen_app; change (len [10]) with 1; lia).
    rewrite (whole_cont k e _ (PHeader cl', take (c - len (l ++ [10])) rest) []);
      [|intros eof; rewrite <- app_assoc; apply Hs].
    rewrite whole_nil_evs.
    rewrite blen_app. change (len [10]) with 1. apply H2. lia.
Qed.

Lemma blank_line_cases k e cl rest c (X : list ev * result) :
  cl <> 0 -> line_fits k [13] ->
  (c <= 1 -> X = ([], Done (cut_term k e))) ->
  (2 <= c -> whole_from k e (PBody cl, take (c - 2) rest) = X) ->
  whole_from k e (PHeader cl, take c (CRLF ++ rest)) = X.
Proof.
  intros Hcl Hf H1 H2. destruct (N.le_gt_cases c 1) as [L|G].
  - rewrite (H1 L). change (CRLF ++ rest) with ([13] ++ 10 :: rest).
    apply cut_in_line; [exact L|reflexivity|exact Hf].
  - change (CRLF ++ rest) with (CRLF ++ rest). rewrite take_app_ge by (change (len CRLF) with 2; lia).
    rewrite (whole_cont k e _ (PBody cl, take (c - len CRLF) rest) []).
    + rewrite whole_nil_evs. change (len CRLF) with 2. apply H2. lia.
    + intros eof. apply step_blank_line; assumption.
Qed.

Theorem cut_inside_frame k e lay ds b c :
  frame_ok k lay ds b = true -> c < len (frame_ds lay ds b) ->
  whole_from k e (PHeader 0, take c (frame_ds lay ds b)) =
  ((let h := len (header_block lay ds) in
    if short_delivery k e && (h <? c) then [Body (take (c - h) b)] else []),
   Done (cut_term k e)).
Proof.
  intros H' Hc. destruct (frame_ok_inv _ _ _ _ H') as (H & H1 & H2 & H3 & H4 & H5 & H0).
  destruct (fits_parts _ _ _ H0) as (F1 & F2 & F3).
  assert (Hn : int_of_digits ds <> 0) by (rewrite H4; intros Z; apply H, blen_zero, Z).
  pose proof (no_lf_cl ds H3) as NL.
  (* what remains once the header lines are consumed: the blank line and the body *)
  assert (TAIL : forall c' hl, c' < 2 + len b -> len (header_block lay ds) = hl + 2 -> c = hl + c' ->
            whole_from k e (PHeader (int_of_digits ds), take c' (CRLF ++ b)) =
            ((if short_delivery k e && (len (header_block lay ds) <? c) then [Body (take (c - len (header_block lay ds)) b)] else []),
             Done (cut_term k e))).
  { intros c' hl Hc' Hh Hcc. apply blank_line_cases; [exact Hn|exact F1|..].
    - intros L. replace (len (header_block lay ds) <? c) with false by lia. rewrite andb_false_r. reflexivity.
    - intros G. rewrite H4. rewrite cut_after_header by (try exact H; lia).
      unfold short_ev. replace (c - len (header_block lay ds)) with (c' - 2) by lia.
      destruct (N.eq_dec c' 2) as [-> |NE].
      + replace (len (header_block lay ds) <? c) with false by lia. rewrite andb_false_r.
        replace (2 - 2) with 0 by lia. destruct b; [congruence|]. cbn [take]. rewrite N.eqb_refl.
        cbn [is_nil negb]. rewrite andb_false_r. reflexivity.
      + replace (len (header_block lay ds) <? c) with true by lia.
        assert (NE' : take (c' - 2) b <> []) by (apply take_nonempty; [exact H|lia]).
        apply is_nil_false in NE'. rewrite NE'. reflexivity. }
  cbv zeta. unfold frame_ds in *. unfold header_block in *.
  destruct lay as [|v|v]; cbn [layout_value] in H1; rewrite <- ?app_assoc in *; rewrite ?blen_app in *;
    try (pose proof (no_lf_ct v H1) as NV).
  - (* CL *)
    rewrite cl_line_shape. rewrite len_cl_line in *. change (len CRLF) with 2 in *.
    apply (header_line_cases k e 0 (int_of_digits ds)); try assumption.
    + intros eof r. rewrite <- cl_line_shape. apply step_cl_line; assumption.
    + intros L. replace (_ <? c) with false by lia. rewrite andb_false_r. reflexivity.
    + intros G. eapply TAIL; [lia|reflexivity|lia].
  - (* CL, CT *)
    rewrite cl_line_shape. rewrite len_cl_line, len_ct_line in *. change (len CRLF) with 2 in *.
    apply (header_line_cases k e 0 (int_of_digits ds)); try assumption.
    + intros eof r. rewrite <- cl_line_shape. apply step_cl_line; assumption.
    + intros L. replace (_ <? c) with false by lia. rewrite andb_false_r. reflexivity.
    + intros G. rewrite ct_line_shape.
      apply (header_line_cases k e (int_of_digits ds) (int_of_digits ds)); try assumption.
      * intros eof r. rewrite <- ct_line_shape. apply step_ct_line; assumption.
      * intros L. replace (_ <? c) with false by lia. rewrite andb_false_r. reflexivity.
      * intros G'. eapply TAIL; [lia|rewrite N.add_assoc; reflexivity|lia].
  - (* CT, CL *)
    rewrite ct_line_shape. rewrite len_cl_line, len_ct_line in *. change (len CRLF) with 2 in *.
    apply (header_line_cases k e 0 0); try assumption.
    + intros eof r. rewrite <- ct_line_shape. apply step_ct_line; assumption.
    + intros L. replace (_ <? c) with false by lia. rewrite andb_false_r. reflexivity.
    + intros G. rewrite cl_line_shape.
      apply (header_line_cases k e 0 (int_of_digits ds)); try assumption.
      * intros eof r. rewrite <- cl_line_shape. apply step_cl_line; assumption.
      * intros L. replace (_ <? c) with false by lia. rewrite andb_false_r. reflexivity.
      * intros G'. eapply TAIL; [lia|rewrite N.add_assoc; reflexivity|lia].
Qed.

(* ---------- every cut of a stream of frames ---------- *)

Lemma whole_frame k e m rest :
  msg_ok k m = true ->
  whole_from k e (PHeader 0, frame m ++ rest) =
  (let (es, r) := whole_from k e (PHeader 0, rest) in (Body (snd m) :: es, r)).
Proof.
  intros H. unfold whole_from, frame. destruct e.
  - apply run_frame, H.
  - rewrite (run_frame k false _ _ _ rest H).
    destruct (run k false (PHeader 0, rest)) as [es r]. destruct (finish k AtReset r). reflexivity.
Qed.

Lemma whole_empty k e : whole_from k e (PHeader 0, []) = ([], Done (cut_term k e)).
Proof. apply (partial_line k e 0 []); [reflexivity|apply line_fits_nil]. Qed.

Lemma len_frame m : len (frame m) = len (header_block (fst m) (dec (len (snd m)))) + len (snd m).
Proof. unfold frame, frame_ds. apply blen_app. Qed.

(* prefix_dispatch_complete_frames + no_partial_dispatch + terminates_normally, in one statement:
   for every stream of well-formed frames, every cut offset, every reader and either ending, the
   loop hands over exactly the frames complete within the prefix (plus, for a blocking reader at
   EOF, the truncated body it was given) and ends as `cut_term` says *)
Theorem loop_on_prefix k e : forall ms cut,
  msgs_ok k ms = true -> cut <= len (frames ms) ->
  loop_whole k e (take cut (frames ms)) = (cut_bodies (short_delivery k e) ms cut, Done (cut_term k e)).
Proof.
  unfold loop_whole.
  induction ms as [|m ms IH]; intros cut H Hc.
  - cbn [frames map concat take cut_bodies]. apply whole_empty.
  - unfold msgs_ok in H. cbn [forallb] in H. apply andb_prop in H. destruct H as [Hm Hms].
    rewrite frames_cons in *. rewrite blen_app in Hc. cbn [cut_bodies].
    destruct (len (frame m) <=? cut) eqn:E.
    + rewrite take_app_ge by lia. rewrite (whole_frame k e m _ Hm).
      rewrite (IH (cut - len (frame m)) Hms) by lia. reflexivity.
    + rewrite take_app_le by lia.
      unfold frame at 1. rewrite (cut_inside_frame k e _ _ _ cut Hm) by (fold (frame m); lia).
      cbv zeta. rewrite len_frame.
      replace (len (header_block (fst m) (dec (len (snd m)))) + len (snd m) - len (snd m))
        with (len (header_block (fst m) (dec (len (snd m))))) by lia.
      reflexivity.
Qed.

(* the three obligations of DESIGN Appendix B as corollaries *)
Definition prefix_dispatch_complete_frames := loop_on_prefix.

Corollary terminates_normally k ms cut :
  msgs_ok k ms = true -> cut <= len (frames ms) ->
  forall e, snd (loop_whole k e (take cut (frames ms))) = Done EndedNormally.
Proof. intros H Hc e. rewrite (loop_on_prefix k e ms cut H Hc). reflexivity. Qed.

(* events of a prefix: a prefix of all the bodies, then at most one truncated body *)
Lemma cut_bodies_shape sh : forall ms cut,
  exists n tail, cut_bodies sh ms cut = firstn n (bodies_of ms) ++ tail /\
                 (tail = [] \/ sh = true /\ exists m c, In m ms /\ c < len (snd m) /\ c <> 0 /\ tail = [Body (take c (snd m))]).
Proof.
  induction ms as [|m ms IH]; intros cut.
  - exists 0%nat, []. split; [reflexivity|left; reflexivity].
  - cbn [cut_bodies]. destruct (len (frame m) <=? cut) eqn:E.
    + destruct (IH (cut - len (frame m))) as (n & tail & Hn & Ht).
      exists (S n), tail. split; [cbn [bodies_of map firstn app]; rewrite Hn; reflexivity|].
      destruct Ht as [->|(Hs & m' & c & Hin & Hc & Hc0 & ->)]; [left; reflexivity|].
      right. split; [exact Hs|]. exists m', c. repeat split; try assumption. right. exact Hin.
    + exists 0%nat. cbn [firstn app]. eexists. split; [reflexivity|].
      destruct (sh && (len (frame m) - len (snd m) <? cut)) eqn:B; [|left; reflexivity].
      right. apply andb_prop in B. destruct B as [-> B]. split; [reflexivity|].
      exists m, (cut - (len (frame m) - len (snd m))). rewrite len_frame in *.
      repeat split; [left; reflexivity|lia|lia].
Qed.

Corollary no_partial_dispatch k ms cut :
  msgs_ok k ms = true -> cut <= len (frames ms) ->
  forall e, short_delivery k e = false ->
  exists n, fst (loop_whole k e (take cut (frames ms))) = firstn n (bodies_of ms).
Proof.
  intros H Hc e Hs. rewrite (loop_on_prefix k e ms cut H Hc). cbn [fst]. rewrite Hs.
  destruct (cut_bodies_shape false ms cut) as (n & tail & Hn & [->|(F & _)]); [|discriminate].
  exists n. rewrite Hn, app_nil_r. reflexivity.
Qed.
