(* Proofs about Model/Progress.v: the clauses of C20.  None of them needs a hypothesis on the
   history: they hold for every event list. *)
From Coq Require Import ZArith NArith List Bool Lia Arith.
From Pygls Require Import Base.AssocOut Model.Outgoing Spec.OutgoingSpec Proofs.OutgoingProofs
                          Model.Progress Spec.ProgressSpec.
Import ListNotations.

Notation nget := (aget Nat.eqb).
Notation iget := (aget id_eqb).

(* ------------------------------------------------------------------ cancel: exactly one future *)
Lemma set_nth_other h : forall (l : list bool) j, j <> h -> nth j (set_nth h l) false = nth j l false.
Proof.
  induction h as [|h IH]; intros [|b r] j N; cbn [set_nth nth]; try reflexivity.
  - destruct j; [congruence|reflexivity].
  - destruct j; [reflexivity|]. apply IH. congruence.
Qed.

Lemma set_nth_same h : forall (l : list bool), h < length l -> nth h (set_nth h l) false = true.
Proof.
  induction h as [|h IH]; intros [|b r] H; cbn [set_nth nth length] in *; try lia;
    first [reflexivity | apply IH; lia].
Qed.

Lemma set_nth_length h : forall (l : list bool), length (set_nth h l) = length l.
Proof. induction h as [|h IH]; intros [|b r]; cbn [set_nth length]; auto. Qed.

(* cancel_token_frame: a client cancel for a registered token is `cancel()` on that token's
   future and nothing else: every other cancellation future ever created keeps its state, and
   no other component of the state changes *)
Theorem cancel_token_frame s tok h :
  iget tok (tokens s) = Some h ->
  let s' := pstep s (ClientCancel tok) in
  (forall j, j <> h -> nth j (tfuts s') false = nth j (tfuts s) false) /\
  (h < length (tfuts s) -> nth h (tfuts s') false = true) /\
  tokens s' = tokens s /\ ofuts s' = ofuts s /\ out s' = out s /\ futs s' = futs s /\
  rtypes s' = rtypes s /\ errs s' = errs s /\ refused s' = refused s /\ next s' = next s.
Proof.
  intros G. cbn [pstep]. rewrite G. cbn [set_tokens tfuts tokens ofuts out futs rtypes errs refused next].
  repeat split.
  - intros j N. apply set_nth_other, N.
  - apply set_nth_same.
Qed.

(* unknown_token_noop *)
Theorem unknown_token_noop s tok : iget tok (tokens s) = None -> pstep s (ClientCancel tok) = s.
Proof. intros G. cbn [pstep]. rewrite G. reflexivity. Qed.

(* tokens are compared with their JSON type: cancelling 1 does not touch "1" *)
Lemma token_types_differ z str : id_eqb (IInt z) (IStr str) = false.
Proof. reflexivity. Qed.

(* ------------------------------------------------------------------ create on a registered token *)
Theorem create_registered_refused s tok :
  registered s tok = true ->
  (forall ucb, pstep s (PCreate tok ucb) = refuse s) /\ pstep s (PCreateAsync tok) = refuse s /\
  out (refuse s) = out s /\ ofuts (refuse s) = ofuts s /\ tokens (refuse s) = tokens s /\
  futs (refuse s) = futs s /\ refused (refuse s) = (refused s + 1)%N.
Proof. intros R. cbn [pstep]. rewrite R. repeat split. Qed.

Theorem create_unregistered_sends s tok :
  registered s tok = false ->
  (forall ucb, out (pstep s (PCreate tok ucb)) = out s ++ [WReq (IUuid (next s)) CREATE_M (Some tok)] /\
               refused (pstep s (PCreate tok ucb)) = refused s /\
               tokens (pstep s (PCreate tok ucb)) = tokens s) /\
  out (pstep s (PCreateAsync tok)) = out s ++ [WReq (IUuid (next s)) CREATE_M (Some tok)] /\
  refused (pstep s (PCreateAsync tok)) = refused s /\ tokens (pstep s (PCreateAsync tok)) = tokens s.
Proof. intros R. cbn [pstep]. rewrite R. repeat split. Qed.

(* ------------------------------------------------------------------ exactly one $/progress each *)
Lemma progress_frames_app a b : progress_frames (a ++ b) = progress_frames a ++ progress_frames b.
Proof.
  induction a as [|w r IH]; [reflexivity|]. destruct w; cbn [app progress_frames]; rewrite IH; reflexivity.
Qed.

Lemma step_out s e : progress_frames (out (step s e)) = progress_frames (out s).
Proof.
  destruct e as [m rt cb mid|j p oks|j c m d|k0|j|j|j res|j]; cbn [step_with cancel_with xnone].
  - destruct mid; cbn; rewrite progress_frames_app; cbn; rewrite app_nil_r; reflexivity.
  - destruct (iget j (rtypes s)) as [rt|]; [|reflexivity]. destruct (mem_n rt oks); [|reflexivity].
    destruct (handle_response_tables (set_rtypes s (adel id_eqb j (rtypes s))) j (ORes rt p))
      as (_ & _ & A & _). rewrite A. reflexivity.
  - destruct (int32 c); [|reflexivity].
    destruct (handle_response_tables (set_rtypes s (adel id_eqb j (rtypes s))) j (OErr c m d))
      as (_ & _ & A & _). rewrite A. reflexivity.
  - reflexivity.
  - reflexivity.
  - reflexivity.
  - destruct res; reflexivity.
  - destruct (iget j (futs s)) as [[k|]|]; reflexivity.
Qed.

Lemma resume_key_out s k : out (resume_key s k) = out s.
Proof.
  unfold resume_key. destruct (nget k (ofuts s)) as [o|]; [|reflexivity].
  destruct (owait o); try reflexivity. destruct (is_pending (ost o)); [reflexivity|].
  destruct (is_resolved (ost o)); reflexivity.
Qed.

Lemma resume_out s : out (resume s) = out s.
Proof.
  unfold resume. generalize (map fst (ofuts s)) as l. intros l. revert s.
  induction l as [|k r IH]; intros s; [reflexivity|]. cbn [fold_left]. rewrite IH. apply resume_key_out.
Qed.

(* one_progress_each (one call) *)
Theorem one_progress_each s tok v :
  out (pstep s (PBegin tok v)) = out s ++ [WProgress tok 0 v] /\
  out (pstep s (PReport tok v)) = out s ++ [WProgress tok 1 v] /\
  out (pstep s (PEnd tok v)) = out s ++ [WProgress tok 2 v].
Proof. cbn [pstep]. destruct (registered s tok); repeat split. Qed.

Lemma pstep_progress s e :
  progress_frames (out (pstep s e)) = progress_frames (out s) ++ spec_progress [e].
Proof.
  destruct e as [e|tok ucb|tok| |tok v|tok v|tok v|tok]; cbn [spec_progress]; rewrite ?app_nil_r.
  - apply step_out.
  - cbn [pstep]. destruct (registered s tok); [reflexivity|]. cbn. rewrite progress_frames_app. cbn.
    apply app_nil_r.
  - cbn [pstep]. destruct (registered s tok); [reflexivity|]. cbn. rewrite progress_frames_app. cbn.
    apply app_nil_r.
  - cbn [pstep]. rewrite resume_out. reflexivity.
  - destruct (one_progress_each s tok v) as (A & _). rewrite A, progress_frames_app. reflexivity.
  - destruct (one_progress_each s tok v) as (_ & A & _). rewrite A, progress_frames_app. reflexivity.
  - destruct (one_progress_each s tok v) as (_ & _ & A). rewrite A, progress_frames_app. reflexivity.
  - cbn [pstep]. destruct (iget tok (tokens s)); reflexivity.
Qed.

Lemma spec_progress_cons e r : spec_progress (e :: r) = spec_progress [e] ++ spec_progress r.
Proof. destruct e; reflexivity. Qed.

(* one_progress_each (whole histories): the $/progress notifications on the wire are exactly the
   begin / report / end calls, one each, in order, with their token and value *)
Theorem progress_frames_exact evs : forall s,
  progress_frames (out (prun_from s evs)) = progress_frames (out s) ++ spec_progress evs.
Proof.
  induction evs as [|e r IH]; intros s; [cbn; symmetry; apply app_nil_r|].
  change (prun_from s (e :: r)) with (prun_from (pstep s e) r).
  rewrite IH, pstep_progress, (spec_progress_cons e r), app_assoc. reflexivity.
Qed.

(* ------------------------------------------------------------------ registered iff acknowledged *)
Definition acked (s : st) (tok : id) : Prop :=
  exists k o, In (k, o) (ofuts s) /\ acked_for tok o = true.

Record PInv (s : st) (L : list id) : Prop := {
  p_handles : map fst (ofuts s) = seq 0 (length (ofuts s));
  (* a coroutine that has continued did so after its future completed *)
  p_wait : forall k o t, In (k, o) (ofuts s) -> owait o = WDone t -> is_pending (ost o) = false;
  (* THE CLAUSE: a token is registered iff begin() was called for it or a create request for it
     was acknowledged with a result (and, for create_async, the coroutine has continued) *)
  p_reg : forall tok, registered s tok = true <-> In tok L \/ acked s tok
}.

Lemma registered_register s t tok :
  registered (register_token s t) tok = true <-> t = tok \/ registered s tok = true.
Proof.
  unfold registered, register_token, amem. cbn [tokens set_tokens].
  destruct (id_eq_dec t tok) as [->|N].
  - rewrite (aget_aset_eq id_eqb id_eqb_eq). tauto.
  - rewrite (aget_aset_neq id_eqb id_eqb_eq) by exact N. tauto.
Qed.

Lemma in_aupd {V} k (f : V -> V) (l : list (nat * V)) k' v' :
  In (k', v') (aupd Nat.eqb k f l) <->
  exists v, In (k', v) l /\ v' = if Nat.eqb k' k then f v else v.
Proof.
  rewrite (aupd_as_map Nat.eqb), in_map_iff. split.
  - intros ([k0 v] & E & I). cbn [fst snd] in E. exists v. destruct (Nat.eqb k0 k) eqn:Q;
      injection E as <- <-; rewrite ?Q; auto.
  - intros (v & I & ->). exists (k', v). cbn [fst snd]. destruct (Nat.eqb k' k); auto.
Qed.

Lemma handles_unique s k o o' :
  map fst (ofuts s) = seq 0 (length (ofuts s)) -> In (k, o) (ofuts s) -> In (k, o') (ofuts s) -> o = o'.
Proof.
  intros H A B. assert (ND : NoDup (map fst (ofuts s))) by (rewrite H; apply seq_NoDup).
  apply (aget_of_in _ _ _ ND) in A. apply (aget_of_in _ _ _ ND) in B. congruence.
Qed.

Lemma handles_aupd s k f :
  map fst (ofuts s) = seq 0 (length (ofuts s)) ->
  map fst (aupd Nat.eqb k f (ofuts s)) = seq 0 (length (aupd Nat.eqb k f (ofuts s))).
Proof.
  intros H. rewrite map_fst_aupd. rewrite <- (map_length fst (aupd Nat.eqb k f (ofuts s))), map_fst_aupd,
    map_length. exact H.
Qed.

(* PInv reads only ofuts and tokens *)
Lemma PInv_ext s s' L : ofuts s' = ofuts s -> tokens s' = tokens s -> PInv s L -> PInv s' L.
Proof.
  intros O T [A B C]. split.
  - rewrite O. exact A.
  - intros k o t. rewrite O. apply B.
  - intros tok. unfold registered, acked. rewrite T, O. apply C.
Qed.

Lemma acked_for_not_resolved tok o : is_resolved (ost o) = false -> acked_for tok o = false.
Proof. unfold acked_for. intros ->. reflexivity. Qed.

Lemma pending_not_resolved f : is_pending f = true -> is_resolved f = false.
Proof. destruct f; try discriminate; reflexivity. Qed.

(* the generic update of entry k: the token table gains exactly the tokens for which entry k
   becomes an acknowledged create *)
Lemma PInv_upd s s' L k (f : ofut -> ofut) :
  PInv s L ->
  ofuts s' = aupd Nat.eqb k f (ofuts s) ->
  (forall o t, In (k, o) (ofuts s) -> owait (f o) = WDone t -> is_pending (ost (f o)) = false) ->
  (forall o tok, In (k, o) (ofuts s) -> acked_for tok o = true -> acked_for tok (f o) = true) ->
  (forall tok, registered s' tok = true <->
               registered s tok = true \/
               exists o, In (k, o) (ofuts s) /\ acked_for tok o = false /\ acked_for tok (f o) = true) ->
  PInv s' L.
Proof.
  intros [A B C] O W M R. split.
  - rewrite O. apply handles_aupd, A.
  - intros k' o' t I Q. rewrite O in I. apply in_aupd in I. destruct I as (o & I & ->).
    destruct (Nat.eqb k' k) eqn:E; [|eapply B; eassumption].
    apply Nat.eqb_eq in E. subst k'. eapply W; eassumption.
  - intros tok. rewrite (R tok), (C tok). unfold acked. rewrite O. split.
    + intros [[X|(k' & o' & I & Q)]|(o & I & Q1 & Q2)].
      * left. exact X.
      * right. exists k'. destruct (Nat.eqb k' k) eqn:E.
        -- apply Nat.eqb_eq in E. subst k'. exists (f o'). split; [|apply (M o' tok I Q)].
           apply in_aupd. exists o'. rewrite Nat.eqb_refl. auto.
        -- exists o'. split; [|exact Q]. apply in_aupd. exists o'. rewrite E. auto.
      * right. exists k, (f o). split; [|exact Q2]. apply in_aupd. exists o. rewrite Nat.eqb_refl. auto.
    + intros [X|(k' & o' & I & Q)]; [left; left; exact X|].
      apply in_aupd in I. destruct I as (o & I & ->). destruct (Nat.eqb k' k) eqn:E.
      * apply Nat.eqb_eq in E. subst k'. destruct (acked_for tok o) eqn:Q0.
        -- left. right. exists k, o. auto.
        -- right. exists o. auto.
      * left. right. exists k', o. auto.
Qed.

Lemma PInv_append s L o :
  PInv s L -> is_pending (ost o) = true -> (forall t, owait o <> WDone t) ->
  PInv (set_ofuts s (ofuts s ++ [(length (ofuts s), o)])) L.
Proof.
  intros [A B C] P W. split; cbn [ofuts set_ofuts].
  - rewrite map_app, app_length, A. cbn [map fst length]. rewrite Nat.add_1_r, seq_S. reflexivity.
  - intros k' o' t I Q. apply in_app_or in I. destruct I as [I|[I|[]]]; [eapply B; eassumption|].
    injection I as <- <-. exfalso. eapply W. exact Q.
  - intros tok. rewrite (C tok). unfold acked. cbn [ofuts set_ofuts].
    split; (intros [X|(k' & o' & I & Q)]; [left; exact X|right]).
    + exists k', o'. split; [apply in_or_app; left; exact I|exact Q].
    + apply in_app_or in I. destruct I as [I|[I|[]]]; [exists k', o'; auto|].
      injection I as <- <-. rewrite (acked_for_not_resolved tok o (pending_not_resolved _ P)) in Q.
      discriminate.
Qed.

Lemma PInv_send s L m rt cb mid w :
  PInv s L -> (forall t, w <> WDone t) -> PInv (send_request s m rt cb mid w) L.
Proof.
  intros I W.
  apply (PInv_ext (set_ofuts s (ofuts s ++ [(length (ofuts s), mkO (fst (send_id mid (next s))) m rt cb Pending 0 w)]))).
  - destruct mid; reflexivity.
  - destruct mid; reflexivity.
  - apply PInv_append; [exact I|reflexivity|exact W].
Qed.

Lemma PInv_cancel_out s L k : PInv s L -> PInv (cancel_out s k) L.
Proof.
  intros I. apply (PInv_upd s _ L k (fun o => if is_pending (ost o) then set_ost o Cancelled else o) I).
  - reflexivity.
  - intros o t Hin. destruct (is_pending (ost o)) eqn:P; [reflexivity|]. intros Q.
    apply (p_wait s L I k o t Hin Q).
  - intros o tok Hin. destruct (is_pending (ost o)) eqn:P; [|auto].
    rewrite (acked_for_not_resolved tok o (pending_not_resolved _ P)). discriminate.
  - intros tok. split; [left; assumption|]. intros [X|(o & Hin & Q1 & Q2)]; [exact X|].
    destruct (is_pending (ost o)); [|congruence]. unfold acked_for in Q2. cbn [ost set_ost is_resolved andb] in Q2.
    discriminate.
Qed.

Lemma complete_tokens_pending s k oc o :
  nget k (ofuts s) = Some o -> is_pending (ost o) = true ->
  tokens (complete s k oc) = match oc, ocb o with
                             | ORes _ _, CbCreate t _ => aset id_eqb t (length (tfuts s)) (tokens s)
                             | _, _ => tokens s
                             end.
Proof.
  intros G P. unfold complete_with, xnone. rewrite G, P. unfold run_callbacks.
  destruct oc; cbn [ost set_ost ocb]; [|reflexivity].
  destruct (ocb o) as [|kn|kn|t u]; [reflexivity|reflexivity|reflexivity|]. destruct u; reflexivity.
Qed.

Lemma PInv_complete s L k oc : PInv s L -> PInv (complete s k oc) L.
Proof.
  intros I. destruct (nget k (ofuts s)) as [o|] eqn:G.
  2: { unfold complete_with, xnone. rewrite G. exact I. }
  destruct (is_pending (ost o)) eqn:P.
  2: { unfold complete_with, xnone. rewrite G, P. apply (PInv_ext s); [reflexivity|reflexivity|exact I]. }
  pose proof (complete_ofuts_pending s k oc o G P) as O.
  pose proof (complete_tokens_pending s k oc o G P) as T.
  assert (U : forall o0, In (k, o0) (ofuts s) -> o0 = o).
  { intros o0 Hin. apply (handles_unique s k o0 o (p_handles s L I) Hin). apply nget_in, G. }
  assert (NW : forall t, owait o <> WDone t).
  { intros t Q. pose proof (p_wait s L I k o t (nget_in _ _ _ G) Q). congruence. }
  apply (PInv_upd s _ L k _ I O).
  - intros o0 t _. destruct oc; [destruct (cbflag (ocb o))|]; reflexivity.
  - intros o0 tok Hin. rewrite (U o0 Hin), (acked_for_not_resolved tok o (pending_not_resolved _ P)).
    discriminate.
  - intros tok. unfold registered, amem. rewrite T. destruct oc as [rt p|c m d].
    + assert (AF : forall o', ost o' = Resolved rt p -> ocb o' = ocb o -> owait o' = owait o ->
                   acked_for tok o' = match ocb o with CbCreate t _ => id_eqb t tok | _ => false end).
      { intros o' E1 E2 E3. unfold acked_for. rewrite E1, E2, E3. cbn [is_resolved andb].
        destruct (owait o) eqn:W; [| |exfalso; exact (NW _ eq_refl)];
          destruct (ocb o); rewrite ?orb_false_r; reflexivity. }
      assert (AFF : acked_for tok (if cbflag (ocb o) then called (set_ost o (Resolved rt p))
                                   else set_ost o (Resolved rt p))
                    = match ocb o with CbCreate t _ => id_eqb t tok | _ => false end).
      { destruct (cbflag (ocb o)); apply AF; reflexivity. }
      destruct (ocb o) as [|kn|kn|t u] eqn:CB.
      * split; [left; assumption|]. intros [X|(o0 & _ & _ & Q)]; [exact X|]. cbn zeta in Q.
        rewrite AFF in Q. discriminate.
      * split; [left; assumption|]. intros [X|(o0 & _ & _ & Q)]; [exact X|]. cbn zeta in Q.
        rewrite AFF in Q. discriminate.
      * split; [left; assumption|]. intros [X|(o0 & _ & _ & Q)]; [exact X|]. cbn zeta in Q.
        rewrite AFF in Q. discriminate.
      * destruct (id_eq_dec t tok) as [->|N].
        -- rewrite (aget_aset_eq id_eqb id_eqb_eq). split; [|reflexivity]. intros _. right.
           exists o. split; [apply nget_in, G|]. split.
           ++ apply acked_for_not_resolved, pending_not_resolved, P.
           ++ cbn zeta. rewrite AFF. apply id_eqb_refl.
        -- rewrite (aget_aset_neq id_eqb id_eqb_eq) by exact N. split; [left; assumption|].
           intros [X|(o0 & _ & _ & Q)]; [exact X|]. cbn zeta in Q. rewrite AFF in Q.
           apply id_eqb_eq in Q. contradiction.
    + split; [left; assumption|]. intros [X|(o0 & _ & _ & Q)]; [exact X|].
      unfold acked_for in Q. cbn [ost set_ost is_resolved andb] in Q. discriminate.
Qed.

Lemma PInv_handle_response s L i oc : PInv s L -> PInv (handle_response s i oc) L.
Proof.
  intros I. unfold handle_response_with. destruct (iget i (futs s)) as [[k|]|].
  - apply PInv_complete. apply (PInv_ext s); [reflexivity|reflexivity|exact I].
  - apply (PInv_ext s); [reflexivity|reflexivity|exact I].
  - apply (PInv_ext s); [reflexivity|reflexivity|exact I].
Qed.

Lemma PInv_step s L e : PInv s L -> PInv (step s e) L.
Proof.
  intros I. destruct e as [m rt cb mid|j p oks|j c m d|k0|j|j|j res|j]; cbn [step_with cancel_with xnone].
  - apply PInv_send; [exact I|discriminate].
  - destruct (iget j (rtypes s)) as [rt|]; [|apply (PInv_ext s); [reflexivity|reflexivity|exact I]].
    destruct (mem_n rt oks); [|apply (PInv_ext s); [reflexivity|reflexivity|exact I]].
    apply PInv_handle_response. apply (PInv_ext s); [reflexivity|reflexivity|exact I].
  - destruct (int32 c); [|apply (PInv_ext s); [reflexivity|reflexivity|exact I]].
    apply PInv_handle_response. apply (PInv_ext s); [reflexivity|reflexivity|exact I].
  - apply PInv_cancel_out, I.
  - apply (PInv_ext s); [reflexivity|reflexivity|exact I].
  - apply (PInv_ext s); [reflexivity|reflexivity|exact I].
  - destruct res; apply (PInv_ext s); try reflexivity; exact I.
  - destruct (iget j (futs s)) as [[k|]|].
    + apply PInv_cancel_out. apply (PInv_ext s); [reflexivity|reflexivity|exact I].
    + apply (PInv_ext s); [reflexivity|reflexivity|exact I].
    + exact I.
Qed.

Lemma registered_set_ofuts s v tok : registered (set_ofuts s v) tok = registered s tok.
Proof. reflexivity. Qed.

Lemma PInv_resume_key s L k : PInv s L -> PInv (resume_key s k) L.
Proof.
  intros I. unfold resume_key. destruct (nget k (ofuts s)) as [o|] eqn:G; [|exact I].
  destruct (owait o) as [|t|t] eqn:W; [exact I| |exact I].
  destruct (is_pending (ost o)) eqn:P; [exact I|].
  assert (U : forall o0, In (k, o0) (ofuts s) -> o0 = o).
  { intros o0 Hin. apply (handles_unique s k o0 o (p_handles s L I) Hin). apply nget_in, G. }
  apply (PInv_upd s _ L k (fun o => set_owait o (WDone t)) I).
  - destruct (is_resolved (ost o)); reflexivity.
  - intros o0 t' Hin _. rewrite (U o0 Hin). exact P.
  - intros o0 tok Hin. rewrite (U o0 Hin). unfold acked_for. cbn [ost ocb owait set_owait]. rewrite W.
    rewrite orb_false_r. intros Q. apply andb_true_iff in Q. destruct Q as [Q1 Q2]. rewrite Q1, Q2.
    reflexivity.
  - intros tok.
    assert (AF : acked_for tok o
                 = is_resolved (ost o) && match ocb o with CbCreate t' _ => id_eqb t' tok | _ => false end).
    { unfold acked_for. rewrite W, orb_false_r. reflexivity. }
    assert (AF' : acked_for tok (set_owait o (WDone t))
                  = is_resolved (ost o) && (match ocb o with CbCreate t' _ => id_eqb t' tok | _ => false end
                                            || id_eqb t tok)).
    { unfold acked_for. cbn [ost ocb owait set_owait]. reflexivity. }
    destruct (is_resolved (ost o)) eqn:R; rewrite registered_set_ofuts.
    + rewrite registered_register. split.
      * intros [->|X]; [|left; exact X]. destruct (acked_for tok o) eqn:Q.
        -- left. apply (p_reg s L I tok). right. exists k, o. split; [apply nget_in, G|exact Q].
        -- right. exists o. split; [apply nget_in, G|]. split; [exact Q|]. rewrite AF'. cbn [andb].
           rewrite id_eqb_refl. apply orb_true_r.
      * intros [X|(o0 & Hin & Q1 & Q2)]; [right; exact X|]. rewrite (U o0 Hin) in Q1, Q2.
        rewrite AF in Q1. rewrite AF' in Q2. cbn [andb] in Q1, Q2. rewrite Q1 in Q2. cbn [orb] in Q2.
        left. apply id_eqb_eq, Q2.
    + split; [left; assumption|]. intros [X|(o0 & Hin & Q1 & Q2)]; [exact X|].
      rewrite (U o0 Hin), AF' in Q2. discriminate.
Qed.

Lemma PInv_resume s L : PInv s L -> PInv (resume s) L.
Proof.
  unfold resume. generalize (map fst (ofuts s)) as l. intros l. revert s.
  induction l as [|k r IH]; intros s I; [exact I|]. cbn [fold_left]. apply IH, PInv_resume_key, I.
Qed.

Lemma PInv_weaken s L L' : (forall t, In t L <-> In t L') -> PInv s L -> PInv s L'.
Proof. intros E [A B C]. split; [exact A|exact B|]. intros tok. rewrite (C tok), (E tok). tauto. Qed.

Lemma PInv_pstep s L e : PInv s L -> PInv (pstep s e) (L ++ begun [e]).
Proof.
  intros I. destruct e as [e|tok ucb|tok| |tok v|tok v|tok v|tok]; cbn [begun]; rewrite ?app_nil_r;
    cbn [pstep].
  - apply PInv_step, I.
  - destruct (registered s tok); [apply (PInv_ext s); [reflexivity|reflexivity|exact I]|].
    apply PInv_send; [exact I|discriminate].
  - destruct (registered s tok); [apply (PInv_ext s); [reflexivity|reflexivity|exact I]|].
    apply PInv_send; [exact I|discriminate].
  - apply PInv_resume, I.
  - unfold notify_progress.
    apply (PInv_ext (if registered s tok then s else register_token s tok));
      [destruct (registered s tok); reflexivity|destruct (registered s tok); reflexivity|].
    destruct I as [A B C]. split.
    + destruct (registered s tok); exact A.
    + destruct (registered s tok); exact B.
    + intros t.
      assert (E : registered (if registered s tok then s else register_token s tok) t = true
                  <-> tok = t \/ registered s t = true).
      { destruct (registered s tok) eqn:R; [|apply registered_register].
        split; [auto|]. intros [<-|X]; assumption. }
      assert (AK : acked (if registered s tok then s else register_token s tok) t <-> acked s t)
        by (destruct (registered s tok); reflexivity).
      rewrite E, AK, (C t), in_app_iff. cbn [In]. tauto.
  - apply (PInv_ext s); [reflexivity|reflexivity|exact I].
  - apply (PInv_ext s); [reflexivity|reflexivity|exact I].
  - destruct (iget tok (tokens s)); [apply (PInv_ext s); [reflexivity|reflexivity|exact I]|exact I].
Qed.

Lemma begun_cons e r : begun (e :: r) = begun [e] ++ begun r.
Proof. destruct e; reflexivity. Qed.

Lemma PInv_prun evs : forall s L, PInv s L -> PInv (prun_from s evs) (L ++ begun evs).
Proof.
  induction evs as [|e r IH]; intros s L I; [cbn [begun]; rewrite app_nil_r; exact I|].
  change (prun_from s (e :: r)) with (prun_from (pstep s e) r).
  rewrite (begun_cons e r), app_assoc. apply IH, PInv_pstep, I.
Qed.

Lemma PInv_init : PInv init [].
Proof.
  split; [reflexivity|intros k o t []|]. intros tok. cbn. split; [discriminate|].
  intros [[]|(k & o & [] & _)].
Qed.

(* registered_iff_acked: for EVERY history, a token is in Progress.tokens iff begin() was called
   for it or a create request for it was answered with a result (and the create_async coroutine
   has continued) - in particular not when the client rejected the request *)
Theorem registered_iff_acked evs tok :
  registered (prun evs) tok = true <-> In tok (begun evs) \/ acked (prun evs) tok.
Proof. apply (p_reg _ _ (PInv_prun evs init [] PInv_init)). Qed.

(* a rejected create never registers: the future of a create request that failed is not acked *)
Lemma failed_not_acked tok o c a b d : ost o = Failed c a b d -> acked_for tok o = false.
Proof. intros E. unfold acked_for. rewrite E. reflexivity. Qed.
