(* Exact decoding of streams of well-formed frames (C02 clause i), the header recognisers on the
   lines a conforming peer emits, and the decimal printer `dec`. *)
From Coq Require Import ZArith NArith List Bool Lia ZifyBool ZifyN ZifyNat.
From Pygls Require Import Base.Bytes Model.Framing Spec.FramingSpec Proofs.FramingProofs.
Ltac Zify.zify_post_hook ::= Z.to_euclidean_division_equations.
Open Scope N_scope.

(* ---------- recognisers ---------- *)

Lemma strip_prefix_app : forall p r, strip_prefix p (p ++ r) = Some r.
Proof.
  induction p as [|a p IH]; intros r; [reflexivity|].
  cbn [app strip_prefix]. rewrite N.eqb_refl. apply IH.
Qed.

Lemma span_digits : forall ds c r, all_digits ds = true -> is_digit c = false ->
  span is_digit (ds ++ c :: r) = (ds, c :: r).
Proof.
  induction ds as [|d ds IH]; intros c r Hd Hc.
  - cbn [app span]. rewrite Hc. reflexivity.
  - cbn [all_digits forallb] in Hd. apply andb_prop in Hd. destruct Hd as [H1 H2].
    cbn [app span]. rewrite H1. rewrite (IH c r H2 Hc). reflexivity.
Qed.

Lemma no_lf_app a b : no_lf (a ++ b) = no_lf a && no_lf b.
Proof. unfold no_lf. apply forallb_app. Qed.

Lemma digits_no_lf : forall ds, all_digits ds = true -> no_lf ds = true.
Proof.
  induction ds as [|d ds IH]; intros H; [reflexivity|].
  cbn [all_digits forallb] in H. apply andb_prop in H. destruct H as [H1 H2].
  cbn [no_lf forallb]. fold (no_lf ds). rewrite (IH H2). unfold is_digit in H1.
  replace (d =? 10) with false by lia. reflexivity.
Qed.

Lemma parse_cl_line ds :
  ds <> [] -> all_digits ds = true -> len ds <= INT_MAX_STR_DIGITS ->
  parse_cl (cl_line ds) = CLMatch (int_of_digits ds).
Proof.
  intros Hne Hd Hlen. unfold parse_cl, cl_line.
  change CLEN_PREFIX with CL_PREFIX. rewrite strip_prefix_app.
  unfold CRLF. rewrite (span_digits ds 13 [10] Hd eq_refl).
  destruct ds as [|d ds]; [congruence|]. cbn [is_nil negb andb eqb_bytes].
  replace (13 =? 13) with true by reflexivity. replace (10 =? 10) with true by reflexivity.
  cbn [andb]. replace (INT_MAX_STR_DIGITS <? len (d :: ds)) with false by lia. reflexivity.
Qed.

Lemma parse_cl_ct_line v : parse_cl (ct_line v) = CLNoMatch.
Proof. reflexivity. Qed.

Lemma is_blank_nonws c r : is_ws c = false -> is_blank (c :: r) = false.
Proof.
  intros H. unfold is_blank, bstrip. cbn [lstrip]. rewrite H. cbn [rstrip].
  destruct (rstrip r); [rewrite H|]; reflexivity.
Qed.

Lemma is_blank_cl_line ds : is_blank (cl_line ds) = false.
Proof. apply is_blank_nonws. reflexivity. Qed.

Lemma is_blank_ct_line v : is_blank (ct_line v) = false.
Proof. apply is_blank_nonws. reflexivity. Qed.

(* ---------- reading a line that is there ---------- *)

Definition line_fits (k : kind) (l : list N) : Prop :=
  match k with Stream lim => len l <= lim | _ => True end.

Lemma readline_line k eof l rest :
  no_lf l = true -> line_fits k l -> readline k eof (l ++ 10 :: rest) = RLine (l ++ [10]) rest.
Proof.
  intros Hl Hf. unfold readline. rewrite (split_line_nolf l rest Hl).
  destruct k; try reflexivity. cbn [line_fits] in Hf.
  rewrite blen_app. change (len [10]) with 1. replace (limit <? len l + 1 - 1) with false by lia.
  reflexivity.
Qed.

Lemma cl_line_shape ds rest : cl_line ds ++ rest = (CLEN_PREFIX ++ ds ++ [13]) ++ 10 :: rest.
Proof. unfold cl_line, CRLF. rewrite <- !app_assoc. reflexivity. Qed.
Lemma cl_line_shape' ds : (CLEN_PREFIX ++ ds ++ [13]) ++ [10] = cl_line ds.
Proof. unfold cl_line, CRLF. rewrite <- !app_assoc. reflexivity. Qed.
Lemma ct_line_shape v rest : ct_line v ++ rest = (CT_PREFIX ++ v ++ [13]) ++ 10 :: rest.
Proof. unfold ct_line, CRLF. rewrite <- !app_assoc. reflexivity. Qed.
Lemma ct_line_shape' v : (CT_PREFIX ++ v ++ [13]) ++ [10] = ct_line v.
Proof. unfold ct_line, CRLF. rewrite <- !app_assoc. reflexivity. Qed.

Lemma len_line_minus l : len (l ++ [10]) - 1 = len l.
Proof. rewrite blen_app. change (len [10]) with 1. lia. Qed.

Lemma cl_line_not_nil ds : is_nil (cl_line ds) = false.
Proof. reflexivity. Qed.
Lemma ct_line_not_nil v : is_nil (ct_line v) = false.
Proof. reflexivity. Qed.

(* the Content-Length line, seen while content_length = 0 *)
Lemma step_cl_line k eof ds rest :
  ds <> [] -> all_digits ds = true -> len ds <= INT_MAX_STR_DIGITS ->
  line_fits k (CLEN_PREFIX ++ ds ++ [13]) ->
  step k eof (PHeader 0, cl_line ds ++ rest) = OCont (PHeader (int_of_digits ds), rest) [].
Proof.
  intros Hne Hd Hlen Hf. unfold step. rewrite cl_line_shape.
  rewrite readline_line; [|rewrite !no_lf_app, (digits_no_lf ds Hd); reflexivity|exact Hf].
  rewrite cl_line_shape', cl_line_not_nil.
  replace (0 =? 0) with true by reflexivity.
  rewrite (parse_cl_line ds Hne Hd Hlen), is_blank_cl_line, andb_false_r. reflexivity.
Qed.

(* any Content-Type line, whatever content_length is *)
Lemma step_ct_line k eof cl v rest :
  no_lf v = true -> line_fits k (CT_PREFIX ++ v ++ [13]) ->
  step k eof (PHeader cl, ct_line v ++ rest) = OCont (PHeader cl, rest) [].
Proof.
  intros Hv Hf. unfold step. rewrite ct_line_shape.
  rewrite readline_line; [|rewrite !no_lf_app, Hv; reflexivity|exact Hf].
  rewrite ct_line_shape', ct_line_not_nil.
  rewrite parse_cl_ct_line, is_blank_ct_line, andb_false_r.
  destruct (cl =? 0); reflexivity.
Qed.

(* the blank line once a Content-Length has been seen *)
Lemma step_blank_line k eof cl rest :
  cl <> 0 -> line_fits k [13] ->
  step k eof (PHeader cl, CRLF ++ rest) = OCont (PBody cl, rest) [].
Proof.
  intros Hcl Hf. unfold step. change (CRLF ++ rest) with ([13] ++ 10 :: rest).
  rewrite readline_line; [|reflexivity|exact Hf].
  cbn [app is_nil]. replace (cl =? 0) with false by lia. reflexivity.
Qed.

(* loop_consumes_body: after a header block the loop takes exactly `len b` bytes, whatever they are *)
Lemma loop_consumes_body k eof b rest :
  b <> [] -> step k eof (PBody (len b), b ++ rest) = OCont (PHeader 0, rest) [Body b].
Proof.
  intros Hb. unfold step, readexactly. rewrite blen_app.
  replace (len b <=? len b + len rest) with true by lia.
  rewrite take_exact, drop_exact. apply is_nil_false in Hb. rewrite Hb. reflexivity.
Qed.

(* ---------- one frame, then many ---------- *)

Lemma run_cont k eof st st' evs :
  step k eof st = OCont st' evs -> run k eof st = (let (es, r) := run k eof st' in (evs ++ es, r)).
Proof. intros H. rewrite run_unfold, H. reflexivity. Qed.

Lemma fits_parts k lay ds :
  fits k lay ds = true ->
  line_fits k [13] /\ line_fits k (CLEN_PREFIX ++ ds ++ [13]) /\
  match lay with LCl => True | LClCt v | LCtCl v => line_fits k (CT_PREFIX ++ v ++ [13]) end.
Proof.
  unfold fits, line_fits. destruct k as [lim| |]; [|destruct lay; auto..].
  intros H. apply andb_prop in H. destruct H as [H H3]. apply andb_prop in H. destruct H as [H1 H2].
  rewrite <- cl_line_shape', len_line_minus in H2.
  change (len [13]) with 1. split; [lia|]. split; [lia|].
  destruct lay; [exact I|..]; rewrite <- ct_line_shape', len_line_minus in H3; lia.
Qed.

Lemma frame_ok_inv k lay ds b :
  frame_ok k lay ds b = true ->
  b <> [] /\ no_lf (layout_value lay) = true /\ ds <> [] /\ all_digits ds = true /\
  int_of_digits ds = len b /\ len ds <= INT_MAX_STR_DIGITS /\ fits k lay ds = true.
Proof.
  unfold frame_ok, spells. rewrite !andb_true_iff, !negb_true_iff, !is_nil_false.
  intros (((A & B) & (((C & D) & E) & F)) & G).
  apply N.eqb_eq in E. apply N.leb_le in F. tauto.
Qed.

Lemma run_frame k eof lay ds b rest :
  frame_ok k lay ds b = true ->
  run k eof (PHeader 0, frame_ds lay ds b ++ rest) =
  (let (es, r) := run k eof (PHeader 0, rest) in (Body b :: es, r)).
Proof.
  intros H'. destruct (frame_ok_inv _ _ _ _ H') as (H & H1 & H2 & H3 & H4 & H5 & H0).
  destruct (fits_parts _ _ _ H0) as (F1 & F2 & F3).
  assert (Hn : int_of_digits ds <> 0).
  { rewrite H4. intros Z. apply H, blen_zero, Z. }
  unfold frame_ds, header_block. destruct lay as [|v|v]; cbn [layout_value] in H1; rewrite <- !app_assoc.
  - rewrite (run_cont _ _ _ _ _ (step_cl_line k eof ds _ H2 H3 H5 F2)).
    rewrite (run_cont _ _ _ _ _ (step_blank_line k eof _ _ Hn F1)).
    rewrite H4. rewrite (run_cont _ _ _ _ _ (loop_consumes_body k eof b rest H)).
    destruct (run k eof (PHeader 0, rest)); reflexivity.
  - rewrite (run_cont _ _ _ _ _ (step_cl_line k eof ds _ H2 H3 H5 F2)).
    rewrite (run_cont _ _ _ _ _ (step_ct_line k eof _ v _ H1 F3)).
    rewrite (run_cont _ _ _ _ _ (step_blank_line k eof _ _ Hn F1)).
    rewrite H4. rewrite (run_cont _ _ _ _ _ (loop_consumes_body k eof b rest H)).
    destruct (run k eof (PHeader 0, rest)); reflexivity.
  - rewrite (run_cont _ _ _ _ _ (step_ct_line k eof _ v _ H1 F3)).
    rewrite (run_cont _ _ _ _ _ (step_cl_line k eof ds _ H2 H3 H5 F2)).
    rewrite (run_cont _ _ _ _ _ (step_blank_line k eof _ _ Hn F1)).
    rewrite H4. rewrite (run_cont _ _ _ _ _ (loop_consumes_body k eof b rest H)).
    destruct (run k eof (PHeader 0, rest)); reflexivity.
Qed.

(* frames with any spelling of the length (leading zeros allowed) *)
Definition frame3 (f : layout * list N * list N) : list N :=
  let '(lay, ds, b) := f in frame_ds lay ds b.
Definition frame3_ok (k : kind) (f : layout * list N * list N) : bool :=
  let '(lay, ds, b) := f in frame_ok k lay ds b.
Definition body3 (f : layout * list N * list N) : ev := let '(_, _, b) := f in Body b.

Theorem run_frames_ds k eof : forall fs rest,
  forallb (frame3_ok k) fs = true ->
  run k eof (PHeader 0, concat (map frame3 fs) ++ rest) =
  (let (es, r) := run k eof (PHeader 0, rest) in (map body3 fs ++ es, r)).
Proof.
  induction fs as [|[[lay ds] b] fs IH]; intros rest H.
  - cbn [map concat app]. destruct (run k eof (PHeader 0, rest)); reflexivity.
  - cbn [forallb] in H. apply andb_prop in H. destruct H as [H1 H2].
    cbn [map concat]. rewrite <- app_assoc. unfold frame3 at 1.
    rewrite (run_frame k eof lay ds b _ H1). rewrite (IH rest H2).
    destruct (run k eof (PHeader 0, rest)); reflexivity.
Qed.

Lemma run_empty_eof k : run k true (PHeader 0, []) = ([], Done EndedNormally).
Proof. destruct k; try reflexivity. rewrite run_unfold. cbn. destruct (limit <? 0) eqn:E; [lia|reflexivity]. Qed.

Lemma run_empty_open k : run k false (PHeader 0, []) = ([], Blocked (PHeader 0, [])).
Proof. rewrite run_unfold. change (PHeader 0, []) with init_state. rewrite init_blocked. reflexivity. Qed.

Theorem loop_whole_frames_ds k fs :
  forallb (frame3_ok k) fs = true ->
  loop_whole k AtEOF (concat (map frame3 fs)) = (map body3 fs, Done EndedNormally).
Proof.
  intros H. unfold loop_whole, whole_from.
  rewrite <- (app_nil_r (concat (map frame3 fs))).
  rewrite (run_frames_ds k true fs [] H), run_empty_eof, app_nil_r. reflexivity.
Qed.

(* the usual spelling *)
Lemma frames_as_frame3 ms :
  frames ms = concat (map frame3 (map (fun m => (fst m, dec (len (snd m)), snd m)) ms)).
Proof. unfold frames. rewrite map_map. reflexivity. Qed.

Lemma bodies_as_body3 ms :
  bodies_of ms = map body3 (map (fun m => (fst m, dec (len (snd m)), snd m)) ms).
Proof. unfold bodies_of. rewrite map_map. reflexivity. Qed.

Lemma msgs_ok_frame3 k ms :
  msgs_ok k ms = true ->
  forallb (frame3_ok k) (map (fun m => (fst m, dec (len (snd m)), snd m)) ms) = true.
Proof.
  unfold msgs_ok. induction ms as [|m ms IH]; [reflexivity|].
  cbn [map forallb]. intros H. apply andb_prop in H. destruct H as [H1 H2].
  rewrite (IH H2), andb_true_r. exact H1.
Qed.

Theorem run_frames k eof ms rest :
  msgs_ok k ms = true ->
  run k eof (PHeader 0, frames ms ++ rest) =
  (let (es, r) := run k eof (PHeader 0, rest) in (bodies_of ms ++ es, r)).
Proof.
  intros H. rewrite frames_as_frame3, bodies_as_body3.
  apply run_frames_ds, msgs_ok_frame3, H.
Qed.

Theorem loop_whole_frames k ms :
  msgs_ok k ms = true -> loop_whole k AtEOF (frames ms) = (bodies_of ms, Done EndedNormally).
Proof.
  intros H. rewrite frames_as_frame3, bodies_as_body3.
  apply loop_whole_frames_ds, msgs_ok_frame3, H.
Qed.

Corollary loop_whole_frames_stream lim ms :
  msgs_ok (Stream lim) ms = true ->
  loop_whole (Stream lim) AtEOF (frames ms) = (bodies_of ms, Done EndedNormally).
Proof. apply loop_whole_frames. Qed.
Corollary loop_whole_frames_stdin ms :
  msgs_ok StdinPool ms = true -> loop_whole StdinPool AtEOF (frames ms) = (bodies_of ms, Done EndedNormally).
Proof. apply loop_whole_frames. Qed.
Corollary loop_whole_frames_sync ms :
  msgs_ok Sync ms = true -> loop_whole Sync AtEOF (frames ms) = (bodies_of ms, Done EndedNormally).
Proof. apply loop_whole_frames. Qed.

(* the same stream while the connection stays open: every body delivered, the loop waits for more *)
Theorem open_frames k ms :
  msgs_ok k ms = true -> run k false (PHeader 0, frames ms) = (bodies_of ms, Blocked (PHeader 0, [])).
Proof.
  intros H. rewrite <- (app_nil_r (frames ms)).
  rewrite (run_frames k false ms [] H), run_empty_open, app_nil_r. reflexivity.
Qed.

(* ---------- the decimal printer ---------- *)

Lemma fold_digits_acc : forall ds a,
  fold_left (fun a d => 10 * a + (d - 48)) ds a = a * 10 ^ len ds + int_of_digits ds.
Proof.
  unfold int_of_digits.
  induction ds as [|d ds IH]; intros a.
  - cbn [fold_left]. change (len (@nil N)) with 0. rewrite N.pow_0_r. lia.
  - cbn [fold_left]. rewrite (IH (10 * a + (d - 48))), (IH (10 * 0 + (d - 48))).
    rewrite blen_cons. replace (1 + len ds) with (N.succ (len ds)) by lia. rewrite N.pow_succ_r'. lia.
Qed.

Lemma int_of_digits_cons d ds : int_of_digits (d :: ds) = (d - 48) * 10 ^ len ds + int_of_digits ds.
Proof.
  unfold int_of_digits at 1. cbn [fold_left]. rewrite fold_digits_acc. lia.
Qed.

Lemma dec_fuel_value : forall f n acc,
  n < 10 ^ N.of_nat f ->
  int_of_digits (dec_fuel f n acc) = n * 10 ^ len acc + int_of_digits acc.
Proof.
  induction f as [|f IH]; intros n acc H.
  - cbn [dec_fuel]. change (N.of_nat 0) with 0 in H. rewrite N.pow_0_r in H. replace n with 0 by lia. lia.
  - cbn [dec_fuel]. rewrite Nat2N.inj_succ, N.pow_succ_r' in H.
    destruct (n / 10 =? 0) eqn:E.
    + rewrite int_of_digits_cons. replace (48 + n mod 10 - 48) with n by lia. reflexivity.
    + rewrite IH by lia. rewrite int_of_digits_cons, blen_cons.
      replace (1 + len acc) with (N.succ (len acc)) by lia. rewrite N.pow_succ_r'.
      replace (48 + n mod 10 - 48) with (n mod 10) by lia.
      pose proof (N.div_mod n 10 ltac:(lia)). nia.
Qed.

Lemma dec_fuel_digits : forall f n acc, all_digits acc = true -> all_digits (dec_fuel f n acc) = true.
Proof.
  induction f as [|f IH]; intros n acc H; [exact H|].
  cbn [dec_fuel].
  assert (D : all_digits ((48 + n mod 10) :: acc) = true).
  { cbn [all_digits forallb]. fold (all_digits acc). rewrite H. unfold is_digit. lia. }
  destruct (n / 10 =? 0); [exact D|]. apply IH, D.
Qed.

Lemma dec_fuel_len_ge : forall f n acc, len acc <= len (dec_fuel f n acc).
Proof.
  induction f as [|f IH]; intros n acc; [cbn [dec_fuel]; lia|].
  cbn [dec_fuel]. destruct (n / 10 =? 0).
  - rewrite blen_cons. lia.
  - specialize (IH (n / 10) ((48 + n mod 10) :: acc)). rewrite blen_cons in IH. lia.
Qed.

Lemma dec_fuel_len_le : forall f n acc k,
  1 <= k -> n < 10 ^ k -> len (dec_fuel f n acc) <= k + len acc.
Proof.
  induction f as [|f IH]; intros n acc k Hk H; [cbn [dec_fuel]; lia|].
  cbn [dec_fuel]. destruct (n / 10 =? 0) eqn:E.
  - rewrite blen_cons. lia.
  - assert (2 <= k).
    { destruct (N.eq_dec k 1) as [-> |]; [|lia]. rewrite N.pow_1_r in H. lia. }
    replace k with (N.succ (k - 1)) in H by lia. rewrite N.pow_succ_r' in H.
    specialize (IH (n / 10) ((48 + n mod 10) :: acc) (k - 1) ltac:(lia) ltac:(lia)).
    rewrite blen_cons in IH. lia.
Qed.

Lemma pos_size_nat_gt : forall p, Npos p < 2 ^ N.of_nat (Pos.size_nat p).
Proof.
  induction p as [p IH|p IH|]; cbn [Pos.size_nat].
  - rewrite Nat2N.inj_succ, N.pow_succ_r'. lia.
  - rewrite Nat2N.inj_succ, N.pow_succ_r'. lia.
  - reflexivity.
Qed.

Lemma size_nat_gt n : n < 10 ^ N.of_nat (S (N.size_nat n)).
Proof.
  rewrite Nat2N.inj_succ, N.pow_succ_r'.
  assert (n < 2 ^ N.of_nat (N.size_nat n) \/ n = 0) as [H| ->].
  { destruct n; [right; reflexivity|left; apply pos_size_nat_gt]. }
  - assert (2 ^ N.of_nat (N.size_nat n) <= 10 ^ N.of_nat (N.size_nat n)) by (apply N.pow_le_mono_l; lia).
    lia.
  - cbn. lia.
Qed.

Theorem dec_value n : int_of_digits (dec n) = n.
Proof.
  unfold dec. rewrite dec_fuel_value by apply size_nat_gt.
  change (len (@nil N)) with 0. rewrite N.pow_0_r. unfold int_of_digits. cbn [fold_left]. lia.
Qed.

Theorem dec_digits n : all_digits (dec n) = true.
Proof. apply dec_fuel_digits. reflexivity. Qed.

Theorem dec_nonempty n : dec n <> [].
Proof.
  unfold dec. cbn [dec_fuel]. destruct (n / 10 =? 0); [discriminate|].
  intros Z. pose proof (dec_fuel_len_ge (N.size_nat n) (n / 10) [48 + n mod 10]) as H.
  rewrite Z in H. rewrite blen_cons in H. change (len (@nil N)) with 0 in H. lia.
Qed.

Theorem dec_len n k : 1 <= k -> n < 10 ^ k -> len (dec n) <= k.
Proof.
  intros Hk H. pose proof (dec_fuel_len_le (S (N.size_nat n)) n [] k Hk H) as L.
  change (len (@nil N)) with 0 in L. unfold dec. lia.
Qed.

(* `dec (len b)` spells the length of any body shorter than 10^4300 bytes *)
Theorem dec_spells b : b <> [] -> len b < 10 ^ INT_MAX_STR_DIGITS -> spells (dec (len b)) b = true.
Proof.
  intros Hb Hl. unfold spells.
  pose proof (dec_nonempty (len b)) as H1. apply is_nil_false in H1. rewrite H1.
  rewrite dec_digits, dec_value, N.eqb_refl.
  pose proof (dec_len (len b) INT_MAX_STR_DIGITS ltac:(unfold INT_MAX_STR_DIGITS; lia) Hl).
  replace (len (dec (len b)) <=? INT_MAX_STR_DIGITS) with true by lia. reflexivity.
Qed.

(* ---------- the reference used by the correspondence run ---------- *)

Lemma frames_cons m ms : frames (m :: ms) = frame m ++ frames ms.
Proof. reflexivity. Qed.

(* on the complete stream the truncation reference is the list of all bodies *)
Theorem cut_bodies_full sh : forall ms, cut_bodies sh ms (len (frames ms)) = bodies_of ms.
Proof.
  induction ms as [|m ms IH]; [reflexivity|].
  cbn [cut_bodies]. rewrite frames_cons, blen_app.
  replace (len (frame m) <=? len (frame m) + len (frames ms)) with true by lia.
  replace (len (frame m) + len (frames ms) - len (frame m)) with (len (frames ms)) by lia.
  rewrite IH. reflexivity.
Qed.

(* ---------- `conforming` implies the executable guard ---------- *)

Lemma conforming_ok k m : conforming k m -> msg_ok k m = true.
Proof.
  intros (Hb & Hl & Hv & Hf). unfold msg_ok, frame_ok.
  rewrite Hv, Hf, (dec_spells (snd m) Hb Hl). destruct (snd m); [congruence|reflexivity].
Qed.

Lemma conforming_all k ms : Forall (conforming k) ms -> msgs_ok k ms = true.
Proof.
  unfold msgs_ok. induction 1 as [|m ms H _ IH]; [reflexivity|].
  cbn [forallb]. rewrite (conforming_ok k m H), IH. reflexivity.
Qed.

