(* Facts about Model/Wire.v against Spec/WireSpec.v. *)
From Coq Require Import ZArith NArith List Bool Lia ZifyBool ZifyN ZifyNat Permutation.
From Pygls Require Import Base.Unicode Base.PyStr Base.Json Model.Wire Spec.WireSpec
  Proofs.UnicodeFacts Proofs.JsonProofs.
Ltac Zify.zify_post_hook ::= Z.to_euclidean_division_equations.
Open Scope N_scope.

(* one frame: the header block for a body of that many characters, then the body *)
Definition frame (body : list N) : list N := header (len body) ++ body.

(* ---------- the header block, as the strict decoder reads it ---------- *)
Definition no_cr (l : list N) : bool := forallb (fun c => negb (c =? 13)) l.
Definition no_colon (l : list N) : bool := forallb (fun c => negb (c =? 58)) l.

Lemma split_crlf_app l r : no_cr l = true -> split_crlf (l ++ 13 :: 10 :: r) = Some (l, r).
Proof.
  induction l as [|a l IH]; intros H; [reflexivity|].
  unfold no_cr in H. cbn [forallb] in H. apply andb_true_iff in H. destruct H as [Ha Hl].
  destruct l as [|c l'].
  - cbn [app split_crlf]. replace (a =? 13) with false by lia. cbn [andb]. reflexivity.
  - specialize (IH Hl). cbn [app] in IH |- *.
    change (split_crlf (a :: c :: l' ++ 13 :: 10 :: r)) with
      (if (a =? 13) && (c =? 10) then Some ([], l' ++ 13 :: 10 :: r)
       else match split_crlf (c :: l' ++ 13 :: 10 :: r) with
            | Some (l, rest) => Some (a :: l, rest) | None => None end).
    replace (a =? 13) with false by lia. cbn [andb]. rewrite IH. reflexivity.
Qed.

Lemma split_colon_app name v : no_colon name = true -> split_colon (name ++ 58 :: v) = Some (name, v).
Proof.
  induction name as [|a l IH]; intros H; [reflexivity|].
  unfold no_colon in H. cbn [forallb] in H. apply andb_true_iff in H. destruct H as [Ha Hl].
  cbn [app split_colon]. replace (a =? 58) with false by lia. rewrite (IH Hl). reflexivity.
Qed.

Lemma skip_ows_digits s : Forall (fun d => 48 <= d <= 57) s -> skip_ows s = s.
Proof.
  intros H. destruct H as [|d s Hd Hs]; [reflexivity|].
  cbn [skip_ows]. replace ((d =? 32) || (d =? 9)) with false by lia. reflexivity.
Qed.

Lemma digits_no_cr n : no_cr (digits n) = true.
Proof.
  unfold no_cr. apply forallb_forall. intros x Hx.
  pose proof (digits_are_digits n) as H. rewrite Forall_forall in H. specialize (H x Hx). lia.
Qed.

Module HLit.
  Import Coq.Strings.String.
  Definition cl_name := Eval vm_compute in Lit.lit "Content-Length".
  Definition ct_name := Eval vm_compute in Lit.lit "Content-Type".
  Definition ct_value := Eval vm_compute in Lit.lit " application/vscode-jsonrpc; charset=utf-8".
End HLit.

Lemma header_eq n x :
  header n ++ x =
  (HLit.cl_name ++ 58 :: 32 :: digits n) ++ 13 :: 10 ::
  (HLit.ct_name ++ 58 :: HLit.ct_value) ++ 13 :: 10 :: 13 :: 10 :: x.
Proof.
  unfold header, CRLF. cbn [WLit.content_length HLit.cl_name app].
  repeat rewrite <- app_assoc. cbn [app]. reflexivity.
Qed.

Lemma header_decodes f1 f2 f3 fuel n x :
  headers (f1 :: f2 :: f3 :: fuel) (header n ++ x) None = Some (n, x).
Proof.
  rewrite header_eq.
  (* first line: Content-Length *)
  cbn [headers]. rewrite split_crlf_app.
  2:{ unfold no_cr. rewrite forallb_app. cbn [forallb]. fold (no_cr (digits n)).
      rewrite digits_no_cr. reflexivity. }
  change (HLit.cl_name ++ 58 :: 32 :: digits n) with (67 :: tl HLit.cl_name ++ 58 :: 32 :: digits n) at 1.
  cbv iota. rewrite split_colon_app by reflexivity.
  change (is_content_length HLit.cl_name) with true. cbv iota.
  cbn [skip_ows]. change ((32 =? 32) || (32 =? 9)) with true. cbv iota.
  rewrite skip_ows_digits by apply digits_are_digits. rewrite parse_dec_digits.
  (* second line: Content-Type *)
  rewrite split_crlf_app by reflexivity.
  change (HLit.ct_name ++ 58 :: HLit.ct_value) with (67 :: tl HLit.ct_name ++ 58 :: HLit.ct_value) at 1.
  cbv iota. rewrite split_colon_app by reflexivity.
  change (is_content_length HLit.ct_name) with false. cbv iota.
  change (valid_name HLit.ct_name) with true. cbv iota.
  (* the empty line *)
  reflexivity.
Qed.

Lemma header_length n : (3 <= length (header n))%nat.
Proof.
  pose proof (header_eq n []) as H. rewrite app_nil_r in H. rewrite H.
  rewrite app_length. cbn [length HLit.cl_name app]. lia.
Qed.

Lemma len_cons {A} (a : A) l : len (a :: l) = len l + 1.
Proof. unfold len. cbn [length]. lia. Qed.

Lemma take_exact_0 r : take_exact 0 r = Some ([], r).
Proof. destruct r; reflexivity. Qed.

Lemma take_exact_app b r : take_exact (len b) (b ++ r) = Some (b, r).
Proof.
  induction b as [|a b IH]; [apply take_exact_0|].
  rewrite len_cons. cbn [app take_exact].
  replace (len b + 1 =? 0) with false by lia.
  replace (len b + 1 - 1) with (len b) by lia. rewrite IH. reflexivity.
Qed.

(* ---------- frames self-delimit, whatever the bodies contain ---------- *)
Lemma header_decodes' hf n x : (3 <= length hf)%nat -> headers hf (header n ++ x) None = Some (n, x).
Proof.
  intros H. destruct hf as [|f1 [|f2 [|f3 t]]]; cbn [length] in H; try lia. apply header_decodes.
Qed.

Lemma decode_unfold f fuel bs : bs <> [] ->
  decode (f :: fuel) bs =
  match headers bs bs None with
  | None => None
  | Some (n, rest) =>
    match take_exact n rest with
    | None => None
    | Some (body, rest') =>
      match decode fuel rest' with Some bodies => Some (body :: bodies) | None => None end
    end
  end.
Proof. destruct bs; [congruence|reflexivity]. Qed.

Lemma decode_frame f fuel b rest :
  decode (f :: fuel) (frame b ++ rest) =
  match decode fuel rest with Some bodies => Some (b :: bodies) | None => None end.
Proof.
  unfold frame. rewrite <- app_assoc.
  assert (Hlen : (3 <= length (header (len b) ++ b ++ rest))%nat).
  { rewrite app_length. pose proof (header_length (len b)). lia. }
  rewrite decode_unfold.
  2:{ intros E. rewrite E in Hlen. cbn [length] in Hlen. lia. }
  rewrite header_decodes' by exact Hlen. rewrite take_exact_app. reflexivity.
Qed.

Lemma decode_frames bodies : forall fuel, (length bodies <= length fuel)%nat ->
  decode fuel (concat (map frame bodies)) = Some bodies.
Proof.
  induction bodies as [|b r IH]; intros fuel Hf.
  - destruct fuel; reflexivity.
  - cbn [map concat]. destruct fuel as [|f fuel]; [cbn [length] in Hf; lia|].
    rewrite decode_frame. rewrite IH; [reflexivity|]. cbn [length] in Hf. lia.
Qed.

Lemma frames_length bodies : (length bodies <= length (concat (map frame bodies)))%nat.
Proof.
  induction bodies as [|b r IH]; [apply le_n|].
  cbn [map concat length]. rewrite app_length. unfold frame at 1. rewrite app_length.
  pose proof (header_length (len b)). lia.
Qed.

Theorem spec_decode_frames bodies : spec_decode (concat (map frame bodies)) = Some bodies.
Proof. unfold spec_decode. apply decode_frames, frames_length. Qed.

(* ---------- what _send_data writes ---------- *)
Lemma header_ascii n : ascii (header n).
Proof.
  unfold header, CRLF. repeat (apply Forall_app; split); try (repeat constructor; lia).
  apply digits_ascii.
Qed.

Lemma py_encode_ascii s : ascii s -> py_encode_utf8 s = Some s.
Proof.
  intros H. unfold py_encode_utf8.
  replace (forallb (fun c => negb (is_surrogate c)) s) with true.
  - rewrite ascii_utf8 by exact H. reflexivity.
  - symmetry. apply forallb_forall. rewrite Forall_forall in H. intros x Hx. specialize (H x Hx).
    unfold is_surrogate. lia.
Qed.

(* the number in the header counts characters; the reader counts bytes: they agree *)
Theorem header_len_is_byte_len j : len (dumps j) = len (utf8_enc_all (dumps j)).
Proof. rewrite ascii_utf8 by apply dumps_ascii. reflexivity. Qed.

Lemma frame_ascii j : ascii (frame (dumps j)).
Proof. unfold frame. apply Forall_app. split; [apply header_ascii|apply dumps_ascii]. Qed.

Lemma framed_inv c : framed c = true -> include_headers c = true /\ writer c <> WNone.
Proof.
  unfold framed. intros H. apply andb_true_iff in H. destruct H as [H1 H2].
  split; [exact H1|]. intros E. rewrite E in H2. discriminate.
Qed.

Lemma send_data_tree c j : framed c = true ->
  send_data c (Tree true j) = ([Write (frame (dumps j))], RetNone).
Proof.
  intros H. apply framed_inv in H. destruct H as [Hh Hw].
  unfold send_data. cbn [negb]. rewrite Hh.
  fold (frame (dumps j)). rewrite (py_encode_ascii _ (frame_ascii j)).
  destruct (writer c); [congruence|reflexivity..].
Qed.

Lemma send_data_unser c : writer c <> WNone -> send_data c (Unser true) = ([], RetFalse).
Proof. intros Hw. unfold send_data. cbn [negb]. destruct (writer c); [congruence|reflexivity..]. Qed.

Lemma send_data_falsy c j : send_data c (Tree false j) = ([], RetNone).
Proof. reflexivity. Qed.

(* the JSON trees a sending call puts on the wire (the model's layout of the four messages) *)
Definition sent_trees (s : send) : list json :=
  match s with
  | SResponse id (Some r) => [response_tree id r]
  | SResponse id None => [error_response_tree id internal_error]
  | SError id e => [error_response_tree id e]
  | SNotify m (Some p) => [notification_tree m p]
  | SRequest id m (Some p) => [request_tree id m p]
  | SNotify _ None | SRequest _ _ None => []
  | SRaw (Some j) => if truthy j then [j] else []
  | SRaw None => []
  end.

Definition wr (j : json) : call := Write (frame (dumps j)).

Theorem do_send_frames c s : framed c = true -> do_send c s = map wr (sent_trees s).
Proof.
  intros H. pose proof (framed_inv c H) as [_ Hw].
  destruct s as [id [r|] | id e | m [p|] | id m [p|] | [j|]]; cbn [do_send sent_trees map].
  - unfold send_response, msg. rewrite send_data_tree by exact H. reflexivity.
  - unfold send_response, msg. rewrite send_data_unser by exact Hw.
    rewrite send_data_tree by exact H. reflexivity.
  - unfold send_response. rewrite send_data_tree by exact H. reflexivity.
  - unfold notify, msg. rewrite send_data_tree by exact H. reflexivity.
  - unfold notify, msg. rewrite send_data_unser by exact Hw. reflexivity.
  - unfold send_request, msg. rewrite send_data_tree by exact H. reflexivity.
  - unfold send_request, msg. rewrite send_data_unser by exact Hw. reflexivity.
  - destruct (truthy j); [rewrite send_data_tree by exact H|]; reflexivity.
  - rewrite send_data_unser by exact Hw. reflexivity.
Qed.

(* every sending call makes at most one writer.write call per message, each a whole frame *)
Definition frame_ops (w : wkind) (j : json) : list top := writer_write w (frame (dumps j)).

Lemma send_ops_frames c s : framed c = true ->
  send_ops c s = flat_map (frame_ops (writer c)) (sent_trees s).
Proof.
  intros H. unfold send_ops. rewrite do_send_frames by exact H.
  induction (sent_trees s) as [|j r IH]; [reflexivity|].
  cbn [map flat_map]. rewrite IH. reflexivity.
Qed.

Lemma sender_ops_frames c ss : framed c = true ->
  sender_ops c ss = flat_map (frame_ops (writer c)) (flat_map sent_trees ss).
Proof.
  intros H. unfold sender_ops. induction ss as [|s r IH]; [reflexivity|].
  cbn [flat_map]. rewrite IH, send_ops_frames by exact H. rewrite flat_map_app. reflexivity.
Qed.

Lemma stream_app a b : stream (a ++ b) = stream a ++ stream b.
Proof. unfold stream. apply flat_map_app. Qed.

Lemma stream_frame_ops w j : w <> WNone -> stream (frame_ops w j) = frame (dumps j).
Proof.
  intros Hw. unfold frame_ops, writer_write, stdout_writer_write, stream.
  destruct w; [congruence|..]; cbn [flat_map op_data app]; rewrite ?app_nil_r; reflexivity.
Qed.

Lemma stream_frames w js : w <> WNone ->
  stream (flat_map (frame_ops w) js) = concat (map frame (map dumps js)).
Proof.
  intros Hw. induction js as [|j r IH]; [reflexivity|].
  cbn [flat_map map concat]. rewrite stream_app, stream_frame_ops, IH by exact Hw. reflexivity.
Qed.

(* (ii) for the model: whatever one sender sends, the strict decoder recovers exactly the bodies *)
Theorem sender_stream_decodes c ss : framed c = true ->
  spec_decode (stream (sender_ops c ss)) = Some (map dumps (flat_map sent_trees ss)).
Proof.
  intros H. pose proof (framed_inv c H) as [_ Hw].
  rewrite sender_ops_frames by exact H. rewrite stream_frames by exact Hw.
  apply spec_decode_frames.
Qed.

(* ---------- schedules: merging atomic operations ---------- *)
Lemma interleave_prefix {A} (pre : list A) : forall l1 q l2 out,
  interleave (l1 ++ q :: l2) out -> interleave (l1 ++ (pre ++ q) :: l2) (pre ++ out).
Proof.
  induction pre as [|x pre IH]; intros l1 q l2 out H; [exact H|].
  cbn [app]. apply il_step. apply IH. exact H.
Qed.

(* replacing every operation by the (possibly empty) list of things it emits commutes with merging *)
Lemma interleave_flat_map {A B} (g : A -> list B) qs out :
  interleave qs out -> interleave (map (flat_map g) qs) (flat_map g out).
Proof.
  induction 1 as [qs Hall | qs1 x q qs2 out H IH].
  - apply il_done. apply Forall_forall. intros q Hq. apply in_map_iff in Hq.
    destruct Hq as (q0 & E & Hin). rewrite Forall_forall in Hall. rewrite (Hall q0 Hin) in E.
    subst q. reflexivity.
  - rewrite map_app in IH |- *. cbn [map flat_map] in IH |- *. apply interleave_prefix. exact IH.
Qed.

(* a merge of mapped lists is the map of a merge *)
Lemma interleave_map_inv {A B} (F : A -> B) : forall qs out,
  interleave qs out -> forall ls, qs = map (map F) ls ->
  exists order, interleave ls order /\ out = map F order.
Proof.
  induction 1 as [qs Hall | qs1 x q qs2 out H IH]; intros ls E.
  - exists []. split; [|reflexivity]. apply il_done. subst qs.
    apply Forall_forall. intros l Hl. rewrite Forall_forall in Hall.
    specialize (Hall (map F l) (in_map _ _ _ Hl)). destruct l; [reflexivity|discriminate].
  - symmetry in E. apply map_eq_app in E. destruct E as (ls1 & ls2' & E & E1 & E2).
    destruct ls2' as [|l ls2]; [discriminate|]. cbn [map] in E2. injection E2 as Eq E2.
    destruct l as [|y l]; [discriminate|]. cbn [map] in Eq. injection Eq as Ex Eq.
    destruct (IH (ls1 ++ l :: ls2)) as (order & Hi & Ho).
    { rewrite map_app. cbn [map]. subst. reflexivity. }
    exists (y :: order). split.
    + subst ls. apply il_step. exact Hi.
    + cbn [map]. subst. reflexivity.
Qed.

Definition op_chunk (o : top) : list (list N) := match o with TWrite d => [d] | TFlush => [] end.

Lemma stream_chunks ops : stream ops = concat (flat_map op_chunk ops).
Proof.
  induction ops as [|o r IH]; [reflexivity|].
  unfold stream in *. cbn [flat_map]. rewrite concat_app, IH. destruct o; cbn; rewrite ?app_nil_r; reflexivity.
Qed.

Lemma chunks_frame_ops w js : w <> WNone ->
  flat_map op_chunk (flat_map (frame_ops w) js) = map (fun j => frame (dumps j)) js.
Proof.
  intros Hw. induction js as [|j r IH]; [reflexivity|].
  cbn [flat_map map]. rewrite flat_map_app, IH. destruct w; [congruence|reflexivity..].
Qed.

(* (iv) any number of senders, any interleaving of their transport operations *)
Theorem merge_of_atomic_writes c (sss : list (list send)) ops :
  framed c = true -> interleave (map (sender_ops c) sss) ops ->
  exists order,
    interleave (map (flat_map sent_trees) sss) order /\
    stream ops = concat (map frame (map dumps order)) /\
    spec_decode (stream ops) = Some (map dumps order).
Proof.
  intros H Hi. pose proof (framed_inv c H) as [_ Hw].
  apply (interleave_flat_map op_chunk) in Hi. rewrite map_map in Hi.
  destruct (interleave_map_inv (fun j => frame (dumps j)) _ _ Hi (map (flat_map sent_trees) sss))
    as (order & Ho & Hc).
  { rewrite map_map. apply map_ext. intros ss.
    rewrite sender_ops_frames by exact H. apply chunks_frame_ops, Hw. }
  exists order. split; [exact Ho|].
  assert (E : stream ops = concat (map frame (map dumps order))).
  { rewrite stream_chunks, Hc, map_map. reflexivity. }
  split; [exact E|]. rewrite E. apply spec_decode_frames.
Qed.

(* the executable schedule runner produces interleavings (so the theorem covers what the
   correspondence run executes) *)
Lemma pick_spec {A} : forall i (qs : list (list A)) x qs',
  pick i qs = Some (x, qs') ->
  exists l1 q l2, qs = l1 ++ (x :: q) :: l2 /\ qs' = l1 ++ q :: l2.
Proof.
  induction i as [|i IH]; intros qs x qs' H; destruct qs as [|q r]; cbn [pick] in H; try discriminate.
  - destruct q as [|y q']; [discriminate|]. injection H as -> <-. exists [], q', r. split; reflexivity.
  - destruct (pick i r) as [[y r']|] eqn:E; [|discriminate]. injection H as -> <-.
    destruct (IH r x r' E) as (l1 & q0 & l2 & -> & ->). exists (q :: l1), q0, l2. split; reflexivity.
Qed.

Lemma interleave_skip {A} (qs : list (list A)) out : interleave qs out -> interleave ([] :: qs) out.
Proof.
  induction 1 as [qs Hall | qs1 x q qs2 out H IH].
  - apply il_done. constructor; [reflexivity|exact Hall].
  - apply (il_step ([] :: qs1) x q qs2 out). exact IH.
Qed.

Lemma interleave_concat {A} (qs : list (list A)) : interleave qs (concat qs).
Proof.
  induction qs as [|q r IH]; [apply il_done; constructor|].
  cbn [concat]. pose proof (interleave_prefix q [] [] r (concat r)) as P.
  cbn [app] in P. rewrite app_nil_r in P. apply P. apply interleave_skip. exact IH.
Qed.

Lemma run_schedule_interleave {A} sched : forall (qs : list (list A)), interleave qs (run_schedule sched qs).
Proof.
  induction sched as [|i rest IH]; intros qs; cbn [run_schedule]; [apply interleave_concat|].
  destruct (pick i qs) as [[x qs']|] eqn:E; [|apply IH].
  destruct (pick_spec _ _ _ _ E) as (l1 & q & l2 & -> & ->). apply il_step. apply IH.
Qed.

(* ---------- (v) blocking writer: the frame is flushed before the sending call returns ---------- *)
Lemma transport_app ops1 ops2 :
  transport (ops1 ++ ops2) = fold_left top_step ops2 (transport ops1).
Proof. unfold transport. apply fold_left_app. Qed.

Lemma transport_stream ops : fst (transport ops) ++ snd (transport ops) = stream ops.
Proof.
  induction ops as [|o r IH] using rev_ind; [reflexivity|].
  rewrite transport_app, stream_app. cbn [fold_left]. rewrite <- IH.
  destruct o; cbn [top_step fst snd stream flat_map op_data]; rewrite ?app_nil_r, ?app_assoc; reflexivity.
Qed.

Lemma transport_flush ops : transport (ops ++ [TFlush]) = (stream ops, []).
Proof.
  rewrite transport_app. cbn [fold_left top_step]. rewrite transport_stream. reflexivity.
Qed.

Theorem flush_last c s : framed c = true -> writer c = WStdout ->
  send_ops c s = flat_map (fun j => [TWrite (frame (dumps j)); TFlush]) (sent_trees s) /\
  (sent_trees s <> [] -> forall before,
     transport (before ++ send_ops c s) = (stream (before ++ send_ops c s), [])).
Proof.
  intros H Hw. rewrite send_ops_frames by exact H. rewrite Hw.
  split; [reflexivity|]. intros Hne before.
  destruct (sent_trees s) as [|j r] using rev_ind; [congruence|].
  rewrite flat_map_app. cbn [flat_map frame_ops writer_write stdout_writer_write app].
  replace (before ++ flat_map (frame_ops WStdout) r ++ [TWrite (frame (dumps j)); TFlush])
    with ((before ++ flat_map (frame_ops WStdout) r ++ [TWrite (frame (dumps j))]) ++ [TFlush])
    by (repeat rewrite <- app_assoc; reflexivity).
  rewrite transport_flush. f_equal. rewrite !stream_app. cbn. rewrite ?app_nil_r. reflexivity.
Qed.

(* ---------- the model's messages are the JSON-RPC envelopes the spec asks for ---------- *)
(* object members are compared as a set: Permutation *)
Definition matches (j : json) (e : expect) : Prop :=
  match e with
  | Exact ms => exists l, j = JObj l /\ Permutation l ms
  | InternalErrorFor id =>
      exists msg l, j = JObj l /\
        Permutation l [(SLit.jsonrpc, JStr SLit.v2); (SLit.id, id);
                       (SLit.error, JObj [(SLit.code, JInt (-32603)); (SLit.message, JStr msg)])]
  end.

Lemma opt_field_unless k v : opt_field k v = unless_null k v.
Proof. reflexivity. Qed.

Lemma id_ok_opt_field k id : id_ok id = true -> opt_field k id = [(k, id)].
Proof. destruct id; try discriminate; reflexivity. Qed.

Theorem sent_trees_expected s : send_guard s = true -> Forall2 matches (sent_trees s) (expected s).
Proof.
  destruct s as [id [r|] | id e | m [p|] | id m [p|] | d]; cbn [send_guard sent_trees expected]; intros G;
    try discriminate; repeat (apply andb_true_iff in G; destruct G as [G ?]).
  - constructor; [|constructor]. eexists. split; [reflexivity|]. apply perm_swap.
  - constructor; [|constructor]. exists WLit.unable. eexists. split; [reflexivity|].
    unfold error_response_tree. rewrite id_ok_opt_field by assumption.
    apply (Permutation_cons_append [_; _] _).
  - constructor; [|constructor]. eexists. split; [reflexivity|].
    rewrite id_ok_opt_field by assumption. unfold error_tree. rewrite opt_field_unless.
    apply (Permutation_cons_append [_; _] _).
  - constructor; [|constructor]. eexists. split; [reflexivity|].
    rewrite opt_field_unless. cbn [app]. apply perm_swap.
  - constructor.
  - constructor; [|constructor]. eexists. split; [reflexivity|].
    rewrite opt_field_unless. apply Permutation_app_tail. symmetry.
    apply (Permutation_cons_append [_; _] _).
  - constructor.
Qed.

Lemma Forall2_flat_map {A B C} (R : B -> C -> Prop) (f : A -> list B) (g : A -> list C) l :
  Forall (fun a => Forall2 R (f a) (g a)) l -> Forall2 R (flat_map f l) (flat_map g l).
Proof.
  induction 1 as [|a l Ha Hl IH]; [constructor|]. cbn [flat_map]. apply Forall2_app; assumption.
Qed.

(* what the correspondence run uses as S: the strict decoder applied to everything a sender wrote
   yields one body per expected message, each the dumps of a tree that is that message *)
Theorem sender_meets_expectations c ss : framed c = true -> forallb send_guard ss = true ->
  exists bodies, spec_decode (stream (sender_ops c ss)) = Some bodies /\
    Forall2 (fun b e => exists j, b = dumps j /\ matches j e) bodies (flat_map expected ss).
Proof.
  intros H G. exists (map dumps (flat_map sent_trees ss)). split; [apply sender_stream_decodes, H|].
  assert (F : Forall2 matches (flat_map sent_trees ss) (flat_map expected ss)).
  { apply Forall2_flat_map. apply Forall_forall. intros s Hs. apply sent_trees_expected.
    rewrite forallb_forall in G. apply G, Hs. }
  induction F as [|j e js es Hje F IH]; [constructor|].
  cbn [map]. constructor; [exists j; split; [reflexivity|exact Hje]|exact IH].
Qed.

(* ---------- the decoded bodies read back as the expected messages ---------- *)
Lemma id_ok_wf id : id_ok id = true -> json_wf id = true.
Proof. destruct id; try discriminate; intros H; exact H. Qed.

Lemma opt_field_wf k v : str_ok k = true -> json_wf v = true ->
  forallb (fun kv => str_ok (fst kv) && json_wf (snd kv)) (opt_field k v) = true.
Proof.
  intros Hk Hv. destruct v; cbn [opt_field forallb fst snd]; rewrite ?Hk; cbn [json_wf] in Hv |- *;
    rewrite ?Hv; reflexivity.
Qed.

Lemma obj_wf_app a b :
  forallb (fun kv => str_ok (fst kv) && json_wf (snd kv)) a = true ->
  forallb (fun kv => str_ok (fst kv) && json_wf (snd kv)) b = true ->
  json_wf (JObj (a ++ b)) = true.
Proof. intros Ha Hb. cbn [json_wf]. rewrite forallb_app, Ha, Hb. reflexivity. Qed.

Lemma error_response_tree_wf id e : id_ok id = true -> str_ok (e_message e) = true ->
  json_wf (e_data e) = true -> json_wf (error_response_tree id e) = true.
Proof.
  intros Hi Hm Hd. unfold error_response_tree. apply obj_wf_app.
  - assert (He : json_wf (error_tree e) = true).
    { unfold error_tree. apply obj_wf_app; [|apply opt_field_wf; [reflexivity|exact Hd]].
      cbn [forallb fst snd json_wf]. rewrite Hm. reflexivity. }
    cbn [forallb fst snd]. rewrite He. reflexivity.
  - apply opt_field_wf; [reflexivity|apply id_ok_wf, Hi].
Qed.

Lemma sent_trees_wf s : send_guard s = true -> Forall (fun j => json_wf j = true) (sent_trees s).
Proof.
  destruct s as [id [r|] | id e | m [p|] | id m [p|] | d]; cbn [send_guard sent_trees payload_wf]; intros G;
    try discriminate;
    repeat match goal with H : _ && _ = true |- _ => apply andb_true_iff in H; destruct H end;
    repeat constructor.
  - unfold response_tree. cbn [json_wf forallb fst snd]. rewrite (id_ok_wf id) by assumption.
    replace (json_wf r) with true by (symmetry; assumption). reflexivity.
  - apply error_response_tree_wf; [assumption|reflexivity|reflexivity].
  - apply error_response_tree_wf; assumption.
  - unfold notification_tree. apply obj_wf_app; [|apply opt_field_wf; [reflexivity|assumption]].
    cbn [forallb fst snd json_wf]. replace (str_ok m) with true by (symmetry; assumption). reflexivity.
  - unfold request_tree. apply obj_wf_app; [|apply opt_field_wf; [reflexivity|assumption]].
    cbn [forallb fst snd json_wf]. rewrite (id_ok_wf id) by assumption.
    replace (str_ok m) with true by (symmetry; assumption). reflexivity.
Qed.

Theorem sender_reads_back c ss : framed c = true -> forallb send_guard ss = true ->
  exists bodies, spec_decode (stream (sender_ops c ss)) = Some bodies /\
    Forall2 (fun b e => exists j, loads_chars b = Some j /\ matches j e) bodies (flat_map expected ss).
Proof.
  intros H G. exists (map dumps (flat_map sent_trees ss)). split; [apply sender_stream_decodes, H|].
  assert (F : Forall2 (fun j e => json_wf j = true /\ matches j e)
                      (flat_map sent_trees ss) (flat_map expected ss)).
  { apply Forall2_flat_map. apply Forall_forall. intros s Hs.
    rewrite forallb_forall in G. specialize (G s Hs).
    pose proof (sent_trees_wf s G) as W. pose proof (sent_trees_expected s G) as M.
    induction M as [|j e js es Hje M IHM]; [constructor|].
    inversion W; subst. constructor; [split; assumption|apply IHM; assumption]. }
  induction F as [|j e js es [Hw Hje] F IH]; [constructor|].
  cbn [map]. constructor; [|exact IH]. exists j. split; [apply loads_dumps, Hw|exact Hje].
Qed.

(* ---------- (v) in every calling context ---------- *)
Lemma send_ops_context_free x y c s : send_ops_in x c s = send_ops_in y c s.
Proof. reflexivity. Qed.

(* The last two operations of a send on the blocking writer are the write of its last frame and a
   flush; whatever ANY thread did to the transport before that flush (hist: an arbitrary history that
   contains the write), once the flush - the last thing the sending call does - has happened nothing
   is left in the buffer and the frame is on the pipe. *)
Theorem flushed_when_send_returns x c s : framed c = true -> writer c = WStdout -> sent_trees s <> [] ->
  exists pre d, send_ops_in x c s = pre ++ [TWrite d; TFlush] /\
    forall hist, In (TWrite d) hist ->
      snd (transport (hist ++ [TFlush])) = [] /\
      exists h1 h2, fst (transport (hist ++ [TFlush])) = stream h1 ++ d ++ stream h2.
Proof.
  intros H Hw Hne. unfold send_ops_in. rewrite send_ops_frames by exact H. rewrite Hw.
  destruct (exists_last Hne) as (l & j & ->).
  exists (flat_map (frame_ops WStdout) l), (frame (dumps j)). split.
  - rewrite flat_map_app. cbn [flat_map frame_ops writer_write stdout_writer_write app]. reflexivity.
  - intros hist Hin. rewrite transport_flush. split; [reflexivity|].
    destruct (in_split _ _ Hin) as (h1 & h2 & ->). exists h1, h2.
    cbn [fst]. rewrite stream_app. reflexivity.
Qed.

(* ---------- sessions: late and replaced transports ---------- *)
Lemma unseg_seg {W} (ops : list (sop W)) : unseg (fst (seg ops)) (snd (seg ops)) = ops.
Proof.
  induction ops as [|o r IH]; [reflexivity|].
  destruct o as [w h|s]; cbn [seg]; destruct (seg r) as [ss0 segs]; cbn [fst snd] in IH |- *.
  - unfold unseg in IH |- *. cbn [map app flat_map fst snd]. rewrite IH. reflexivity.
  - unfold unseg in IH |- *. cbn [map app]. rewrite IH. reflexivity.
Qed.

(* what one message looks like on a writer: a frame, or the bare body when headers are off *)
Definition render (c : cfg) (j : json) : list N :=
  if include_headers c then frame (dumps j) else dumps j.

Lemma send_data_render c j : writer c <> WNone ->
  send_data c (Tree true j) = ([Write (render c j)], RetNone).
Proof.
  intros Hw. unfold send_data, render. cbn [negb].
  destruct (include_headers c).
  - fold (frame (dumps j)). rewrite (py_encode_ascii _ (frame_ascii j)).
    destruct (writer c); [congruence|reflexivity..].
  - rewrite (py_encode_ascii _ (dumps_ascii j)). destruct (writer c); [congruence|reflexivity..].
Qed.

Theorem do_send_render c s : writer c <> WNone ->
  do_send c s = map (fun j => Write (render c j)) (sent_trees s).
Proof.
  intros Hw.
  destruct s as [id [r|] | id e | m [p|] | id m [p|] | [j|]]; cbn [do_send sent_trees map].
  - unfold send_response, msg. rewrite send_data_render by exact Hw. reflexivity.
  - unfold send_response, msg. rewrite send_data_unser by exact Hw.
    rewrite send_data_render by exact Hw. reflexivity.
  - unfold send_response. rewrite send_data_render by exact Hw. reflexivity.
  - unfold notify, msg. rewrite send_data_render by exact Hw. reflexivity.
  - unfold notify, msg. rewrite send_data_unser by exact Hw. reflexivity.
  - unfold send_request, msg. rewrite send_data_render by exact Hw. reflexivity.
  - unfold send_request, msg. rewrite send_data_unser by exact Hw. reflexivity.
  - destruct (truthy j); [rewrite send_data_render by exact Hw|]; reflexivity.
  - rewrite send_data_unser by exact Hw. reflexivity.
Qed.

Lemma do_send_no_writer c s : writer c = WNone -> do_send c s = [].
Proof.
  intros Hw.
  assert (D : forall d, send_data c d = ([], RetNone)).
  { intros d. unfold send_data. rewrite Hw. destruct d as [[|] j|[|]]; reflexivity. }
  destruct s as [id r | id e | m p | id m p | d]; cbn [do_send];
    unfold send_response, notify, send_request; rewrite ?D; reflexivity.
Qed.

(* every write call carries exactly one rendered message: the chunks a writer receives *)
Lemma chunks_sender_ops c ss : writer c <> WNone ->
  flat_map op_chunk (sender_ops c ss) = map (render c) (flat_map sent_trees ss).
Proof.
  intros Hw. unfold sender_ops. induction ss as [|s r IH]; [reflexivity|].
  cbn [flat_map]. rewrite flat_map_app, map_app, IH. f_equal.
  unfold send_ops. rewrite do_send_render by exact Hw.
  induction (sent_trees s) as [|j t IHt]; [reflexivity|].
  cbn [map flat_map]. rewrite flat_map_app, IHt. cbn [call_ops].
  destruct (writer c); [congruence|reflexivity..].
Qed.

Definition cur_out (st : pstate) (ss : list send) : list (nat * top) :=
  match p_writer st with
  | Some (i, _) => tag_ops i (sender_ops (p_cfg st) ss)
  | None => []
  end.

Lemma p_run_sends st ss rest :
  p_run st (map OSend ss ++ rest) = cur_out st ss ++ p_run st rest.
Proof.
  induction ss as [|s r IH].
  - unfold cur_out. cbn [map app sender_ops flat_map tag_ops]. destruct (p_writer st) as [[i w]|]; reflexivity.
  - cbn [map app p_run p_step]. rewrite IH. unfold cur_out.
    destruct (p_writer st) as [[i w]|]; [|reflexivity].
    unfold sender_ops, tag_ops. cbn [flat_map]. rewrite map_app, app_assoc. reflexivity.
Qed.

Fixpoint tagsegs (n : nat) (segs : list (wkind * bool * list send)) : list (nat * top) :=
  match segs with
  | [] => []
  | g :: r => tag_ops n (sender_ops {| writer := fst (fst g); include_headers := snd (fst g) |} (snd g))
              ++ tagsegs (S n) r
  end.

Lemma p_run_unseg segs : forall st ss0,
  p_run st (unseg ss0 segs) = cur_out st ss0 ++ tagsegs (p_next st) segs.
Proof.
  induction segs as [|[[w h] ss] r IH]; intros st ss0; unfold unseg.
  - cbn [flat_map]. rewrite p_run_sends. reflexivity.
  - cbn [flat_map fst snd]. rewrite p_run_sends. f_equal.
    cbn [app p_run p_step].
    pose proof (IH {| p_writer := Some (p_next st, w); p_headers := h; p_next := S (p_next st) |} ss) as E.
    unfold unseg in E. rewrite E. reflexivity.
Qed.

Lemma for_writer_app i a b : for_writer i (a ++ b) = for_writer i a ++ for_writer i b.
Proof. unfold for_writer. rewrite filter_app, map_app. reflexivity. Qed.

Lemma for_writer_tag i n ops : for_writer i (tag_ops n ops) = if Nat.eqb n i then ops else [].
Proof.
  unfold for_writer, tag_ops. induction ops as [|o r IH]; [destruct (Nat.eqb n i); reflexivity|].
  cbn [map filter fst]. destruct (Nat.eqb n i) eqn:E; cbn [map snd]; rewrite IH; reflexivity.
Qed.

Lemma for_writer_tagsegs_lt segs : forall n i, (i < n)%nat -> for_writer i (tagsegs n segs) = [].
Proof.
  induction segs as [|g r IH]; intros n i H; [reflexivity|].
  cbn [tagsegs]. rewrite for_writer_app, for_writer_tag.
  replace (Nat.eqb n i) with false by (symmetry; apply Nat.eqb_neq; lia).
  rewrite IH by lia. reflexivity.
Qed.

Lemma for_writer_tagsegs segs : forall n i w h ss, nth_error segs i = Some (w, h, ss) ->
  for_writer (n + i) (tagsegs n segs) = sender_ops {| writer := w; include_headers := h |} ss.
Proof.
  induction segs as [|g r IH]; intros n i w h ss H; [destruct i; discriminate|].
  cbn [tagsegs]. rewrite for_writer_app, for_writer_tag. destruct i as [|i].
  - cbn [nth_error] in H. injection H as ->. rewrite Nat.add_0_r, Nat.eqb_refl.
    rewrite for_writer_tagsegs_lt by lia. apply app_nil_r.
  - cbn [nth_error] in H. replace (Nat.eqb n (n + S i)) with false by (symmetry; apply Nat.eqb_neq; lia).
    replace (n + S i)%nat with (S n + i)%nat by lia. apply (IH (S n) i w h ss H).
Qed.

(* Everything writer number i ever receives is what ONE configuration - the one given to its own
   set_writer call - produces for exactly the sends made while it was installed, in order.  Sends made
   before the first set_writer (ss0) appear nowhere. *)
Theorem session_per_writer ss0 segs i w h ss : nth_error segs i = Some (w, h, ss) ->
  for_writer i (p_run p_init (unseg ss0 segs)) = sender_ops {| writer := w; include_headers := h |} ss.
Proof.
  intros H. rewrite p_run_unseg. unfold cur_out. cbn [p_init p_writer p_next app].
  exact (for_writer_tagsegs segs 0 i w h ss H).
Qed.


(* headers on: that writer's byte stream is a concatenation of whole frames, decoding to exactly the
   messages sent while it was installed *)
Theorem session_writer_frames ss0 segs i w ss : nth_error segs i = Some (w, true, ss) -> w <> WNone ->
  spec_decode (stream (for_writer i (p_run p_init (unseg ss0 segs)))) =
  Some (map dumps (flat_map sent_trees ss)).
Proof.
  intros H Hw. rewrite (session_per_writer ss0 segs i w true ss H).
  apply sender_stream_decodes. unfold framed. cbn [include_headers writer andb].
  destruct w; [congruence|reflexivity..].
Qed.

(* headers off: no frame syntax at all; every write call carries exactly one whole body *)
Theorem session_writer_bare ss0 segs i w ss : nth_error segs i = Some (w, false, ss) -> w <> WNone ->
  flat_map op_chunk (for_writer i (p_run p_init (unseg ss0 segs))) =
  map dumps (flat_map sent_trees ss).
Proof.
  intros H Hw. rewrite (session_per_writer ss0 segs i w false ss H).
  rewrite chunks_sender_ops by exact Hw. reflexivity.
Qed.
