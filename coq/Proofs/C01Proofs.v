(* Proofs/C01Proofs.v - from the balance invariant to the clauses of C01.

   guard c evs (working transport, no `exit`, F18 class excluded) gives, with s := run c evs:
     seen_is_expected          the ids the model owes a reply are the reference's `expected evs`
     balance_run               forall i, bal i s = count_id i (expected evs)
     at_most_one_reply         NoDup (req_ids evs) -> replies i (out s) <= 1
     reply_answers_request     a reply to i was written -> a request with id i is in the history and
                               the reference owes it a reply
     exactly_one_at_quiescence quiescent s -> replies i (out s) = count_id i (expected evs)
     quiescence_reachable      run c (evs ++ drain ..) is quiescent *)
From Coq Require Import ZArith NArith List Bool Lia Arith.
From Pygls Require Import Base.Assoc Model.Endpoint Spec.EndpointSpec Proofs.EndpointInv.
Import ListNotations.

(* ------------------------------------------------------------------ the guard, event by event *)
Lemma existsb_false_forall : forall (A : Type) (p : A -> bool) l,
  existsb p l = false -> Forall (fun x => p x = false) l.
Proof.
  intros A p l. induction l as [|x r IH]; cbn [existsb]; intro H; constructor.
  - apply orb_false_iff in H. apply H.
  - apply IH. apply orb_false_iff in H. apply H.
Qed.

Lemma guard_frames : forall c evs, guard c evs = true ->
  c_wfail c = None /\ Forall (frame_ok c) evs.
Proof.
  intros c evs H. unfold guard in H. apply andb_true_iff in H. destruct H as [H H3].
  apply andb_true_iff in H. destruct H as [H1 H2].
  split.
  - unfold no_wfail in H1. destruct (c_wfail c); [discriminate|reflexivity].
  - apply negb_true_iff in H3. apply existsb_false_forall in H3.
    apply negb_true_iff in H2. unfold f18_class in H2.
    assert (T : awaitable c = true -> Forall (fun e => thread_request e = false) evs).
    { intro A. rewrite A in H2. cbn [andb] in H2. apply existsb_false_forall. exact H2. }
    clear H2. induction evs as [|e r IH]; constructor.
    + inversion H3; subst. split; [assumption|]. intro A. specialize (T A). inversion T; subst. assumption.
    + inversion H3; subst. apply IH; [assumption|]. intro A. specialize (T A). inversion T; subst. assumption.
Qed.

(* ------------------------------------------------------------------ model and reference agree *)
Lemma sp_step_agrees : forall c s e seen x, c_wfail c = None -> frame_ok c e -> Inv c s seen ->
  sp_shut x = shutdown s -> sp_exp x = seen ->
  sp_shut (sp_step x e) = shutdown (step c s e) /\ sp_exp (sp_step x e) = seen ++ answerable s e.
Proof.
  intros c s e seen x F FO I HS HE.
  destruct (inv_step_full c s e seen F FO I) as [_ SH]. rewrite SH. unfold shut_after.
  destruct I as [(_ & _ & _ & EX & _) _].
  unfold answerable. rewrite EX.
  destruct e as [f|t|t|j|j| | |i]; cbn [sp_step]; try (rewrite app_nil_r, orb_false_r; split; assumption).
  destruct f as [|v i ps m|v tag ps m|v i iserr ps]; try (rewrite app_nil_r, orb_false_r; split; assumption).
  - rewrite <- HS. clear SH. destruct ps; destruct v; destruct (sp_shut x) eqn:SX;
      cbn [andb negb orb sp_shut sp_exp]; rewrite ?app_nil_r, ?orb_false_r, ?HE;
      split; try reflexivity; try assumption.
  - destruct v; destruct ps; destruct m; cbn [sp_shut sp_exp]; rewrite ?app_nil_r, ?orb_false_r;
      split; assumption.
Qed.

Lemma agree_from : forall c evs s seen x, c_wfail c = None -> Forall (frame_ok c) evs -> Inv c s seen ->
  sp_shut x = shutdown s -> sp_exp x = seen ->
  sp_exp (fold_left sp_step evs x) = seen ++ seen_from c s evs /\
  sp_shut (fold_left sp_step evs x) = shutdown (fold_left (step c) evs s).
Proof.
  intros c evs. induction evs as [|e r IH]; intros s seen x F FO I HS HE; cbn [fold_left seen_from].
  - rewrite app_nil_r. split; assumption.
  - inversion FO as [|? ? H1 H2]; subst.
    destruct (sp_step_agrees c s e (sp_exp x) x F H1 I HS eq_refl) as [A1 A2].
    rewrite app_assoc. apply IH; try assumption.
    apply inv_step; assumption.
Qed.

Theorem seen_is_expected : forall c evs, guard c evs = true -> expected evs = seen_run c evs.
Proof.
  intros c evs H. destruct (guard_frames c evs H) as [F FO].
  unfold expected, sp_run, seen_run.
  destruct (agree_from c evs init [] sp_init F FO (inv_init c) eq_refl eq_refl) as [A _]. exact A.
Qed.

Theorem shutdown_is_reference : forall c evs, guard c evs = true ->
  shutdown (run c evs) = sp_shut (sp_run evs).
Proof.
  intros c evs H. destruct (guard_frames c evs H) as [F FO].
  destruct (agree_from c evs init [] sp_init F FO (inv_init c) eq_refl eq_refl) as [_ A]. symmetry. exact A.
Qed.

Theorem balance_run : forall c evs, guard c evs = true ->
  good c (run c evs) /\ forall i, bal i (run c evs) = count_id i (expected evs).
Proof.
  intros c evs H. destruct (guard_frames c evs H) as [F FO].
  destruct (inv_run c evs F FO) as [G B]. split; [exact G|].
  intro i. rewrite (seen_is_expected c evs H). apply B.
Qed.

(* ------------------------------------------------------------------ expected is drawn from the request ids *)
Lemma sp_exp_bound : forall i evs x,
  count_id i (sp_exp (fold_left sp_step evs x)) <= count_id i (sp_exp x) + count_id i (req_ids evs).
Proof.
  intros i evs. induction evs as [|e r IH]; intro x; cbn [fold_left].
  - unfold req_ids. cbn. lia.
  - specialize (IH (sp_step x e)).
    assert (H : count_id i (sp_exp (sp_step x e)) <= count_id i (sp_exp x) + count_id i (req_id e)).
    { destruct e as [f|t|t|j|j| | |k]; cbn [sp_step req_id]; try (cbn; lia).
      destruct f as [|v k ps m|v tag ps m|v k iserr ps]; try (cbn; lia).
      - destruct ps.
        + destruct (v && negb (sp_shut x)); cbn [sp_exp].
          * rewrite count_id_app. lia.
          * lia.
        + cbn [sp_exp]. rewrite count_id_app. lia.
        + cbn [sp_exp]. rewrite count_id_app. lia.
      - destruct v; [|cbn; lia]. destruct ps; try (cbn; lia). destruct m; cbn [sp_exp count_id]; unfold count_id; cbn [filter length sp_exp]; lia. }
    unfold req_ids in *. cbn [flat_map]. rewrite count_id_app. lia.
Qed.

Lemma expected_bound : forall i evs, count_id i (expected evs) <= count_id i (req_ids evs).
Proof. intros i evs. unfold expected, sp_run. pose proof (sp_exp_bound i evs sp_init) as H. cbn in H. exact H. Qed.

Lemma count_id_nodup : forall i l, NoDup l -> count_id i l <= 1.
Proof.
  intros i l ND. induction ND as [|x r Hni ND IH]; [cbn; lia|].
  unfold count_id in *. cbn [filter]. destruct (id_eqb i x) eqn:E; [|exact IH].
  apply id_eqb_spec in E. subst x. cbn [length].
  assert (Z : filter (id_eqb i) r = []).
  { clear IH ND. induction r as [|y r IH]; [reflexivity|]. cbn [filter].
    destruct (id_eqb i y) eqn:E.
    - apply id_eqb_spec in E. subst. exfalso. apply Hni. left. reflexivity.
    - apply IH. intro H. apply Hni. right. exact H. }
  rewrite Z. cbn. lia.
Qed.

Lemma count_id_pos_in : forall i l, 0 < count_id i l -> In i l.
Proof.
  intros i l. induction l as [|x r IH]; unfold count_id; cbn [filter length]; [lia|].
  destruct (id_eqb i x) eqn:E.
  - apply id_eqb_spec in E. subst. intros _. left. reflexivity.
  - intro H. right. apply IH. exact H.
Qed.

Lemma replies_le_bal : forall i s, replies i (out s) <= bal i s.
Proof. intros. unfold bal. lia. Qed.

(* ------------------------------------------------------------------ the clauses *)
Theorem at_most_one_reply : forall c evs i, guard c evs = true -> NoDup (req_ids evs) ->
  replies i (out (run c evs)) <= 1.
Proof.
  intros c evs i H ND. destruct (balance_run c evs H) as [_ B].
  pose proof (replies_le_bal i (run c evs)) as L. rewrite B in L.
  pose proof (expected_bound i evs). pose proof (count_id_nodup i _ ND). lia.
Qed.

Lemma replies_pos_in : forall i o, 0 < replies i o <-> exists p, In (OResp i p) o.
Proof.
  intros i o. unfold replies. induction o as [|f r IH]; cbn [filter length In].
  - split; [lia|intros [p []]].
  - destruct (is_reply i f) eqn:E; cbn [length].
    + split; [|lia]. intros _. destruct f as [j p| |]; try discriminate.
      cbn [is_reply] in E. apply id_eqb_spec in E. subst. exists p. left. reflexivity.
    + rewrite IH. split.
      * intros [p H]. exists p. right. exact H.
      * intros [p [H|H]]; [|exists p; exact H]. subst f. cbn [is_reply] in E. rewrite id_eqb_refl in E. discriminate.
Qed.

Theorem reply_answers_request : forall c evs i p, guard c evs = true ->
  In (OResp i p) (out (run c evs)) -> In i (expected evs) /\ In i (req_ids evs).
Proof.
  intros c evs i p H HI. destruct (balance_run c evs H) as [_ B].
  assert (P : 0 < replies i (out (run c evs))) by (apply replies_pos_in; exists p; exact HI).
  pose proof (replies_le_bal i (run c evs)) as L. rewrite B in L.
  split; apply count_id_pos_in; [lia|]. pose proof (expected_bound i evs). lia.
Qed.

Lemma sum_zero : forall (A : Type) (f : A -> nat) (p : A -> bool) l,
  forallb p l = true -> (forall x, p x = true -> f x = 0) -> sum f l = 0.
Proof.
  intros A f p l. induction l as [|x r IH]; intros H Hp; [reflexivity|].
  cbn [forallb] in H. apply andb_true_iff in H. destruct H as [H1 H2].
  cbn [sum fold_right]. fold (sum f r). rewrite (Hp x H1), (IH H2 Hp). reflexivity.
Qed.

Lemma quiescent_bal : forall i s, quiescent s = true -> bal i s = replies i (out s).
Proof.
  intros i s Q. unfold quiescent in Q.
  apply andb_true_iff in Q. destruct Q as [Q Q4].
  apply andb_true_iff in Q. destruct Q as [Q Q3].
  apply andb_true_iff in Q. destruct Q as [Q1 Q2].
  unfold bal.
  rewrite (sum_zero _ (ptask i) task_idle _ Q1), (sum_zero _ (pjob i) job_idle _ Q2).
  - destruct (wq s); [cbn; lia|discriminate].
  - intros jb Hj. unfold job_idle in Hj. unfold pjob. destruct (j_st jb); try discriminate; reflexivity.
  - intros tk Ht. unfold task_idle in Ht. unfold ptask. destruct (t_st tk); try discriminate; reflexivity.
Qed.

Theorem exactly_one_at_quiescence : forall c evs i, guard c evs = true ->
  quiescent (run c evs) = true -> replies i (out (run c evs)) = count_id i (expected evs).
Proof.
  intros c evs i H Q. destruct (balance_run c evs H) as [_ B].
  rewrite <- (quiescent_bal i _ Q). apply B.
Qed.

Corollary exactly_one_distinct : forall c evs i, guard c evs = true -> NoDup (req_ids evs) ->
  quiescent (run c evs) = true -> In i (expected evs) -> replies i (out (run c evs)) = 1.
Proof.
  intros c evs i H ND Q HI. rewrite (exactly_one_at_quiescence c evs i H Q).
  assert (0 < count_id i (expected evs)).
  { clear -HI. induction (expected evs) as [|x r IH]; [destruct HI|].
    unfold count_id. cbn [filter]. destruct (id_eqb i x) eqn:E; [cbn; lia|].
    destruct HI as [HI|HI]; [subst; rewrite id_eqb_refl in E; discriminate|]. apply IH. exact HI. }
  pose proof (expected_bound i evs). pose proof (count_id_nodup i _ ND). lia.
Qed.

(* ------------------------------------------------------------------ clause (4): draining *)
Lemma fr_app : forall (A : Type) (f : A -> nat) l1 l2,
  fold_right (fun x a => f x + a) 0 (l1 ++ l2) = fold_right (fun x a => f x + a) 0 l1 + fold_right (fun x a => f x + a) 0 l2.
Proof. intros. apply (sum_app A f l1 l2). Qed.

(* what a callback may change among the fields the measure reads: it appends frames *)
Definition grows (k : nat) (s s' : st) : Prop :=
  tasks s' = tasks s /\ jobs s' = jobs s /\ exitq s' = exitq s /\
  wsum wweight (wq s') <= wsum wweight (wq s) + k.

Lemma grows_run_cb : forall c sv cb r s, c_wfail c = None -> grows 2 s (run_cb c sv cb r s).
Proof.
  intros [w h f] sv cb r s F. cbn in F. subst f. destruct s.
  destruct w, h, sv, cb, r; unfold grows, run_cb, request_callback, notification_callback, send_response, send_data, hook,
    write_call, do_write, failing, fut_pop, rtype_pop, add_out, add_wq, add_err, snoc; cbn;
  repeat match goal with |- context [if ?b then _ else _] => destruct b; cbn end;
  repeat split; rewrite ?fr_app; cbn; try lia.
Qed.

Definition internal (e : ev) : Prop := match e with Recv _ | UserSend _ => False | _ => True end.

Lemma internal_frame_ok : forall c e, internal e -> frame_ok c e.
Proof. intros c e H. destruct e; try contradiction; split; try reflexivity; intros _; reflexivity. Qed.

Lemma in_enum_from : forall (A : Type) (l : list A) k n x,
  In (n, x) (enum_from k l) -> k <= n /\ nth_error l (n - k) = Some x.
Proof.
  intros A l. induction l as [|y r IH]; intros k n x H; cbn [enum_from In] in H; [contradiction|].
  destruct H as [H|H].
  - inversion H; subst. split; [lia|]. rewrite Nat.sub_diag. reflexivity.
  - destruct (IH _ _ _ H) as [H1 H2]. split; [lia|].
    replace (n - k) with (S (n - S k)) by lia. exact H2.
Qed.

Lemma wsum_upd_nth : forall (A : Type) (f : A -> nat) (g : A -> A) l t x,
  nth_error l t = Some x -> wsum f (upd_nth t g l) + f x = wsum f l + f (g x).
Proof. intros. apply (sum_upd_nth A f g l t x H). Qed.

Lemma measure_log : forall w p ph sv s, measure (log w p ph sv s) = measure s.
Proof. reflexivity. Qed.

Lemma measure_set_task_st : forall t x tk s, nth_error (tasks s) t = Some tk ->
  measure (set_task_st t x s) + task_weight tk =
  measure s + task_weight (mkT (t_who tk) (t_part tk) (t_cb tk) (t_b tk) x).
Proof.
  intros t x tk s N. unfold measure, set_task_st. proj.
  pose proof (wsum_upd_nth _ task_weight (fun tk0 => mkT (t_who tk0) (t_part tk0) (t_cb tk0) (t_b tk0) x) _ _ _ N) as H.
  cbv beta in H. lia.
Qed.

Lemma measure_set_job_st : forall j x jb s, nth_error (jobs s) j = Some jb ->
  measure (set_job_st j x s) + job_weight jb =
  measure s + job_weight (mkJ (j_who jb) (j_part jb) (j_cb jb) (j_b jb) x).
Proof.
  intros j x jb s N. unfold measure, set_job_st. proj.
  pose proof (wsum_upd_nth _ job_weight (fun jb0 => mkJ (j_who jb0) (j_part jb0) (j_cb jb0) (j_b jb0) x) _ _ _ N) as H.
  cbv beta in H. lia.
Qed.

Lemma measure_grows : forall k s s', grows k s s' -> measure s' <= measure s + k.
Proof. intros k s s' (E1 & E2 & E3 & E4). unfold measure. rewrite E1, E2, E3. lia. Qed.

Lemma task_step_decreases : forall t tk s a b m, nth_error (tasks s) t = Some tk -> t_st tk = TLive a b m ->
  measure (task_step t s) < measure s.
Proof.
  intros t tk s a b m N T. unfold task_step. rewrite N, T.
  assert (W : task_weight tk = b + 6) by (unfold task_weight; rewrite T; reflexivity).
  assert (SET : forall x s1, tasks s1 = tasks s -> measure s1 = measure s ->
            task_weight (mkT (t_who tk) (t_part tk) (t_cb tk) (t_b tk) x) < b + 6 ->
            measure (set_task_st t x s1) < measure s).
  { intros x s1 E1 M1 L. assert (N1 : nth_error (tasks s1) t = Some tk) by (rewrite E1; exact N).
    pose proof (measure_set_task_st t x tk s1 N1) as H. lia. }
  assert (ADV : forall a' s1, tasks s1 = tasks s -> measure s1 = measure s ->
            measure (task_advance t tk a' b s1) < measure s).
  { intros a' s1 E1 M1. unfold task_advance, task_finish.
    destruct a'; destruct b; apply SET; auto; unfold task_weight; cbn; lia. }
  destruct m.
  - destruct a; cbn [negb].
    + destruct (breact (t_b tk)).
      * apply SET; auto. unfold task_weight; cbn; lia.
      * apply ADV; auto.
    + apply SET; auto. unfold task_weight; cbn; lia.
  - apply ADV; auto.
Qed.

Lemma enabled_decreases : forall c s e, c_wfail c = None -> good c s -> In e (enabled s) ->
  internal e /\ measure (step c s e) < measure s.
Proof.
  intros c s e F G HI. pose proof G as (G1 & G2 & G3 & G4 & G5).
  unfold enabled in HI. rewrite G4 in HI. unfold step. rewrite G4.
  apply in_app_or in HI. destruct HI as [HI|HI].
  { apply in_flat_map in HI. destruct HI as [[t tk] [H1 H2]].
    apply in_enum_from in H1. destruct H1 as [_ N]. rewrite Nat.sub_0_r in N.
    unfold task_evs in H2. cbn [fst snd] in H2.
    destruct (t_st tk) as [a b m|r|r] eqn:T; cbn [In] in H2; try contradiction;
      destruct H2 as [H2|[]]; subst e; split; try exact I.
    - eapply task_step_decreases; eassumption.
    - unfold loop_cb. rewrite N, T.
      pose proof (measure_set_task_st t (TFin r) tk s N) as H.
      pose proof (measure_grows _ _ _ (grows_run_cb c Loop (t_cb tk) r (set_task_st t (TFin r) s) F)) as H'.
      unfold task_weight in H. rewrite T in H. cbn [t_st] in H. lia. }
  apply in_app_or in HI. destruct HI as [HI|HI].
  { apply in_flat_map in HI. destruct HI as [[j jb] [H1 H2]].
    apply in_enum_from in H1. destruct H1 as [_ N]. rewrite Nat.sub_0_r in N.
    unfold job_evs in H2. cbn [fst snd] in H2.
    destruct (j_st jb) eqn:J; cbn [In] in H2; try contradiction;
      destruct H2 as [H2|[]]; subst e; split; try exact I.
    - unfold job_start. rewrite N, J. rewrite measure_log.
      pose proof (measure_set_job_st j JRunning jb s N) as H.
      unfold job_weight in H. rewrite J in H. cbn [j_st] in H. lia.
    - unfold job_finish. rewrite N, J.
      set (r := res_of (bout (j_b jb))). set (s0 := log (j_who jb) (j_part jb) HEnd Pool s).
      assert (N0 : nth_error (jobs s0) j = Some jb) by exact N.
      pose proof (measure_set_job_st j (JDone r) jb s0 N0) as H.
      pose proof (measure_grows _ _ _ (grows_run_cb c Pool (j_cb jb) r (set_job_st j (JDone r) s0) F)) as H'.
      unfold job_weight in H. rewrite J in H. cbn [j_st] in H.
      assert (M0 : measure s0 = measure s) by reflexivity. lia. }
  apply in_app_or in HI. destruct HI as [HI|HI].
  { destruct (wq s) as [|w r] eqn:W; [destruct HI|]. destruct HI as [HI|[]]. subst e. split; [exact I|].
    unfold write_step. rewrite W. try rewrite W in G2. cbn [forallb] in G2. apply andb_true_iff in G2.
    destruct w as [f|rc]; [|destruct G2; discriminate].
    unfold do_write, failing. rewrite F. unfold set_wq at 1. proj. rewrite G1. cbn [fst].
    unfold measure, add_out, set_nwrites, set_wq. proj. try rewrite W. cbn [wsum fold_right wweight].
    fold (wsum wweight r). lia. }
  { rewrite G5 in HI. destruct HI. }
Qed.

Lemma flat_map_nil_tasks : forall l k, flat_map task_evs (enum_from k l) = [] -> forallb task_idle l = true.
Proof.
  induction l as [|tk r IH]; intros k H; [reflexivity|].
  cbn [enum_from flat_map] in H. apply app_eq_nil in H. destruct H as [H1 H2].
  cbn [forallb]. rewrite (IH _ H2), andb_true_r.
  unfold task_evs in H1. cbn [snd] in H1. unfold task_idle. destruct (t_st tk); try discriminate. reflexivity.
Qed.

Lemma flat_map_nil_jobs : forall l k, flat_map job_evs (enum_from k l) = [] -> forallb job_idle l = true.
Proof.
  induction l as [|jb r IH]; intros k H; [reflexivity|].
  cbn [enum_from flat_map] in H. apply app_eq_nil in H. destruct H as [H1 H2].
  cbn [forallb]. rewrite (IH _ H2), andb_true_r.
  unfold job_evs in H1. cbn [snd] in H1. unfold job_idle. destruct (j_st jb); try discriminate; reflexivity.
Qed.

Lemma enabled_nil_quiescent : forall s, exit s = None -> enabled s = [] -> quiescent s = true.
Proof.
  intros s E H. unfold enabled in H. rewrite E in H.
  apply app_eq_nil in H. destruct H as [H1 H].
  apply app_eq_nil in H. destruct H as [H2 H].
  apply app_eq_nil in H. destruct H as [H3 H4].
  unfold quiescent. rewrite (flat_map_nil_tasks _ _ H1), (flat_map_nil_jobs _ _ H2).
  destruct (wq s); [|discriminate]. destruct (exitq s); [reflexivity|discriminate].
Qed.

Lemma drain_quiescent : forall c n s seen, c_wfail c = None -> Inv c s seen -> measure s <= n ->
  Forall internal (drain c n s) /\ quiescent (fold_left (step c) (drain c n s) s) = true.
Proof.
  intros c n. induction n as [|n IH]; intros s seen F I M; cbn [drain].
  - split; [constructor|]. cbn [fold_left]. destruct I as [G _].
    destruct (enabled s) as [|e r] eqn:E.
    + apply enabled_nil_quiescent; [apply G|exact E].
    + exfalso. assert (HI : In e (enabled s)) by (rewrite E; left; reflexivity).
      destruct (enabled_decreases c s e F G HI) as [_ L]. lia.
  - pose proof I as [G _]. destruct (enabled s) as [|e r] eqn:E.
    + split; [constructor|]. cbn [fold_left]. apply enabled_nil_quiescent; [apply G|exact E].
    + assert (HI : In e (enabled s)) by (rewrite E; left; reflexivity).
      destruct (enabled_decreases c s e F G HI) as [HN L].
      assert (I' : Inv c (step c s e) (seen ++ answerable s e)).
      { apply inv_step; [exact F|apply internal_frame_ok; exact HN|exact I]. }
      destruct (IH (step c s e) _ F I') as [A B]; [lia|].
      split; [constructor; assumption|]. cbn [fold_left]. exact B.
Qed.

Theorem quiescence_reachable : forall c evs, guard c evs = true ->
  exists evs', Forall internal evs' /\ quiescent (run c (evs ++ evs')) = true.
Proof.
  intros c evs H. destruct (guard_frames c evs H) as [F FO].
  pose proof (inv_run c evs F FO) as I.
  exists (drain c (measure (run c evs)) (run c evs)).
  destruct (drain_quiescent c _ _ _ F I (le_n _)) as [A B].
  split; [exact A|]. unfold run in *. rewrite fold_left_app. exact B.
Qed.
