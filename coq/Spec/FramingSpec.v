(* What C02 / C15 promise about framing, independently of the loop: what a frame of the LSP base
   protocol is, which bodies a stream of frames carries, which bodies a truncated stream
   carries.  Shares only Base/ and the observation types (ev, term, kind) with the model. *)
From Pygls Require Export Base.Bytes Model.Framing.
Open Scope N_scope.

Definition CRLF : list N := [13; 10].
Definition CT_PREFIX : list N := [67;111;110;116;101;110;116;45;84;121;112;101;58;32].
                                 (* b"Content-Type: " *)
Definition CLEN_PREFIX : list N := [67;111;110;116;101;110;116;45;76;101;110;103;116;104;58;32].
                                 (* b"Content-Length: " *)

(* header layouts a conforming peer may emit: Content-Length alone, or with a Content-Type
   header (any value) after or before it *)
Inductive layout := LCl | LClCt (v : list N) | LCtCl (v : list N).

Definition cl_line (ds : list N) : list N := CLEN_PREFIX ++ ds ++ CRLF.
Definition ct_line (v : list N) : list N := CT_PREFIX ++ v ++ CRLF.

Definition header_block (lay : layout) (ds : list N) : list N :=
  match lay with
  | LCl => cl_line ds
  | LClCt v => cl_line ds ++ ct_line v
  | LCtCl v => ct_line v ++ cl_line ds
  end ++ CRLF.

(* a frame whose Content-Length is spelled by the digit string ds *)
Definition frame_ds (lay : layout) (ds : list N) (b : list N) : list N := header_block lay ds ++ b.
(* the usual spelling: decimal, no leading zeros, the byte length of the body *)
Definition frame (m : layout * list N) : list N := frame_ds (fst m) (dec (len (snd m))) (snd m).

Definition frames (ms : list (layout * list N)) : list N := concat (map frame ms).

(* what the protocol must be handed *)
Definition bodies_of (ms : list (layout * list N)) : list ev := map (fun m => Body (snd m)) ms.

(* ---- well-formedness, executable (the guard of the correspondence run) ---- *)

Definition no_lf (v : list N) : bool := forallb (fun c => negb (c =? 10)) v.
Definition all_digits (ds : list N) : bool := forallb is_digit ds.

Definition layout_value (lay : layout) : list N :=
  match lay with LCl => [] | LClCt v => v | LCtCl v => v end.

(* every header line fits the line limit of an asyncio StreamReader (index of its LF <= limit) *)
Definition fits (k : kind) (lay : layout) (ds : list N) : bool :=
  match k with
  | Stream lim =>
    (1 <=? lim) && (len (cl_line ds) - 1 <=? lim) &&
    match lay with LCl => true | LClCt v | LCtCl v => len (ct_line v) - 1 <=? lim end
  | _ => true
  end.

(* ds spells the length of b in at most 4300 decimal digits *)
Definition spells (ds : list N) (b : list N) : bool :=
  negb (is_nil ds) && all_digits ds && (int_of_digits ds =? len b) && (len ds <=? INT_MAX_STR_DIGITS).

Definition frame_ok (k : kind) (lay : layout) (ds b : list N) : bool :=
  negb (is_nil b) && no_lf (layout_value lay) && spells ds b && fits k lay ds.

Definition msg_ok (k : kind) (m : layout * list N) : bool :=
  frame_ok k (fst m) (dec (len (snd m))) (snd m).
Definition msgs_ok (k : kind) (ms : list (layout * list N)) : bool := forallb (msg_ok k) ms.

(* A message a conforming peer may send to a loop of kind k: a non-empty body of arbitrary bytes
   (shorter than 10^4300 bytes: int() refuses longer digit strings), an optional Content-Type
   header before or after Content-Length whose value has no LF, and - for the asyncio
   StreamReader only - header lines within the reader's line limit (64 KiB by default). *)
Definition conforming (k : kind) (m : layout * list N) : Prop :=
  snd m <> [] /\ len (snd m) < 10 ^ INT_MAX_STR_DIGITS /\
  no_lf (layout_value (fst m)) = true /\
  fits k (fst m) (dec (len (snd m))) = true.

(* ---- truncation (C15): what the first `cut` bytes of a stream of frames carry ----
   complete frames are delivered; of a frame cut inside its body a blocking reader at end of file
   returns the bytes that did arrive (the loop hands them to json.loads, which rejects them), a
   stream reader or a reset connection nothing; a frame cut inside its header block delivers
   nothing. *)
Definition short_delivery (k : kind) (e : ending) : bool :=
  match k, e with
  | StdinPool, AtEOF | Sync, AtEOF => true
  | _, _ => false
  end.

Fixpoint cut_bodies (short : bool) (ms : list (layout * list N)) (cut : N) : list ev :=
  match ms with
  | [] => []
  | m :: r =>
    let f := frame m in
    if len f <=? cut then Body (snd m) :: cut_bodies short r (cut - len f)
    else
      let h := len f - len (snd m) in           (* length of the header block *)
      if short && (h <? cut) then [Body (take (cut - h) (snd m))] else []
  end.

(* how the loop must end: normally, for every reader and either ending *)
Definition cut_term (k : kind) (e : ending) : term := EndedNormally.
