(* What C20 promises about the wire: every begin / report / end is exactly one $/progress
   notification carrying that token and value, in call order - nothing else ever produces one. *)
From Coq Require Import ZArith NArith List Bool.
From Pygls Require Export Model.Progress.
Import ListNotations.

Fixpoint spec_progress (evs : list pev) : list (id * N * N) :=
  match evs with
  | [] => []
  | PBegin tok v :: r => (tok, 0%N, v) :: spec_progress r
  | PReport tok v :: r => (tok, 1%N, v) :: spec_progress r
  | PEnd tok v :: r => (tok, 2%N, v) :: spec_progress r
  | _ :: r => spec_progress r
  end.

(* the $/progress notifications among what was written *)
Fixpoint progress_frames (o : list wire) : list (id * N * N) :=
  match o with
  | [] => []
  | WProgress tok k v :: r => (tok, k, v) :: progress_frames r
  | _ :: r => progress_frames r
  end.

(* tokens for which begin() has been called *)
Fixpoint begun (evs : list pev) : list id :=
  match evs with
  | [] => []
  | PBegin tok _ :: r => tok :: begun r
  | _ :: r => begun r
  end.


(* the create request behind future o was acknowledged with a result (and, for create_async,
   the coroutine has continued) for token tok *)
Definition acked_for (tok : id) (o : ofut) : bool :=
  is_resolved (ost o) &&
  ((match ocb o with CbCreate t _ => id_eqb t tok | _ => false end) ||
   (match owait o with WDone t => id_eqb t tok | _ => false end)).
