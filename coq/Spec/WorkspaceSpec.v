(* What "the workspace equals the fold of the sync history" means: a reference fold over an
   abstract observation of the workspace, written over lookup FUNCTIONS (what a client of the
   public API can ask), not over dictionaries.  From the model side only the data types are used
   (op, nbcell, notebook, structure, cellchange; Doc.doc and Doc's change application, which is
   C04's subject: this reference says WHICH document receives WHICH change in WHICH order).

   The reference is TOTAL: it says what every notification does, also one that refers to something
   that is not open (nothing, except that the server reports an error; see `spec_step`).

   Differences from the code that the well-formedness predicate makes invisible (the cases where
   LSP leaves the order open, DESIGN section 6 row 25):
   * a notebook change applies the structure (splice, didOpen, didClose) FIRST, then cell data to
     every cell with the named document, then the text changes (the order of the members of
     NotebookDocumentChangeEvent.cells; the code applies data before the splice, to the last such
     cell);
   * a folder change is "added, then removed" as sets (the code interleaves the two lists). *)
From Coq Require Export ZArith NArith List Bool.
From Pygls Require Export Model.Workspace.
Open Scope N_scope.

Record obs := mkObs {
  o_doc : N -> option (doc * N);      (* open text documents and cells: text/version, language *)
  o_nb : N -> option notebook;        (* open notebooks: version, metadata, type, cells in order *)
  o_cell : N -> option N;             (* cell uri -> uri of the notebook it was opened in *)
  o_folder : N -> option N;           (* workspace folders: uri -> name *)
  o_errs : N                          (* notifications that were answered with an error report *)
}.

Definition upd {V} (f : N -> option V) (k : N) (v : option V) : N -> option V :=
  fun x => if x =? k then v else f x.

Definition o_with_doc t f := mkObs f (o_nb t) (o_cell t) (o_folder t) (o_errs t).
Definition o_with_nb t f := mkObs (o_doc t) f (o_cell t) (o_folder t) (o_errs t).
Definition o_with_cell t f := mkObs (o_doc t) (o_nb t) f (o_folder t) (o_errs t).
Definition o_with_folder t f := mkObs (o_doc t) (o_nb t) (o_cell t) f (o_errs t).
(* a notification that cannot be applied is reported to the server's error hook *)
Definition report t := mkObs (o_doc t) (o_nb t) (o_cell t) (o_folder t) (o_errs t + 1).

(* the last name given to a folder uri in a list *)
Fixpoint alast (u : N) (l : list (N * N)) : option N :=
  match l with
  | [] => None
  | (k, v) :: r =>
    match alast u r with
    | Some x => Some x
    | None => if u =? k then Some v else None
    end
  end.

Definition memb (u : N) (l : list N) : bool := existsb (N.eqb u) l.

Definition spec_init (fs : list (N * N)) : obs :=
  mkObs (fun _ => None) (fun _ => None) (fun _ => None) (fun u => alast u fs) 0.

(* ---- what the public API answers ---- *)
Inductive sgot := SOpen (d : doc) (lang : N) | SDisk (u : N).
Definition spec_get (t : obs) (u : N) : sgot :=
  match o_doc t u with Some (d, l) => SOpen d l | None => SDisk u end.
Definition spec_nb_of_cell (t : obs) (c : N) : option notebook :=
  match o_cell t c with Some n => o_nb t n | None => None end.

(* ---- the reference fold ---- *)

(* a text document is opened, as a cell of a notebook (owner Some n) or on its own (owner None).
   The item replaces whatever was open under that uri (LSP forbids a second didOpen without a
   didClose; the last one counts).  Opening a uri on its own says nothing about notebooks: a uri
   that is a cell of a notebook (which still lists it) stays one. *)
Definition open_item (cf : encoding * sync_kind) (owner : option N) (t : obs)
           (it : N * N * Z * list N) : obs :=
  let '(u, lang, v, text) := it in
  let t1 := o_with_doc t (upd (o_doc t) u (Some (open_doc (fst cf) (snd cf) text v, lang))) in
  match owner with
  | Some n => o_with_cell t1 (upd (o_cell t) u (Some n))
  | None => t1
  end.

(* a text document or cell is closed: it disappears, with its entry in the cell index *)
Definition close_doc (t : obs) (u : N) : obs :=
  o_with_cell (o_with_doc t (upd (o_doc t) u None)) (upd (o_cell t) u None).

(* the changes of one textContent entry reach the document it names, in order; an entry for a
   document that is not open changes nothing: the document stays absent *)
Definition text_entry (t : obs) (e : N * Z * list change) : obs :=
  let '(u, v, cs) := e in
  match o_doc t u with
  | Some (d, l) =>
    o_with_doc t (upd (o_doc t) u (Some (fold_left (fun d c => update_text_document d v c) cs d, l)))
  | None => t
  end.

(* the textContent entries of one notification, in order.  An entry that carries changes for a
   document that is not open cannot be applied: it is an error, and the notification ends there
   (what was applied before stays; the flag says that the error is reported).  The property's text
   decides only that the document stays absent; what happens to the REST of a notification the
   client should not have sent is left open by LSP, and "handling stops at the first error" is the
   reading in which notifications are applied strictly in order. *)
Fixpoint text_entries (t : obs) (es : list (N * Z * list change)) : obs * bool :=
  match es with
  | [] => (t, false)
  | (u, v, cs) :: r =>
    match o_doc t u, cs with
    | None, _ :: _ => (t, true)
    | _, _ => text_entries (text_entry t (u, v, cs)) r
    end
  end.
Definition finish (r : obs * bool) : obs := if snd r then report (fst r) else fst r.

(* cell data replaces kind, metadata and execution summary of the cell with that document *)
Definition data_all (cells : list nbcell) (d : nbcell) : list nbcell :=
  map (fun c => if c_doc c =? c_doc d then mkCell (c_kind d) (c_doc c) (c_meta d) (c_exec d) else c)
      cells.

Definition splice {A} (l : list A) (start del : N) (new : list A) : list A :=
  take start l ++ new ++ drop (start + del) l.

(* the cells of the notebook after a change *)
Definition new_cells (cells : list nbcell) (cc : cellchange) : list nbcell :=
  let spliced := match cc_structure cc with
                 | Some st => splice cells (st_start st) (st_delete st) (st_cells st)
                 | None => cells
                 end in
  fold_left data_all (cc_data cc) spliced.

(* the documents after the structure part of a change: cells opened, then cells closed *)
Definition after_structure (cf : encoding * sync_kind) (n : N) (t : obs) (cc : cellchange) : obs :=
  match cc_structure cc with
  | Some st => fold_left close_doc (st_close st) (fold_left (open_item cf (Some n)) (st_open st) t)
  | None => t
  end.

Definition spec_step (cf : encoding * sync_kind) (t : obs) (o : op) : obs :=
  match o with
  | DidOpen it => open_item cf None t it
  | DidChange u v cs =>
    match o_doc t u with
    | Some (d, l) => o_with_doc t (upd (o_doc t) u (Some (did_change d (v, cs), l)))
    | None =>
      (* not open (closed, or never opened): the document stays absent and is served from disk;
         changes that cannot be applied are reported *)
      match cs with [] => t | _ :: _ => report t end
    end
  | DidClose u => close_doc t u                       (* of a uri that is not open: nothing *)
  | NbOpen n nb items =>
    fold_left (open_item cf (Some n)) items (o_with_nb t (upd (o_nb t) n (Some nb)))
  | NbChange n v meta cc =>
    match o_nb t n with
    | None => report t                                 (* not open: nothing changes; reported *)
    | Some nb =>
      let meta' := match meta with Some m => Some m | None => n_meta nb end in
      match cc with
      | None => o_with_nb t (upd (o_nb t) n (Some (mkNb v meta' (n_type nb) (n_cells nb))))
      | Some cc =>
        let t1 := o_with_nb t (upd (o_nb t) n (Some (mkNb v meta' (n_type nb) (new_cells (n_cells nb) cc)))) in
        finish (text_entries (after_structure cf n t1 cc) (cc_text cc))
      end
    end
  | NbClose n cs => fold_left close_doc cs (o_with_nb t (upd (o_nb t) n None))
  | Folders added removed =>
    o_with_folder t (fun u => if memb u removed then None
                              else match alast u added with
                                   | Some nm => Some nm
                                   | None => o_folder t u
                                   end)
  end.

Definition spec_run (cf : encoding * sync_kind) (fs : list (N * N)) (h : list op) : obs :=
  fold_left (spec_step cf) h (spec_init fs).

(* ---- the histories the property speaks of (executable) ---- *)

Definition is_some {A} (x : option A) : bool := match x with Some _ => true | None => false end.

Fixpoint nodupb (l : list N) : bool :=
  match l with
  | [] => true
  | x :: r => negb (memb x r) && nodupb r
  end.

Definition cell_docs (cells : list nbcell) : list N := map c_doc cells.

(* one notification is well formed in the state it arrives in.  Excluded are only
   - a notebook that lists the same cell document twice (LSP identifies a cell by its document uri;
     "the cell with document d" is then not defined), and
   - the two cases in which the outcome depends on an order LSP leaves open (DESIGN section 6 row 25).
   Notifications that refer to documents / notebooks that are not open are NOT excluded. *)
Definition wf_op (cf : encoding * sync_kind) (t : obs) (o : op) : bool :=
  match o with
  | NbOpen _ nb _ => nodupb (cell_docs (n_cells nb))           (* a notebook's cells are distinct documents *)
  | NbChange n _ _ (Some cc) =>
    match o_nb t n, cc_structure cc with
    | Some nb, Some st =>
      (* the cells after the splice are distinct documents *)
      nodupb (cell_docs (splice (n_cells nb) (st_start st) (st_delete st) (st_cells st)))
      (* cell data does not refer to a cell added by the same notification *)
      && forallb (fun d => negb (memb (c_doc d) (cell_docs (st_cells st)))) (cc_data cc)
    | _, _ => true
    end
  | Folders added removed =>
    forallb (fun f => negb (memb (fst f) removed)) added        (* added and removed are disjoint *)
  | _ => true
  end.

(* every change refers to something that is open (then no notification is answered with an error) *)
Definition targets_open (cf : encoding * sync_kind) (t : obs) (o : op) : bool :=
  match o with
  | DidChange u _ _ => is_some (o_doc t u)
  | NbChange n _ _ cc =>
    is_some (o_nb t n) &&
    match cc with
    | None => true
    | Some cc => forallb (fun e => is_some (o_doc (after_structure cf n t cc) (fst (fst e)))) (cc_text cc)
    end
  | _ => true
  end.

Fixpoint wf_hist (cf : encoding * sync_kind) (t : obs) (h : list op) : bool :=
  match h with
  | [] => true
  | o :: r => wf_op cf t o && wf_hist cf (spec_step cf t o) r
  end.

Definition wf_history (cf : encoding * sync_kind) (fs : list (N * N)) (h : list op) : bool :=
  wf_hist cf (spec_init fs) h.

(* ---- what a workspace state shows, and when two observations are the same ---- *)

Definition observe (s : ws) : obs :=
  mkObs (fun u => aget u (w_docs s)) (fun n => aget n (w_nbs s)) (fun c => aget c (w_cells s))
        (fun u => aget u (w_folders s)) (w_errs s).

Record obs_eq (a b : obs) : Prop := mkObsEq {
  eq_doc : forall u, o_doc a u = o_doc b u;
  eq_nb : forall n, o_nb a n = o_nb b n;
  eq_cell : forall c, o_cell a c = o_cell b c;
  eq_folder : forall u, o_folder a u = o_folder b u;
  eq_errs : o_errs a = o_errs b
}.
