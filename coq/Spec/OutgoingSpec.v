(* What C05 promises, written without the tables: the future returned for a request is decided
   by the FIRST event after the send that concerns it - a response carrying its id, or the
   caller's own cancel() - and by nothing else.  Also the executable guards of the theorem. *)
From Coq Require Import ZArith NArith List Bool.
From Pygls Require Export Model.Outgoing.
Import ListNotations.

(* the class pygls.exceptions registers for an error code: exact codes, the JSON-RPC
   server-error range, the base class otherwise *)
Definition exact_codes : list (Z * exc_class) :=
  [ (-32603, EInternal); (-32602, EInvalidParams); (-32600, EInvalidRequest);
    (-32601, EMethodNotFound); (-32700, EParse); (-32800, ECancelled) ]%Z.

Definition spec_class (c : Z) : exc_class :=
  match find (fun kc => Z.eqb (fst kc) c) exact_codes with
  | Some (_, cl) => cl
  | None => if (Z.leb (-32099) c && Z.leb c (-32000))%bool then EServer else EBase
  end.

(* what can complete the request sent with id i whose future has handle k *)
Inductive completion := CRes (p : N) | CErr (code : Z) (msg : list N) (data : N) | CCancel.

Definition rel (i : id) (k : nat) (e : ev) : option completion :=
  match e with
  | RecvResult j p _ => if id_eqb j i then Some (CRes p) else None
  | RecvError j c m d => if id_eqb j i then Some (CErr c m d) else None
  | UserCancelOut k' => if Nat.eqb k' k then Some CCancel else None
  | _ => None
  end.

Fixpoint first_rel (i : id) (k : nat) (evs : list ev) : option completion :=
  match evs with
  | [] => None
  | e :: r => match rel i k e with Some c => Some c | None => first_rel i k r end
  end.

(* a future as the property sees it: its state and how often the user callback ran *)
Notation fview := (fstate * N)%type (only parsing).

Definition outcome_view (rt : N) (cb : bool) (c : option completion) : fview :=
  match c with
  | None => (Pending, 0%N)
  | Some (CRes p) => (Resolved rt p, if cb then 1%N else 0%N)    (* decoded as the REQUESTED method's result type *)
  | Some (CErr c m d) => (Failed (spec_class c) c m d, 0%N)      (* any code, any message, any data *)
  | Some CCancel => (Cancelled, 0%N)
  end.

Definition send_id (mid : option id) (next : N) : id * N :=
  match mid with Some i => (i, next) | None => (IUuid next, (next + 1)%N) end.

(* THE REFERENCE: the final view of every future, in order of creation *)
Fixpoint spec_futs (evs : list ev) (next : N) (k : nat) : list fview :=
  match evs with
  | [] => []
  | UserSend m rt cb mid :: r =>
    let '(i, next') := send_id mid next in
    outcome_view rt (cbflag cb) (first_rel i k r) :: spec_futs r next' (S k)
  | _ :: r => spec_futs r next k
  end.

Definition spec (evs : list ev) : list fview := spec_futs evs 0%N 0.

(* ---- hypotheses of the theorem and their executable versions ---- *)

(* the ids the requests of evs are sent with (with the method's result type) *)
Fixpoint sent (evs : list ev) (next : N) : list (id * N) :=
  match evs with
  | [] => []
  | UserSend m rt cb mid :: r => let '(i, next') := send_id mid next in (i, rt) :: sent r next'
  | _ :: r => sent r next
  end.
Definition sent_ids (evs : list ev) (next : N) : list id := map fst (sent evs next).

(* the ids the incoming direction uses *)
Fixpoint in_ids (evs : list ev) : list id :=
  match evs with
  | [] => []
  | InReply i :: r | InAsyncReg i :: r | InAsyncDone i _ :: r | InCancel i :: r => i :: in_ids r
  | _ :: r => in_ids r
  end.

(* ---- which requests are OUTSTANDING, without any table: a request is outstanding from its send
   until the first response carrying its id or the caller's cancel ---- *)
Notation live := (list (id * nat * N)) (only parsing).      (* (id, handle, result type) *)
Definition live_ids (lv : live) : list id := map (fun x => fst (fst x)) lv.
Definition drop_id (i : id) (lv : live) : live := filter (fun x => negb (id_eqb (fst (fst x)) i)) lv.
Definition drop_handle (h : nat) (lv : live) : live := filter (fun x => negb (Nat.eqb (snd (fst x)) h)) lv.

Definition mem_id (i : id) (l : list id) : bool := existsb (id_eqb i) l.

(* cids: every request is sent with an id distinct from every other OUTSTANDING one (an id is
         free again once its request has been answered or given up);
   cval: a result validates against the result type of the outstanding request it answers *)
Fixpoint wf_scan (cids cval : bool) (lv : live) (n : N) (k : nat) (evs : list ev) : bool :=
  match evs with
  | [] => true
  | UserSend m rt cb mid :: r =>
    let '(i, n') := send_id mid n in
    (negb cids || negb (mem_id i (live_ids lv))) && wf_scan cids cval ((i, k, rt) :: lv) n' (S k) r
  | RecvResult i p oks :: r =>
    (negb cval || forallb (fun x => implb (id_eqb (fst (fst x)) i) (mem_n (snd x) oks)) lv)
    && wf_scan cids cval (drop_id i lv) n k r
  | RecvError i _ _ _ :: r => wf_scan cids cval (drop_id i lv) n k r
  | UserCancelOut h :: r => wf_scan cids cval (drop_handle h lv) n k r
  | _ :: r => wf_scan cids cval lv n k r
  end.

(* outgoing ids come from an injective supply: no id is used while it is still outstanding *)
Definition injective_supply (evs : list ev) : Prop := wf_scan true false [] 0%N 0 evs = true.
(* results validate against the result type of the method that was requested with that id *)
Definition valid_results (evs : list ev) : Prop := wf_scan false true [] 0%N 0 evs = true.
(* the peer's request ids (and the ids it cancels) are none of ours *)
Definition disjoint_directions (evs : list ev) : Prop :=
  forall i, In i (in_ids evs) -> ~ In i (sent_ids evs 0%N).
(* the stronger, static form used for C16: whatever request of the history the id belongs to *)
Definition strict_valid_results (evs : list ev) : Prop :=
  forall i p oks, In (RecvResult i p oks) evs ->
  forall rt, In (i, rt) (sent evs 0%N) -> mem_n rt oks = true.

(* error codes are LSP integers (int32): lsprotocol rejects an error object with any other code *)
Definition lsp_codes (evs : list ev) : Prop :=
  forall i c m d, In (RecvError i c m d) evs -> int32 c = true.
Definition lsp_codes_b (evs : list ev) : bool :=
  forallb (fun e => match e with RecvError _ c _ _ => int32 c | _ => true end) evs.

Definition injective_supply_b (evs : list ev) : bool := wf_scan true false [] 0%N 0 evs.
Definition valid_results_b (evs : list ev) : bool := wf_scan false true [] 0%N 0 evs.
Definition disjoint_directions_b (evs : list ev) : bool :=
  forallb (fun i => negb (mem_id i (sent_ids evs 0%N))) (in_ids evs).

Definition guard (evs : list ev) : bool :=
  injective_supply_b evs && disjoint_directions_b evs && valid_results_b evs && lsp_codes_b evs.

(* ---- replies only, each request answered at most once (permutation independence) ---- *)
Definition is_send (e : ev) : bool := match e with UserSend _ _ _ _ => true | _ => false end.
Definition is_resp (e : ev) : bool :=
  match e with RecvResult _ _ _ | RecvError _ _ _ _ => true | _ => false end.
Definition resp_id (e : ev) : option id :=
  match e with RecvResult j _ _ | RecvError j _ _ _ => Some j | _ => None end.

(* ---- C16, outgoing half: which requests have not been answered ---- *)
Definition resp_is (i : id) (e : ev) : bool :=
  match e with RecvResult j _ _ | RecvError j _ _ _ => id_eqb j i | _ => false end.
Definition responded (i : id) (r : list ev) : bool := existsb (resp_is i) r.
Fixpoint unanswered (evs : list ev) (n : N) : list id :=
  match evs with
  | [] => []
  | UserSend m rt cb mid :: r =>
    (if responded (fst (send_id mid n)) r then [] else [fst (send_id mid n)])
      ++ unanswered r (snd (send_id mid n))
  | _ :: r => unanswered r n
  end.
(* every outgoing request has received a response after it was sent *)
Definition all_answered (evs : list ev) : Prop := unanswered evs 0%N = [].
Definition no_in_async (evs : list ev) : bool :=
  forallb (fun e => match e with InAsyncReg _ => false | _ => true end) evs.

(* the view of the model's futures *)
Definition view (ko : nat * ofut) : fview := (ost (snd ko), ocalls (snd ko)).
Definition views (s : st) : list fview := map view (ofuts s).
