(* C13 - what the property promises, independently of how pygls computes it, and the
   executable guards that delimit the three open findings (DESIGN section 6 row 23). *)
From Pygls Require Export Base.JsonVal Model.Registry.
Open Scope N_scope.

(* ---------- (i) JSON-RPC 2.0: what an object with these members is ---------- *)
(* request: method, id, no error.  notification: method, no id.
   response: id, no method, exactly one of result / error (only `error` is looked at).
   JSON-RPC 2.0 has no object with id, method AND error: the only reading under which the peer
   that sent it is not left waiting is "error response" (an id with an error member settles the
   request that was sent under that id; nothing is dispatched, nothing is answered) - that row is
   DEFINED here, it is not left to the implementation.  Likewise method + error without id can only
   be a notification (there is no id to answer to).  Without id and without method: not a message. *)
Definition spec_kind (has_id has_method has_error : bool) : option kind :=
  match has_id, has_error, has_method with
  | true, true, _ => Some KErrorResponse
  | true, false, true => Some KRequest
  | true, false, false => Some KResponse
  | false, _, true => Some KNotification
  | false, _, false => None
  end.

(* ---------- (iii) generic objects: which members can be reached by name ---------- *)
(* a member name that Python lets one write after a dot and that namedtuple keeps *)
Definition good_key (k : list N) : bool :=
  is_identifier k && negb (is_keyword k) && negb (starts_underscore k).
Definition good_step (s : step) : bool := match s with Key k => good_key k | Idx _ => true end.

Definition is_scalar (j : json) : bool :=
  match j with JArr _ | JObj _ => false | _ => true end.

(* every path of identifier-named members (and array indices) to a scalar, with that scalar *)
Fixpoint spec_leaves (j : json) : list (list step * json) :=
  match j with
  | JArr l =>
    (fix go (i : nat) (l : list json) : list (list step * json) :=
       match l with
       | [] => []
       | x :: r => map (fun pl => (Idx i :: fst pl, snd pl)) (spec_leaves x) ++ go (S i) r
       end) 0%nat l
  | JObj kvs =>
    (fix go (kvs : list (list N * json)) : list (list step * json) :=
       match kvs with
       | [] => []
       | kv :: r =>
         (if good_key (fst kv)
          then map (fun pl => (Key (fst kv) :: fst pl, snd pl)) (spec_leaves (snd kv))
          else []) ++ go r
       end) kvs
  | s => [([], s)]
  end.

(* ---------- guards: the input classes of the three findings ---------- *)
(* F23a: the params / result object has a member called type_name *)
Definition has_type_name (payload : json) : bool :=
  match payload with JObj kvs => amem k_type_name kvs | _ => false end.
(* F23b: some object has a member called jsonrpc *)
Fixpoint deep_jsonrpc (j : json) : bool :=
  match j with
  | JArr l => existsb deep_jsonrpc l
  | JObj kvs => amem k_jsonrpc kvs || existsb (fun kv => deep_jsonrpc (snd kv)) kvs
  | _ => false
  end.
(* ... below the top level of a message *)
Definition nested_jsonrpc (wire : json) : bool :=
  match wire with
  | JObj kvs => existsb (fun kv => deep_jsonrpc (snd kv)) kvs
  | _ => deep_jsonrpc wire
  end.
(* F23c: the params / result value is an array with an object somewhere inside *)
Fixpoint has_object (j : json) : bool :=
  match j with
  | JArr l => existsb has_object l
  | JObj _ => true
  | _ => false
  end.
Definition array_with_objects (payload : json) : bool :=
  match payload with JArr l => existsb has_object l | _ => false end.

Definition generic_guard (payload : json) : bool :=
  negb (has_type_name payload) && negb (deep_jsonrpc payload) && negb (array_with_objects payload).

(* the finding class of a payload outside the guard (first that applies) *)
Definition finding_class (payload : json) : N :=
  if deep_jsonrpc payload then 2 else if has_type_name payload then 1
  else if array_with_objects payload then 3 else 0.

(* ---------- (iv) the finite statement about the regenerated tables ---------- *)
Definition dir_ok (s : side) (d : direction) : bool :=      (* side s sends methods of direction d *)
  match s, d with
  | Server, ServerToClient | Server, BothDir | Client, ClientToServer | Client, BothDir => true
  | _, _ => false
  end.
Definition side_eqb (a b : side) : bool :=
  match a, b with Server, Server | Client, Client => true | _, _ => false end.
Definition hkind_eqb (a b : hkind) : bool :=
  match a, b with
  | HNotify, HNotify | HSendRequest, HSendRequest | HSendRequestAsync, HSendRequestAsync => true
  | _, _ => false
  end.
Definition is_some {A} (o : option A) : bool := match o with Some _ => true | None => false end.

(* the Python name prescribed for the helper of method m and entry point k *)
Definition expected_name (m : mrow) (k : hkind) : list N :=
  python_name (m_name m) ++ match k with HSendRequestAsync => s_async | _ => [] end.
Definition kind_ok (m : mrow) (k : hkind) : bool :=
  match k with HNotify => negb (m_request m) | _ => m_request m end.

(* the registry row and entry point a helper called `name` on side s has to stand for *)
Definition spec_helper (reg : list mrow) (s : side) (name : list N) : option (mrow * hkind) :=
  find (fun mk => str_eqb name (expected_name (fst mk) (snd mk))
                  && dir_ok s (m_dir (fst mk)) && kind_ok (fst mk) (snd mk))
       (flat_map (fun m => [(m, HNotify); (m, HSendRequest); (m, HSendRequestAsync)]) reg).

Definition helper_ok (reg : list mrow) (h : hrow) : bool :=
  match find_method reg (h_method h) with
  | Some m =>
    kind_ok m (h_kind h) && dir_ok (h_side h) (m_dir m)
    && str_eqb (h_name h) (expected_name m (h_kind h))
    && h_params h
    && (match h_kind h with HSendRequest => h_callback h | _ => true end)
    && (match spec_helper reg (h_side h) (h_name h) with
        | Some (m', k') => str_eqb (m_name m') (h_method h) && hkind_eqb k' (h_kind h)
        | None => false
        end)
  | None => false
  end.
Definition has_helper (hs : list hrow) (s : side) (m : mrow) (k : hkind) : bool :=
  existsb (fun h => side_eqb (h_side h) s && hkind_eqb (h_kind h) k
                    && str_eqb (h_method h) (m_name m)) hs.
Definition method_covered (hs : list hrow) (s : side) (m : mrow) : bool :=
  if dir_ok s (m_dir m) then
    if m_request m then has_helper hs s m HSendRequest && has_helper hs s m HSendRequestAsync
    else has_helper hs s m HNotify
  else true.
Definition registry_ok (reg : list mrow) : bool :=
  nodup_strs (map m_name reg)
  && forallb (fun m => Bool.eqb (m_request m) (is_some (m_res_type m))) reg.
Definition side_names (hs : list hrow) (s : side) : list (list N) :=
  map h_name (filter (fun h => side_eqb (h_side h) s) hs).
Definition helpers_ok (reg : list mrow) (hs : list hrow) : bool :=
  registry_ok reg
  && forallb (helper_ok reg) hs
  && forallb (fun m => method_covered hs Server m && method_covered hs Client m) reg
  && nodup_strs (side_names hs Server) && nodup_strs (side_names hs Client).

(* ---------- the executable reference for one trip of a helper (what the harness judges by) ---- *)
(* name of helper -> method on the wire, id present?, class at the receiver, how it is handled
   there, class of the response at the requester *)
Record trip := mk_trip {
  t_method : list N; t_has_id : bool; t_msg_type : list N; t_route : kind;
  t_res_type : option (list N) }.
Definition spec_trip (reg : list mrow) (s : side) (name : list N) : option trip :=
  match spec_helper reg s name with
  | Some (m, _) =>
    Some (mk_trip (m_name m) (m_request m) (m_msg_type m)
                  (if m_request m then KRequest else KNotification) (m_res_type m))
  | None => None
  end.
(* the same quantities as the model computes them for a helper row *)
Definition model_trip (reg : list mrow) (h : hrow) (i : pval) : option trip :=
  match helper_call reg st0 h i with
  | (st, Sent has_id m (Some ty)) =>
    match find_method reg m with
    | Some r =>
      Some (mk_trip m has_id ty
                    (handle_branch (shape_of (TRegistryMsg r)))
                    (match rt_get i (rtypes st) with Some rt => rt | None => None end))
    | None => None
    end
  | _ => None
  end.

(* the same after a history of other operations of the requester (Model.ev) *)
Definition model_trip_after (obj : Type) (structure : list N -> pval -> sres obj)
                            (reg : list mrow) (h : hrow) (i : pval) (evs : list ev) : option trip :=
  match helper_call reg st0 h i with
  | (st, Sent has_id m (Some ty)) =>
    match find_method reg m with
    | Some r =>
      Some (mk_trip m has_id ty
                    (handle_branch (shape_of (TRegistryMsg r)))
                    (match rt_get i (rtypes (fold_left (ev_step obj structure reg) evs st)) with
                     | Some rt => rt
                     | None => None
                     end))
    | None => None
    end
  | _ => None
  end.
