(* What C19 promises, written independently of the code's control flow.
   From Model.Features only the *vocabulary of inputs* is used (names, function descriptors,
   the options argument, calls `op`, decorated definitions `attempt`) and the character class
   py_isspace; the state, the refusal rule and the effect of an accepted call are defined here.

   The reference keeps ONE list of registrations per kind (no separate options table):
     a call is refused  iff  the name is None/empty/whitespace, or already taken (same kind),
                             or the options are not of the method's options type,
                             or thread() is applied to a coroutine function
                             (or to a function that claims a registration which does not exist);
     a refused call changes nothing; an accepted registration appends exactly one registration;
     an accepted thread() marks exactly the registration of that function (none if unregistered). *)
From Coq Require Import NArith List Bool.
From Pygls Require Export Model.Features.
Import ListNotations.
Open Scope N_scope.

Record sreg := mksreg {
  g_name : name;
  g_fid : N;                 (* the user's function *)
  g_async : bool;
  g_inject : bool;           (* receives the server as first argument *)
  g_thread : bool;           (* runs on the pool *)
  g_opt : option N           (* the options object advertised with it *)
}.

Record sstate := mkss { s_features : list sreg; s_commands : list sreg }.
Definition s_empty : sstate := mkss [] [].

Definition blank (n : name) : bool :=
  match n with None => true | Some s => forallb py_isspace s end.

Definition taken (n : name) (l : list sreg) : bool :=
  existsb (fun g => name_eqb n (g_name g)) l.

Definition right_type (o : optarg) : bool :=
  match o with ONone => true | OObj _ _ nominal _ => nominal end.

Definition asks_server (p : fparams) : bool :=
  match p with
  | First true _ => true
  | First false AServer => true
  | _ => false
  end.

Definition stored_opt (o : optarg) : option N :=
  match o with ONone => None | OObj i _ _ _ => Some i end.

Definition new_reg (n : name) (o : optarg) (f : func) : sreg :=
  mksreg n (f_id f) (f_async f) (asks_server (f_params f)) (f_thread f) (stored_opt o).

Definition mark_reg (g : sreg) : sreg :=
  mksreg (g_name g) (g_fid g) (g_async g) (g_inject g) true (g_opt g).

Definition mark (n : name) (l : list sreg) : list sreg :=
  map (fun g => if name_eqb n (g_name g) then mark_reg g else g) l.

(* A handler that does not take the server is registered as the function object itself: the same
   function under several names is ONE object, and marking it marks all of its registrations. *)
Definition mark_fn (i : N) (l : list sreg) : list sreg :=
  map (fun g => if negb (g_inject g) && (g_fid g =? i) then mark_reg g else g) l.

Definition sfind (n : name) (l : list sreg) : option sreg :=
  find (fun g => name_eqb n (g_name g)) l.

Definition table (t : regtype) (s : sstate) : list sreg :=
  match t with RFeature => s_features s | RCommand => s_commands s end.

Definition must_refuse (s : sstate) (x : op) : bool :=
  match x with
  | OpFeature n o _ => blank n || taken n (s_features s) || negb (right_type o)
  | OpCommand n _ => blank n || taken n (s_commands s)
  | OpThread f =>
    f_async f ||
    match f_reg f with
    | Some (t, n) => negb (taken n (table t s))
    | None => false
    end
  end.

(* (state after, refused?) *)
Definition spec_step (s : sstate) (x : op) : sstate * bool :=
  if must_refuse s x then (s, true)
  else
    match x with
    | OpFeature n o f => (mkss (s_features s ++ [new_reg n o f]) (s_commands s), false)
    | OpCommand n f => (mkss (s_features s) (s_commands s ++ [new_reg n ONone f]), false)
    | OpThread f =>
      (* thread() marks the callable registered under the function's LAST registration name *)
      match f_reg f with
      | Some (t, n) =>
        match sfind n (table t s) with
        | Some g =>
          if g_inject g then
            (match t with
             | RFeature => mkss (mark n (s_features s)) (s_commands s)
             | RCommand => mkss (s_features s) (mark n (s_commands s))
             end, false)
          else (mkss (mark_fn (g_fid g) (s_features s)) (mark_fn (g_fid g) (s_commands s)), false)
        | None => (s, false)
        end
      | None => (mkss (mark_fn (f_id f) (s_features s)) (mark_fn (f_id f) (s_commands s)), false)
      end
    end.

(* the function object an accepted decorator hands back to the next decorator of a fresh function *)
Definition spec_fn (x : op) : func :=
  match x with
  | OpFeature n _ f => assign_help_attrs f n RFeature
  | OpCommand n f => assign_help_attrs f n RCommand
  | OpThread f => assign_thread_attr_f f
  end.

Definition register_op (a : attempt) (f : func) : op :=
  match a_kind a with
  | RFeature => OpFeature (a_name a) (a_opt a) f
  | RCommand => OpCommand (a_name a) f
  end.

Definition spec_attempt_trace (s : sstate) (a : attempt) : list (sstate * bool) :=
  let two (x1 : op) (x2 : func -> op) :=
    let '(s1, b1) := spec_step s x1 in
    if b1 then [(s1, b1)]
    else let '(s2, b2) := spec_step s1 (x2 (spec_fn x1)) in [(s1, b1); (s2, b2)] in
  match a_thr a with
  | TNone => [spec_step s (register_op a (a_fn a))]
  | TBelow => two (OpThread (a_fn a)) (register_op a)
  | TAbove => two (register_op a (a_fn a)) OpThread
  end.

Fixpoint spec_run_attempts (s : sstate) (l : list attempt) : list (sstate * bool) :=
  match l with
  | [] => []
  | a :: t => let tr := spec_attempt_trace s a in
              tr ++ spec_run_attempts (fst (last tr (s, false))) t
  end.

(* ---------------------------------------------------------------- executable guards *)
(* The type check is an oracle.  The reference speaks of the *declared* type (`nominal`); the
   guard holds when the oracle's answer is the nominal one and a non-None options object is
   truthy (finding 27: the real check is structural, and falsy objects are never checked). *)
Definition chk_accepts (c : optcheck) : bool :=
  match c with CkNoType | CkValid => true | _ => false end.

Definition oracle_agrees (o : optarg) : bool :=
  match o with
  | ONone => true
  | OObj _ truthy nominal chk => truthy && eqb nominal (chk_accepts chk)
  end.

(* a coroutine function never carries the thread marker (thread() refuses to set it) *)
Definition func_ok (f : func) : bool := negb (f_async f && f_thread f).

Definition op_ok (x : op) : bool :=
  match x with
  | OpFeature _ o f => oracle_agrees o && func_ok f
  | OpCommand _ f => func_ok f
  | OpThread f => func_ok f
  end.

(* a `def` statement makes a new function: no marker, no registration attributes *)
Definition fresh (f : func) : bool :=
  negb (f_thread f) && match f_reg f with None => true | Some _ => false end.

Definition attempt_ok (a : attempt) : bool :=
  fresh (a_fn a) &&
  match a_kind a with RFeature => oracle_agrees (a_opt a) | RCommand => true end.

(* ---------------------------------------------------------------- reading a model registry *)
Definition abs_feature (r : registry) (p : name * entry) : sreg :=
  let '(n, e) := p in
  mksreg n (e_fid e) (e_async e) (e_inject e) (e_thread e) (aget n (feature_options r)).

Definition abs_command (p : name * entry) : sreg :=
  let '(n, e) := p in mksreg n (e_fid e) (e_async e) (e_inject e) (e_thread e) None.

Definition abs (r : registry) : sstate :=
  mkss (map (abs_feature r) (features r)) (map abs_command (commands r)).

Definition is_error (x : result) : bool := match x with Ok => false | Error _ => true end.

(* ---------------------------------------------------------------- the two-phase API *)
(* Creating a decorator (server.feature(..) / command(..) / thread()) is never refused and changes
   nothing; everything the property says about a "registration" is about the APPLICATION of a
   decorator to a function, whatever happened between its creation and its application. *)
(* the function object after an accepted call: a registration labels it; thread() marks the
   registered callable, which is the function itself unless the server is injected *)
Definition spec_fn_w (s : sstate) (x : op) : func :=
  match x with
  | OpThread f =>
    match f_reg f with
    | None => assign_thread_attr_f f
    | Some (k, n) =>
      match sfind n (table k s) with
      | Some g => if negb (g_inject g) && (g_fid g =? f_id f) then assign_thread_attr_f f else f
      | None => f
      end
    end
  | _ => spec_fn x
  end.

Record sworld := mksw { sw_state : sstate; sw_decs : list dec; sw_fns : list func }.
Definition sw_empty : sworld := mksw s_empty [] [].

Definition spec_wstep (w : sworld) (x : wop) : sworld * bool :=
  match x with
  | WDef f => (mksw (sw_state w) (sw_decs w) (sw_fns w ++ [f]), false)
  | WMake d => (mksw (sw_state w) (sw_decs w ++ [d]) (sw_fns w), false)
  | WApply i j =>
    match nth_error (sw_decs w) i, nth_error (sw_fns w) j with
    | Some d, Some f =>
      let x := op_of d f in
      let '(s', refused) := spec_step (sw_state w) x in
      (mksw s' (sw_decs w)
            (if refused then sw_fns w else set_nth j (spec_fn_w (sw_state w) x) (sw_fns w)), refused)
    | _, _ => (w, true)
    end
  end.

Fixpoint spec_wrun (w : sworld) (xs : list wop) : list (sworld * bool) :=
  match xs with
  | [] => []
  | x :: t => let '(w', b) := spec_wstep w x in (w', b) :: spec_wrun w' t
  end.

Definition dec_ok (d : dec) : bool :=
  match d with DFeature _ o => oracle_agrees o | _ => true end.

Definition wop_ok (x : wop) : bool :=
  match x with WDef f => func_ok f | WMake d => dec_ok d | WApply _ _ => true end.

Definition abs_world (w : world) : sworld := mksw (abs (w_reg w)) (w_decs w) (w_fns w).
