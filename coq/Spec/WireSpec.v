(* What C03 promises, written independently of the model (shares only Base/ with it):
   - spec_decode: a STRICT decoder of the LSP base protocol over a byte stream.  It returns the
     list of message bodies iff the stream is a concatenation of complete frames
       (header-line CRLF)* CRLF body      with exactly one Content-Length: <decimal>, body of exactly
     that many BYTES; anything else (truncated frame, stray bytes, bad header) is None.
   - unescape / loads: a strict JSON reader (RFC 8259 grammar, integers only, \uXXXX with
     surrogate-pair joining as every JSON reader does).
   - interleave: all the ways several senders' operation lists can be merged by a scheduler.
   No fuel of type nat is ever data-sized: the input list itself serves as fuel. *)
From Coq Require Export ZArith NArith List Bool.
From Pygls Require Export Base.Unicode Base.Json.
Open Scope N_scope.

(* ---------- base protocol ---------- *)
Definition is_digit (c : N) : bool := (48 <=? c) && (c <=? 57).

(* non-empty decimal numeral -> value *)
Definition parse_dec (s : list N) : option N :=
  match s with
  | [] => None
  | _ => if forallb is_digit s then Some (fold_left (fun a d => 10 * a + (d - 48)) s 0) else None
  end.

(* line up to the first CRLF, and what follows it *)
Fixpoint split_crlf (bs : list N) : option (list N * list N) :=
  match bs with
  | [] => None
  | b :: r =>
    match r with
    | [] => None
    | c :: r' =>
      if (b =? 13) && (c =? 10) then Some ([], r')
      else match split_crlf r with
           | Some (l, rest) => Some (b :: l, rest)
           | None => None
           end
    end
  end.

(* "name: value" -> (name, value) at the first colon *)
Fixpoint split_colon (l : list N) : option (list N * list N) :=
  match l with
  | [] => None
  | c :: r => if c =? 58 then Some ([], r)
              else match split_colon r with
                   | Some (n, v) => Some (c :: n, v)
                   | None => None
                   end
  end.

Fixpoint skip_ows (l : list N) : list N :=
  match l with
  | c :: r => if (c =? 32) || (c =? 9) then skip_ows r else l
  | [] => []
  end.

Definition lower (c : N) : N := if (65 <=? c) && (c <=? 90) then c + 32 else c.
Definition str_eqb (a b : list N) : bool :=
  (N.of_nat (length a) =? N.of_nat (length b)) && forallb (fun p => fst p =? snd p) (combine a b).
Definition content_length_name : list N :=   (* "content-length" *)
  [99; 111; 110; 116; 101; 110; 116; 45; 108; 101; 110; 103; 116; 104].
Definition is_content_length (name : list N) : bool := str_eqb (map lower name) content_length_name.
(* header field names are non-empty printable ASCII without space *)
Definition valid_name (name : list N) : bool :=
  match name with [] => false | _ => forallb (fun c => (33 <=? c) && (c <=? 126)) name end.

(* header block: lines until the empty one; returns the Content-Length and the rest *)
Fixpoint headers (fuel : list N) (bs : list N) (cl : option N) : option (N * list N) :=
  match fuel with
  | [] => None
  | _ :: f =>
    match split_crlf bs with
    | None => None
    | Some (line, rest) =>
      match line with
      | [] => match cl with Some n => Some (n, rest) | None => None end
      | _ =>
        match split_colon line with
        | None => None
        | Some (name, value) =>
          if is_content_length name then
            match cl, parse_dec (skip_ows value) with
            | None, Some n => headers f rest (Some n)
            | _, _ => None                                   (* duplicate or not a number *)
            end
          else if valid_name name then headers f rest cl
          else None
        end
      end
    end
  end.

(* exactly n bytes *)
Fixpoint take_exact (n : N) (bs : list N) : option (list N * list N) :=
  if n =? 0 then Some ([], bs)
  else match bs with
       | [] => None
       | b :: r => match take_exact (n - 1) r with
                   | Some (x, rest) => Some (b :: x, rest)
                   | None => None
                   end
       end.

Fixpoint decode (fuel : list N) (bs : list N) : option (list (list N)) :=
  match bs with
  | [] => Some []
  | _ =>
    match fuel with
    | [] => None
    | _ :: f =>
      match headers bs bs None with
      | None => None
      | Some (n, rest) =>
        match take_exact n rest with
        | None => None
        | Some (body, rest') =>
          match decode f rest' with
          | Some bodies => Some (body :: bodies)
          | None => None
          end
        end
      end
    end
  end.

Definition spec_decode (stream : list N) : option (list (list N)) := decode stream stream.

(* ---------- JSON strings ---------- *)
Definition hex_val (c : N) : option N :=
  if (48 <=? c) && (c <=? 57) then Some (c - 48)
  else if (97 <=? c) && (c <=? 102) then Some (c - 87)
  else if (65 <=? c) && (c <=? 70) then Some (c - 55)
  else None.
Definition hex4 (a b c d : N) : option N :=
  match hex_val a, hex_val b, hex_val c, hex_val d with
  | Some x, Some y, Some z, Some w => Some (x * 4096 + y * 256 + z * 16 + w)
  | _, _, _, _ => None
  end.
Definition is_high (c : N) : bool := (0xD800 <=? c) && (c <=? 0xDBFF).
Definition is_low (c : N) : bool := (0xDC00 <=? c) && (c <=? 0xDFFF).
Definition join_pair (h l : N) : N := 0x10000 + (h - 0xD800) * 1024 + (l - 0xDC00).

(* the characters between the quotes -> the string they denote *)
Fixpoint unescape (s : list N) : option (list N) :=
  match s with
  | [] => Some []
  | c :: r =>
    if c =? 92 then
      match r with
      | [] => None
      | e :: r1 =>
        let simple (x : N) := match unescape r1 with Some t => Some (x :: t) | None => None end in
        if e =? 34 then simple 34
        else if e =? 92 then simple 92
        else if e =? 47 then simple 47
        else if e =? 98 then simple 8
        else if e =? 102 then simple 12
        else if e =? 110 then simple 10
        else if e =? 114 then simple 13
        else if e =? 116 then simple 9
        else if e =? 117 then
          match r1 with
          | a :: b :: c1 :: d :: r2 =>
            match hex4 a b c1 d with
            | None => None
            | Some u =>
              let lone (_ : unit) := match unescape r2 with Some t => Some (u :: t) | None => None end in
              if is_high u then
                match r2 with
                | b1 :: u1 :: a2 :: b2 :: c2 :: d2 :: r3 =>
                  if (b1 =? 92) && (u1 =? 117) then
                    match hex4 a2 b2 c2 d2 with
                    | None => None
                    | Some v =>
                      if is_low v then
                        match unescape r3 with Some t => Some (join_pair u v :: t) | None => None end
                      else lone tt
                    end
                  else lone tt
                | _ => lone tt
                end
              else lone tt
            end
          | _ => None
          end
        else None
      end
    else if (c <? 32) || (c =? 34) then None      (* raw control character / unescaped quote *)
    else match unescape r with Some t => Some (c :: t) | None => None end
  end.

(* Strings JSON can carry faithfully: no high surrogate immediately followed by a low one (such a
   pair IS the astral character in JSON's \u notation; Python's own json.loads(json.dumps(s))
   changes it too).  Every well-formed Unicode text (scalar values only) qualifies. *)
Fixpoint pairfree (s : list N) : bool :=
  match s with
  | [] => true
  | c :: r => match r with
              | d :: _ => negb (is_high c && is_low d) && pairfree r
              | [] => true
              end
  end.

(* ---------- JSON values (reader for the tier-2 statement) ---------- *)
Fixpoint skip_ws (s : list N) : list N :=
  match s with
  | c :: r => if (c =? 32) || (c =? 9) || (c =? 10) || (c =? 13) then skip_ws r else s
  | [] => []
  end.

(* raw characters of a string literal up to the closing quote (escapes kept), and the rest *)
Fixpoint scan_string (s : list N) : option (list N * list N) :=
  match s with
  | [] => None
  | c :: r =>
    if c =? 34 then Some ([], r)
    else if c =? 92 then
      match r with
      | [] => None
      | e :: r1 => match scan_string r1 with
                   | Some (t, rest) => Some (c :: e :: t, rest)
                   | None => None
                   end
      end
    else match scan_string r with
         | Some (t, rest) => Some (c :: t, rest)
         | None => None
         end
  end.

Definition read_string (s : list N) : option (list N * list N) :=   (* after the opening quote *)
  match scan_string s with
  | Some (raw, rest) => match unescape raw with Some t => Some (t, rest) | None => None end
  | None => None
  end.

Fixpoint span_digits (s : list N) : list N * list N :=
  match s with
  | c :: r => if is_digit c then let '(d, rest) := span_digits r in (c :: d, rest) else ([], s)
  | [] => ([], [])
  end.

Definition head_is (c : N) (s : list N) : bool := match s with x :: _ => x =? c | [] => false end.

(* int: optional minus, then 0 or a numeral without leading zero; fractions and exponents are
   not integers: rejected *)
Definition read_int (s : list N) : option (Z * list N) :=
  let '(neg, s1) := if head_is 45 s then (true, tl s) else (false, s) in
  let '(ds, rest) := span_digits s1 in
  match ds with
  | [] => None
  | d0 :: more =>
    if (d0 =? 48) && negb (match more with [] => true | _ => false end) then None   (* leading zero *)
    else if head_is 46 rest || head_is 101 rest || head_is 69 rest then None
         else match parse_dec ds with
                | Some n => if neg && (n =? 0) then None   (* "-0" is not what an int prints as *)
                            else Some (if neg then (- Z.of_N n)%Z else Z.of_N n, rest)
                | None => None
                end
  end.

Definition lit_null : list N := [110; 117; 108; 108].
Definition lit_true : list N := [116; 114; 117; 101].
Definition lit_false : list N := [102; 97; 108; 115; 101].
Fixpoint strip_prefix (p s : list N) : option (list N) :=
  match p with
  | [] => Some s
  | a :: p' => match s with b :: s' => if a =? b then strip_prefix p' s' else None | [] => None end
  end.

(* recursive descent; every call consumes one unit of fuel (the input itself is used as fuel) *)
Fixpoint read_value (fuel : list N) (s : list N) : option (json * list N) :=
  match fuel with
  | [] => None
  | _ :: f =>
    match skip_ws s with
    | [] => None
    | c :: r =>
      if c =? 34 then
        match read_string r with Some (t, rest) => Some (JStr t, rest) | None => None end
      else if c =? 91 then
        if head_is 93 (skip_ws r) then Some (JArr [], tl (skip_ws r))
        else match read_elems f r with Some (l, rest) => Some (JArr l, rest) | None => None end
      else if c =? 123 then
        if head_is 125 (skip_ws r) then Some (JObj [], tl (skip_ws r))
        else match read_members f r with Some (l, rest) => Some (JObj l, rest) | None => None end
      else if c =? 110 then
        match strip_prefix lit_null (c :: r) with Some rest => Some (JNull, rest) | None => None end
      else if c =? 116 then
        match strip_prefix lit_true (c :: r) with Some rest => Some (JBool true, rest) | None => None end
      else if c =? 102 then
        match strip_prefix lit_false (c :: r) with Some rest => Some (JBool false, rest) | None => None end
      else
        match read_int (c :: r) with Some (z, rest) => Some (JInt z, rest) | None => None end
    end
  end
with read_elems (fuel : list N) (s : list N) : option (list json * list N) :=
  match fuel with
  | [] => None
  | _ :: f =>
    match read_value f s with
    | None => None
    | Some (v, r) =>
      if head_is 93 (skip_ws r) then Some ([v], tl (skip_ws r))
      else if head_is 44 (skip_ws r) then
        match read_elems f (tl (skip_ws r)) with
        | Some (l, rest) => Some (v :: l, rest)
        | None => None
        end
      else None
    end
  end
with read_members (fuel : list N) (s : list N) : option (list (list N * json) * list N) :=
  match fuel with
  | [] => None
  | _ :: f =>
    if head_is 34 (skip_ws s) then
      match read_string (tl (skip_ws s)) with
      | None => None
      | Some (k, r1) =>
        if head_is 58 (skip_ws r1) then
          match read_value f (tl (skip_ws r1)) with
          | None => None
          | Some (v, r) =>
            if head_is 125 (skip_ws r) then Some ([(k, v)], tl (skip_ws r))
            else if head_is 44 (skip_ws r) then
              match read_members f (tl (skip_ws r)) with
              | Some (l, rest) => Some ((k, v) :: l, rest)
              | None => None
              end
            else None
          end
        else None
      end
    else None
  end.

(* a whole body: strict UTF-8, one value, nothing but white space after it *)
Definition loads_chars (s : list N) : option json :=
  match read_value s s with
  | Some (j, rest) => match skip_ws rest with [] => Some j | _ => None end
  | None => None
  end.

(* ---------- which messages a sequence of sending calls must put on the wire ---------- *)
(* JSON-RPC 2.0 envelopes (member order is immaterial: readers compare objects as unordered).
   `params` / error `data` are absent exactly when they are None. *)
Module SLit.
  Import Coq.Strings.String.
  Definition jsonrpc := Eval vm_compute in Lit.lit "jsonrpc".
  Definition v2 := Eval vm_compute in Lit.lit "2.0".
  Definition id := Eval vm_compute in Lit.lit "id".
  Definition result := Eval vm_compute in Lit.lit "result".
  Definition error := Eval vm_compute in Lit.lit "error".
  Definition code := Eval vm_compute in Lit.lit "code".
  Definition message := Eval vm_compute in Lit.lit "message".
  Definition data := Eval vm_compute in Lit.lit "data".
  Definition method := Eval vm_compute in Lit.lit "method".
  Definition params := Eval vm_compute in Lit.lit "params".
End SLit.

Definition unless_null (k : list N) (v : json) : list (list N * json) :=
  match v with JNull => [] | _ => [(k, v)] end.

Inductive expect :=
| Exact (members : list (list N * json))     (* one object with exactly these members *)
| InternalErrorFor (id : json).              (* an error response for id with code -32603 *)

Definition expected (s : send) : list expect :=
  match s with
  | SResponse id (Some r) =>
      [Exact [(SLit.jsonrpc, JStr SLit.v2); (SLit.id, id); (SLit.result, r)]]
  | SResponse id None => [InternalErrorFor id]
  | SError id e =>
      [Exact ([(SLit.jsonrpc, JStr SLit.v2); (SLit.id, id);
               (SLit.error, JObj ([(SLit.code, JInt (e_code e)); (SLit.message, JStr (e_message e))] ++
                                  unless_null SLit.data (e_data e)))])]
  | SNotify m (Some p) =>
      [Exact ([(SLit.jsonrpc, JStr SLit.v2); (SLit.method, JStr m)] ++ unless_null SLit.params p)]
  | SRequest id m (Some p) =>
      [Exact ([(SLit.jsonrpc, JStr SLit.v2); (SLit.id, id); (SLit.method, JStr m)] ++
              unless_null SLit.params p)]
  | SNotify _ None | SRequest _ _ None => []      (* cannot be serialised: nothing is sent *)
  | SRaw _ => []                                  (* not a message: the property is silent *)
  end.

(* Every string of the tree (keys included) is one JSON can carry faithfully. *)
Definition str_ok (s : list N) : bool := forallb is_cp s && pairfree s.
Fixpoint json_wf (j : json) : bool :=
  match j with
  | JStr s => str_ok s
  | JArr l => forallb json_wf l
  | JObj l => forallb (fun kv => str_ok (fst kv) && json_wf (snd kv)) l
  | _ => true
  end.
Definition payload_wf (p : payload) : bool := match p with Some j => json_wf j | None => true end.

(* the statement speaks of messages: ids are int or str, raw _send_data values are excluded *)
Definition id_ok (j : json) : bool :=
  match j with JInt _ => true | JStr s => str_ok s | _ => false end.
Definition send_guard (s : send) : bool :=
  match s with
  | SResponse id r => id_ok id && payload_wf r
  | SError id e => id_ok id && str_ok (e_message e) && json_wf (e_data e)
  | SNotify m p => str_ok m && payload_wf p
  | SRequest id m p => id_ok id && str_ok m && payload_wf p
  | SRaw _ => false
  end.

(* ---------- sessions: which sends belong to which writer ---------- *)
(* A session is: sends before any transport exists, then for each set_writer the sends made while
   that writer is installed.  The sends of the first part reach no writer, ever; the sends of a later
   part reach exactly that writer, in its framing mode. *)
Fixpoint seg {W} (ops : list (sop W)) : list send * list (W * bool * list send) :=
  match ops with
  | [] => ([], [])
  | OSend s :: r => let '(ss0, segs) := seg r in (s :: ss0, segs)
  | OSetWriter w h :: r => let '(ss0, segs) := seg r in ([], (w, h, ss0) :: segs)
  end.
Definition unseg {W} (ss0 : list send) (segs : list (W * bool * list send)) : list (sop W) :=
  map OSend ss0 ++
  flat_map (fun g => OSetWriter (fst (fst g)) (snd (fst g)) :: map OSend (snd g)) segs.

(* ---------- schedules ---------- *)
(* interleave qs out: `out` is obtained by repeatedly letting some sender perform its next
   operation, until every sender is done (any scheduler, any number of senders). *)
Inductive interleave {A : Type} : list (list A) -> list A -> Prop :=
| il_done qs : Forall (fun q => q = []) qs -> interleave qs []
| il_step qs1 x q qs2 out :
    interleave (qs1 ++ q :: qs2) out -> interleave (qs1 ++ (x :: q) :: qs2) (x :: out).

(* the same with an explicit schedule (list of sender indices), for running examples:
   an index that names no sender or a finished one is skipped *)
Fixpoint pick {A} (i : nat) (qs : list (list A)) : option (A * list (list A)) :=
  match qs with
  | [] => None
  | q :: r =>
    match i with
    | O => match q with x :: q' => Some (x, q' :: r) | [] => None end
    | S k => match pick k r with Some (x, r') => Some (x, q :: r') | None => None end
    end
  end.
Fixpoint run_schedule {A} (sched : list nat) (qs : list (list A)) : list A :=
  match sched with
  | [] => concat qs                      (* whatever is left runs sender after sender *)
  | i :: rest => match pick i qs with
                 | Some (x, qs') => x :: run_schedule rest qs'
                 | None => run_schedule rest qs
                 end
  end.
