(* Spec/DispatchSpec.v - what C14 promises, message by message (the reference S of the check).

   "Each incoming message is delivered exactly once to the handlers registered for its method: the
    built-in handler first, then the user handler for the same method, which therefore sees the
    workspace already updated; a failing user handler neither prevents nor undoes the built-in
    effect, and a message for a method with no handler invokes nothing.  Plain and coroutine handlers
    run on the event-loop thread, @thread handlers on a pool thread, and the server instance is
    injected exactly when the first parameter asks for it."

   The reference is a fold over the MESSAGES only (no tasks, no pool, no schedule):
     expect c k     the invocations message k owes, in order: the built-in (if the method has one),
                    for workspace/executeCommand the command, then the user's feature of that name;
                    each with the function it must reach, the thread, whether the server is passed,
                    the arguments, and whether it runs inside the delivery itself (`x_now`) or
                    later as a loop task / pool item;
     spec_ws        the workspace after each message: the fold of the built-ins' transformers
                    (Model.Dispatch.ws_effect - WHAT a built-in does to the workspace is the subject
                    of C04/C10; C14 is about WHEN it is applied relative to the user's handler);
     builtin_ok     the built-in does not raise on this message in this workspace (executable guard:
                    a raising built-in starves the user's handler - finding, see Props/C14.v).
   What uses the registry goes through Features.dispatch / exec_command / exec_site, whose
   agreement with the decorators is C19's subject. *)
From Coq Require Import ZArith NArith List Bool.
From Pygls Require Import Base.Assoc Model.Features Model.Dispatch.
Import ListNotations.
Local Open Scope N_scope.

Record xinv := mkX {
  x_part : part; x_meth : name; x_fid : N; x_site : tsite; x_inj : bool; x_args : list arg;
  x_now : bool;            (* the body starts inside the delivery of the message *)
  x_fut : bool }.          (* it answers a request: its future can be cancelled (C08, C09) *)

(* the ten built-ins of LanguageServerProtocol the model knows / any built-in of the protocol class *)
Definition is_builtin_call (k : call) : bool := match k with COther _ _ _ => false | _ => true end.
Definition isb (c : cfg) (k : call) : bool := mem_name (meth_of k) (bset c).

(* the arguments the built-in is called with, which the user's feature must receive too *)
Definition bargs (k : call) : list arg :=
  match k with CExecCmd i _ _ => [ACall k; AId i] | _ => [ACall k] end.

Definition inline (e : entry) : bool := match exec_site e with LoopInline => true | _ => false end.

Definition x_builtin (k : call) : xinv := mkX PBuiltin (meth_of k) 0 OnLoop false (bargs k) true false.

(* `inj`: whether the server is passed - in the promise: iff the function asks for it; in what
   the code does (`actual`): iff the registered callable binds it *)
Definition x_of (inj : entry -> bool) (p : part) (m : name) (args : list arg) (fut : bool) (e : entry) : xinv :=
  mkX p m (e_fid e) (tsite_of (exec_site e)) (inj e) args (inline e) fut.

Definition asked (c : cfg) (e : entry) : bool := memN (e_fid e) (c_asks c).

Definition is_req (k : call) : bool := match req_id k with Some _ => true | None => false end.

Definition cmd_part (inj : entry -> bool) (c : cfg) (k : call) : list xinv :=
  match k with
  | CExecCmd _ cmd a => map (x_of inj PCommand (Some cmd) [AVal a] true) (exec_command (c_reg c) (Some cmd))
  | _ => []
  end.

Definition user_part (inj : entry -> bool) (c : cfg) (k : call) : list xinv :=
  let users := snd (dispatch (bset c) (c_reg c) (meth_of k)) in
  if isb c k then map (x_of inj PUser (meth_of k) (bargs k) false) users
  else map (x_of inj PUser (meth_of k) [ACall k] (is_req k)) users.

Definition parts (inj : entry -> bool) (c : cfg) (k : call) : list xinv :=
  (if isb c k then [x_builtin k] else []) ++ cmd_part inj c k ++ user_part inj c k.

(* the promise *)
Definition expect (c : cfg) (k : call) : list xinv := parts (asked c) c k.

(* the built-in does not raise *)
Definition builtin_ok (c : cfg) (w : wsp) (k : call) : bool :=
  match k with
  | CExecCmd _ cmd _ =>
      match exec_command (c_reg c) (Some cmd) with
      | [] => false
      | e :: _ => negb (inline e && raises c e)
      end
  | _ => match ws_effect (c_tokens c) k w with Some _ => true | None => false end
  end.

(* what the code does when the built-in raises: the user's feature is skipped *)
Definition actual (c : cfg) (w : wsp) (k : call) : list xinv :=
  if isb c k && negb (builtin_ok c w k) then x_builtin k :: cmd_part e_inject c k
  else parts e_inject c k.

(* every registered callable binds the server iff its function asks for it (executable guard: it
   fails for a function that asks by ANNOTATION while typing.get_type_hints fails on it - finding) *)
Definition inj_ok (c : cfg) : bool :=
  forallb (fun p => Bool.eqb (e_inject (snd p)) (asked c (snd p))) (features (c_reg c)) &&
  forallb (fun p => Bool.eqb (e_inject (snd p)) (asked c (snd p))) (commands (c_reg c)).

(* handle_message's gate: after `shutdown` nothing is delivered *)
Definition delivered (w : wsp) : bool := negb (w_shut w).

Definition spec_step (c : cfg) (w : wsp) (k : call) : wsp :=
  if delivered w then match ws_effect (c_tokens c) k w with Some w' => w' | None => w end else w.

Definition spec_ws (c : cfg) (ks : list call) : wsp := fold_left (spec_step c) ks w0.

(* the reply the delivery itself must write: a built-in request answers with ITS result whatever
   the user's feature does; no handler: -32601; otherwise the reference is silent (C01, C07) *)
Inductive xreply := XNothing | XFrame (f : oframe) | XSilent.

Definition has_handler (c : cfg) (k : call) : bool := fst (dispatch (bset c) (c_reg c) (meth_of k)).

Definition spec_reply (c : cfg) (w : wsp) (k : call) : xreply :=
  if negb (delivered w) then XNothing
  else match req_id k with
       | None => XNothing
       | Some i =>
           if negb (has_handler c k) then XFrame (OError i code_method_not_found)
           else if isb c k && negb (is_exec k) then
                  (if builtin_ok c w k then XFrame (OResult i (result_of k)) else XSilent)
           else XSilent
       end.

(* the message does not lose a user's handler to a raising built-in *)
Definition msg_ok (c : cfg) (w : wsp) (k : call) : bool :=
  negb (isb c k) || builtin_ok c w k || match user_part e_inject c k with [] => true | _ => false end.

(* per message: delivered?, inside the guard?, the promise, the workspace afterwards, the reply *)
Record xmsg := mkXM { xm_delivered : bool; xm_ok : bool; xm_expect : list xinv; xm_ws : wsp; xm_reply : xreply }.

Fixpoint spec_run (c : cfg) (w : wsp) (ks : list call) : list xmsg :=
  match ks with
  | [] => []
  | k :: r =>
      let w' := spec_step c w k in
      mkXM (delivered w) (msg_ok c w k)
           (if delivered w then expect c k else []) w' (spec_reply c w k) :: spec_run c w' r
  end.

Definition calls_of (evs : list ev) : list call :=
  flat_map (fun e => match e with Recv k => [k] | _ => [] end) evs.

(* the guard of C14_partial: no delivered message makes its built-in raise while a user feature is
   registered for the same method (exactly the messages on which a user's handler is skipped) *)
Fixpoint msgs_ok (c : cfg) (w : wsp) (ks : list call) : bool :=
  match ks with
  | [] => true
  | k :: r => (negb (delivered w) || msg_ok c w k) && msgs_ok c (spec_step c w k) r
  end.

Definition all_ok (c : cfg) (w : wsp) (ks : list call) : bool := inj_ok c && msgs_ok c w ks.
