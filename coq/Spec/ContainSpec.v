(* Spec/ContainSpec.v - what C06 promises, as executable definitions.

   The messages under observation are named by a predicate `B : who -> bool` (requests by id,
   notifications by tag) plus marks on the schedule: a *marked* event is the arrival of a frame
   that is to be contained.  Three things are defined here:

     core_of B s   what one observes of a state when everything that belongs to the B-messages is
                   ignored: their replies, their handler-log entries, their handler tasks / pool
                   jobs / in-flight entries, their queued writes; and - on every side - the calls
                   of the error hook (`errs`), the hook's own window/showMessage output, the write
                   counter and the `storm` flag.  Task / job indices are renumbered (`rank`).
     obs s         the same observation without any filter (only errs / showMessage / counters go)
     erase         the schedule without the marked frames and without the steps that belong to
                   them (task steps, callbacks, job starts / finishes, awaitable writes of their
                   replies), the remaining task / job indices renumbered

   The non-interference statement of C06 is  core_of B (run c evs) = obs (run c (erase c B evs)).
   `contained` says which frames may be marked (the catalogue and more: ANY plain request or
   notification owned by B, failing or not), `wf_from` is the executable well-formedness of a
   marked schedule, `immediate_src` / `deferred_src` say which report a catalogue member owes. *)
From Coq Require Import ZArith NArith List Bool.
From Pygls Require Import Base.Assoc Model.Endpoint.
Import ListNotations.

Definition who_eqb (a b : who) : bool :=
  match a, b with
  | WReq i, WReq j => id_eqb i j
  | WNot m, WNot n => Nat.eqb m n
  | _, _ => false
  end.
Definition in_set (bl : list who) (w : who) : bool := existsb (who_eqb w) bl.

(* position of the n-th element among those satisfying p; past the end the excess is kept, so that
   an index that names nothing keeps naming nothing *)
Fixpoint rank {A : Type} (p : A -> bool) (l : list A) (n : nat) : nat :=
  match n, l with
  | O, _ => O
  | S _, [] => n
  | S n', x :: r => (if p x then 1 else 0) + rank p r n'
  end.

Record core := mkCore {
  k_shutdown : bool; k_futs : list (id * fref); k_rtypes : list (id * unit);
  k_tasks : list task; k_jobs : list job; k_wq : list wentry; k_outg : list ostate;
  k_out : list oframe; k_hlog : list hentry;
  k_closed : bool; k_exitq : list Z; k_exit : option Z; k_undef : bool }.

Definition no_show (f : oframe) : bool := match f with ONotif NShowMessage => false | _ => true end.

Definition obs (s : st) : core :=
  mkCore (shutdown s) (futs s) (rtypes s) (tasks s) (jobs s) (wq s) (outg s)
         (filter no_show (out s)) (hlog s) (closed s) (exitq s) (exit s) (undef s).

Section Contain.
Variable B : who -> bool.

Definition good_id (i : id) : bool := negb (B (WReq i)).
Definition good_t (tk : task) : bool := negb (B (t_who tk)).
Definition good_j (jb : job) : bool := negb (B (j_who jb)).
Definition good_h (h : hentry) : bool := negb (B (h_who h)).
Definition own (f : oframe) : bool := match f with OResp i _ => B (WReq i) | _ => false end.
Definition good_w (w : wentry) : bool := match w with WFrame f => negb (own f) | WClose _ => true end.
Definition vis (f : oframe) : bool := negb (own f) && no_show f.
Definition good_f (p : id * fref) : bool := good_id (fst p).

Definition map_ref (s : st) (r : fref) : fref :=
  match r with
  | FTask t => FTask (rank good_t (tasks s) t)
  | FJob j => FJob (rank good_j (jobs s) j)
  | FOut o => FOut o
  end.

Definition core_of (s : st) : core :=
  mkCore (shutdown s)
         (map (fun p => (fst p, map_ref s (snd p))) (filter good_f (futs s)))
         (rtypes s) (filter good_t (tasks s)) (filter good_j (jobs s)) (filter good_w (wq s)) (outg s)
         (filter vis (out s)) (filter good_h (hlog s)) (closed s) (exitq s) (exit s) (undef s).

(* ---------------------------------------------------------------- which frames may be marked *)
Definition plain_r (m : rmethod) : bool := match m with RShutdown _ => false | _ => true end.
Definition plain_n (m : nmethod) : bool := match m with NCancel _ | NExit _ => false | _ => true end.

(* nobody is waiting for a response with this id *)
Definition unknown_id (s : st) (i : id) : bool :=
  negb (Assoc.mem id_eqb i (rtypes s)) &&
  match Assoc.get id_eqb i (futs s) with None => true | Some _ => false end.

Definition contained (s : st) (f : frame) : bool :=
  match f with
  | FGarbage => true
  | FReq v i ps m =>
      match ps with
      | POk => if v then B (WReq i) && plain_r m else true
      | _ => B (WReq i)                      (* answered -32602 / -32603: its own reply *)
      end
  | FNotif v tag ps m =>
      match ps with
      | POk => if v then B (WNot tag) && plain_n m else true
      | _ => true
      end
  | FResp _ i _ _ => unknown_id s i
  end.

(* an unmarked frame does not bear a name of B *)
Definition foreign (f : frame) : bool :=
  match f with
  | FGarbage => true
  | FReq _ i _ _ => good_id i
  | FNotif _ tag _ _ => negb (B (WNot tag))
  | FResp _ i _ _ => good_id i
  end.

Definition wf1 (s : st) (me : bool * ev) : bool :=
  match me with
  | (true, Recv f) => contained s f
  | (true, _) => false
  | (false, Recv f) => foreign f
  | (false, UserSend i) => good_id i
  | (false, _) => true
  end.

(* ---------------------------------------------------------------- the erased schedule *)
Definition erase_task (s : st) (t : nat) (mk : nat -> ev) : list ev :=
  match nth_error (tasks s) t with
  | Some tk => if good_t tk then [mk (rank good_t (tasks s) t)] else []
  | None => [mk (rank good_t (tasks s) t)]
  end.
Definition erase_job (s : st) (j : nat) (mk : nat -> ev) : list ev :=
  match nth_error (jobs s) j with
  | Some jb => if good_j jb then [mk (rank good_j (jobs s) j)] else []
  | None => [mk (rank good_j (jobs s) j)]
  end.

Definition erase1 (s : st) (me : bool * ev) : list ev :=
  if fst me then []
  else
    match snd me with
    | TaskStep t => erase_task s t TaskStep
    | LoopCb t => erase_task s t LoopCb
    | JobStart j => erase_job s j JobStart
    | JobFinish j => erase_job s j JobFinish
    | WriteStep =>
        match wq s with
        | w :: _ => if good_w w then [WriteStep] else []
        | [] => [WriteStep]
        end
    | e => [e]
    end.

Fixpoint erase_from (c : cfg) (s : st) (mevs : list (bool * ev)) : list ev :=
  match mevs with
  | [] => []
  | me :: r => erase1 s me ++ erase_from c (step c s (snd me)) r
  end.

Fixpoint wf_from (c : cfg) (s : st) (mevs : list (bool * ev)) : bool :=
  match mevs with
  | [] => true
  | me :: r => wf1 s me && wf_from c (step c s (snd me)) r
  end.

(* how many events of the erased schedule each event of the marked schedule stands for (0 or 1) *)
Fixpoint erase_counts (c : cfg) (s : st) (mevs : list (bool * ev)) : list nat :=
  match mevs with
  | [] => []
  | me :: r => length (erase1 s me) :: erase_counts c (step c s (snd me)) r
  end.

End Contain.

(* the class the guard `contained` excludes and that is a finding (F30): a response of ANOTHER JSON-RPC
   version that names a request somebody IS waiting for - structure_message pops its result type
   before handle_message drops the message at the version gate *)
Definition other_version (f : frame) : bool :=
  match f with
  | FReq false _ POk _ | FNotif false _ POk _ => true
  | FResp false _ _ _ => true
  | _ => false
  end.
Definition vresp_known (s : st) (me : bool * ev) : bool :=
  match me with
  | (true, Recv (FResp false i _ _)) => negb (unknown_id s i)
  | _ => false
  end.

Definition erase (c : cfg) (B : who -> bool) (mevs : list (bool * ev)) : list ev := erase_from B c init mevs.
Definition wf (c : cfg) (B : who -> bool) (mevs : list (bool * ev)) : bool := wf_from B c init mevs.
Definition unmark (mevs : list (bool * ev)) : list ev := map snd mevs.

(* the configurations the non-interference theorem covers: a transport that works, and not the
   combination (awaitable writer, default hook): there the hook's showMessage queues behind the
   awaitable writes and an unattributable extra WriteStep is needed to flush it *)
Definition cfg_ok (c : cfg) : bool :=
  match c_wfail c with
  | Some _ => false
  | None => match c_writer c, c_hook c with WAwaitable, HookDefault => false | _, _ => true end
  end.

(* ---------------------------------------------------------------- the reports owed (clause iii) *)
Definition raising (b : behav) : bool :=
  match bout b with ORaise | ORaiseRpc _ => true | _ => false end.

Definition is_sync (b : behav) : bool := match bkind b with HSync => true | _ => false end.

(* handlers whose failure is known when `recv` returns: synchronous ones and pool jobs that finish
   before the done-callback is attached *)
Definition fails_at_once (b : behav) : bool :=
  raising b && match bkind b with HSync => true | HThread early => early | HAsync _ => false end.

(* the source class of the one report a bad frame owes as soon as it has been received;
   None: not a failure, or a failure that shows later (see deferred_src) *)
Definition immediate_src (f : frame) : option esrc :=
  match f with
  | FGarbage => Some EJsonRpc
  | FReq v _ ps m =>
      match ps with
      | POk =>
          if negb v then Some EJsonRpc
          else match m with
               | RUnknown => Some EFeatureRequest
               | RUser b => if fails_at_once b then Some EFeatureRequest else None
               | RBuiltin true _ => Some EFeatureRequest
               | RCommand None _ => Some EFeatureRequest
               | RCommand (Some b) None => if fails_at_once b then Some EFeatureRequest else None
               | RCommand (Some b) (Some _) =>     (* a chained user feature may add a report of its own *)
                   if raising b && is_sync b then Some EFeatureRequest else None
               | _ => None
               end
      | _ => Some EJsonRpc
      end
  | FNotif v _ ps m =>
      match ps with
      | POk =>
          if negb v then Some EJsonRpc
          else match m with
               | NUser b => if fails_at_once b then Some EFeatureNotification else None
               | NBuiltin true _ => Some EFeatureNotification
               | _ => None
               end
      | _ => Some EJsonRpc
      end
  | FResp _ _ _ _ => Some EJsonRpc           (* for an id nobody asked about *)
  end.

(* frames that `handle_message` drops silently once `shutdown` has been accepted *)
Definition gated (f : frame) : bool :=
  match f with
  | FReq true _ POk _ => true
  | FNotif true _ POk _ => true
  | FResp true _ true POk => true
  | _ => false
  end.

(* frames whose report comes after a reply of their own has been written *)
Definition replies_first (f : frame) : bool :=
  match f with
  | FReq _ _ PBad _ | FReq _ _ PFail _ => true
  | FReq true _ POk _ => true
  | _ => false
  end.

(* a finished future holds an exception: the done-callback owes one report *)
Definition failed (r : fres) : bool := match r with RExc | RRpc _ => true | _ => false end.
Definition deferred_src (cb : cbkind) : esrc :=
  match cb with CReq _ => EFeatureRequest | CNot => EFeatureNotification end.

(* the report an event owes, read off the state before it (used by the correspondence run) *)
Definition owed_report (s : st) (e : ev) : option esrc :=
  match exit s with
  | Some _ => None
  | None =>
      match e with
      | Recv f =>
          if gated f && shutdown s then None
          else match f with
               | FResp _ i _ _ => if unknown_id s i then immediate_src f else None
               | _ => immediate_src f
               end
      | LoopCb t =>
          match nth_error (tasks s) t with
          | Some tk => match t_st tk with
                       | TDoneCb r => if failed r then Some (deferred_src (t_cb tk)) else None
                       | _ => None
                       end
          | None => None
          end
      | JobFinish j =>
          match nth_error (jobs s) j with
          | Some jb => match j_st jb with
                       | JRunning => if raising (j_b jb) then Some (deferred_src (j_cb jb)) else None
                       | _ => None
                       end
          | None => None
          end
      | _ => None
      end
  end.

Fixpoint owed_from (c : cfg) (s : st) (evs : list ev) : list (option esrc) :=
  match evs with
  | [] => []
  | e :: r => owed_report s e :: owed_from c (step c s e) r
  end.

(* when the owed report is exactly one call of the hook: the transport works and is open (a reply
   that cannot be written is itself reported), and a pool thread does not answer through an
   awaitable writer (finding F18 of C01) *)
Definition owed_guard (c : cfg) (s : st) (e : ev) : bool :=
  match c_wfail c with
  | Some _ => false
  | None =>
      negb (closed s) &&
      match e, c_writer c with
      | JobFinish _, WAwaitable => false
      | _, _ => true
      end
  end.
