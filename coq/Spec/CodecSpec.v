(* What LSP means by a position: `character` counts code units of the negotiated encoding. *)
From Pygls Require Export Base.PyStr Model.Codec.
Open Scope N_scope.

Definition true_width (e : encoding) (c : N) : N :=
  match e with Utf8 => utf8_width c | Utf16 => utf16_width c | Utf32 => utf32_width c end.

(* length of a string in code units of e *)
Fixpoint units (e : encoding) (s : list N) : N :=
  match s with [] => 0 | c :: r => true_width e c + units e r end.

(* An LSP line: a body without CR/LF followed by one of the four possible terminators *)
Definition no_eol (s : list N) : bool := forallb (fun c => negb (is_eol c)) s.
Definition is_term (t : list N) : bool :=
  match t with [] => true | [10] => true | [13] => true | [13; 10] => true | _ => false end.

(* The classes of input on which the pinned code uses true widths (finding 17 excludes the rest) *)
Definition widths_exact (e : encoding) (s : list N) : bool :=
  match e with Utf8 => ascii_str s | _ => true end.

(* ---- executable reference (what the correspondence run judges the implementation by) ---- *)

(* the body of a line: the line without its (single) terminator *)
Fixpoint strip_term (line : list N) : list N :=
  match line with
  | [] => []
  | c :: r =>
    match r with
    | [] => if is_eol c then [] else [c]
    | d :: r' =>
      if (c =? 13) && (d =? 10) then match r' with [] => [] | _ => c :: strip_term r end
      else c :: strip_term r
    end
  end.

(* column of the position `ch` code units into body: Some k on a character boundary or
   past the end (clamped), None strictly inside a character *)
Fixpoint spec_col (e : encoding) (body : list N) (ch k : N) : option N :=
  if ch =? 0 then Some k
  else match body with
       | [] => Some k
       | c :: r => if ch <? true_width e c then None else spec_col e r (ch - true_width e c) (k + 1)
       end.

Definition spec_from (e : encoding) (lines : list (list N)) (p : N * N) : option (N * N) :=
  let '(l, ch) := p in
  match lines with
  | [] => Some (0, 0)
  | _ =>
    if len lines <=? l then Some (len lines - 1, len (last lines []))
    else match spec_col e (strip_term (nth (N.to_nat l) lines [])) ch 0 with
         | Some k => Some (l, k)
         | None => None
         end
  end.

Definition spec_to (e : encoding) (lines : list (list N)) (p : N * N) : N * N :=
  let '(l, k) := p in
  if len lines <=? l then (len lines, 0) else (l, units e (take k (nth (N.to_nat l) lines []))).

(* executable guards: exactly the input classes excluded by the open findings F17 (utf-8
   widths) and F16' (past-EOF unit count used as an index) *)
Definition guard_char (e : encoding) (c : N) : bool := widths_exact e [c].
Definition guard_str (e : encoding) (s : list N) : bool := widths_exact e s.
Definition guard_eof (e : encoding) (s : list N) : bool :=
  match e with Utf32 => true | _ => count_astral s =? 0 end.

(* which theorem clause (if any) covers a `from` case *)
Definition from_guard (e : encoding) (lines : list (list N)) (p : N * N) : bool :=
  let '(l, ch) := p in
  match lines with
  | [] => true
  | _ =>
    if len lines <=? l then guard_eof e (last lines [])
    else let body := strip_term (nth (N.to_nat l) lines []) in
         match spec_col e body ch 0 with
         | Some k => guard_str e (take k body)
         | None => false
         end
  end.
Definition to_guard (e : encoding) (lines : list (list N)) (p : N * N) : bool :=
  let '(l, k) := p in
  if len lines <=? l then true else guard_str e (take k (nth (N.to_nat l) lines [])).
