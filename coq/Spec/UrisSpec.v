(* What C18 promises, written without reference to the model (shares only Base/Unicode.v):
   - the two documented normalisations of a path ([norm], with its authority and path parts),
   - RFC 3986: the generic split of Appendix B, strict percent-decoding, the canonical
     percent-encoding of a UTF-8 string (unreserved characters kept),
   - the canonical file URI of a path ([spec_uri]), which is the executable reference S of the
     correspondence run, and the executable guard that excludes finding 22. *)
From Coq Require Import NArith List Bool.
From Pygls Require Export Base.Unicode.
Open Scope N_scope.

(* ---------- characters (RFC 3986 section 2.3) ---------- *)
Definition letter (c : N) : bool := ((65 <=? c) && (c <=? 90)) || ((97 <=? c) && (c <=? 122)).
Definition digit (c : N) : bool := (48 <=? c) && (c <=? 57).
Definition unreserved (c : N) : bool :=
  letter c || digit c || (c =? 45) || (c =? 46) || (c =? 95) || (c =? 126).     (* - . _ ~ *)
Definition to_lower (c : N) : N := if (65 <=? c) && (c <=? 90) then c + 32 else c.
Definition hex_char (c : N) : bool :=
  digit c || ((65 <=? c) && (c <=? 70)) || ((97 <=? c) && (c <=? 102)).

(* ---------- paths ---------- *)
(* an absolute path: starts with "/", every character a Unicode scalar value *)
Definition abs_path (p : list N) : bool :=
  match p with c :: _ => c =? 47 | [] => false end && forallb scalar p.

(* the text up to the first "/", and the rest *)
Fixpoint upto_slash (s : list N) : list N * list N :=
  match s with
  | [] => ([], [])
  | c :: r => if c =? 47 then ([], s) else let '(a, b) := upto_slash r in (c :: a, b)
  end.
(* "//host" ++ tail, tail empty or starting with "/" *)
Definition unc_parts (p : list N) : option (list N * list N) :=
  match p with
  | a :: b :: r => if (a =? 47) && (b =? 47) then Some (upto_slash r) else None
  | _ => None
  end.
(* "/X:" *)
Definition has_drive (q : list N) : bool :=
  match q with a :: b :: c :: _ => (a =? 47) && letter b && (c =? 58) | _ => false end.
Definition lower_drive (q : list N) : list N :=
  if has_drive q then match q with a :: b :: r => a :: to_lower b :: r | _ => q end else q.

(* The documented normalisations: a leading "//host" is the authority (a bare "//host" has the
   root path "/", as in vscode-uri); a drive letter at the start of the path part is lower-cased
   ("normalize windows drive letters to lower-case"), and without an authority it loses its
   slash ("/C:/x" -> "c:/x").  Nothing else: in particular an EMPTY authority ("///x") is kept. *)
Definition norm_host (p : list N) : list N :=
  match unc_parts p with Some (h, _) => h | None => [] end.
Definition norm_path (p : list N) : list N :=
  lower_drive (match unc_parts p with
               | Some (_, []) => [47]
               | Some (_, t) => t
               | None => p
               end).
Definition norm (p : list N) : list N :=
  match unc_parts p with
  | Some (h, _) => 47 :: 47 :: h ++ norm_path p
  | None => if has_drive (norm_path p) then tl (norm_path p) else norm_path p
  end.

(* Finding 22: the class of paths with an empty authority ("//", "///...") *)
Definition empty_authority (p : list N) : bool :=
  match unc_parts p with Some ([], _) => true | _ => false end.
Definition guard (p : list N) : bool := abs_path p && negb (empty_authority p).

(* ---------- RFC 3986 Appendix B: the generic split.  In words: an optional scheme (a non-empty
   run without : / ? # followed by ":"), an optional authority ("//" and a run without / ? #),
   the path (a run without ? #), an optional query ("?" and a run without #), an optional
   fragment ("#" and everything after it). ---------- *)
Fixpoint span_not (stop : N -> bool) (s : list N) : list N * list N :=
  match s with
  | [] => ([], [])
  | c :: r => if stop c then ([], s) else let '(a, b) := span_not stop r in (c :: a, b)
  end.
Definition c_colon (c : N) := c =? 58.
Definition c_slash (c : N) := c =? 47.
Definition c_qm (c : N) := c =? 63.
Definition c_hash (c : N) := c =? 35.

Record uri_parts := mk_parts {
  u_scheme : option (list N); u_authority : option (list N); u_path : list N;
  u_query : option (list N); u_fragment : option (list N) }.

Definition rfc_scheme (s : list N) : option (list N) * list N :=
  let '(pre, rest) := span_not (fun c => c_colon c || c_slash c || c_qm c || c_hash c) s in
  match pre, rest with
  | _ :: _, c :: r => if c_colon c then (Some pre, r) else (None, s)
  | _, _ => (None, s)
  end.
Definition rfc_authority (s1 : list N) : option (list N) * list N :=
  match s1 with
  | a :: b :: r =>
    if c_slash a && c_slash b
    then let '(au, r') := span_not (fun c => c_slash c || c_qm c || c_hash c) r in (Some au, r')
    else (None, s1)
  | _ => (None, s1)
  end.
Definition rfc_path (s2 : list N) : list N * list N := span_not (fun c => c_qm c || c_hash c) s2.
Definition rfc_query (s3 : list N) : option (list N) * list N :=
  match s3 with
  | c :: r => if c_qm c then let '(q, r') := span_not c_hash r in (Some q, r') else (None, s3)
  | [] => (None, s3)
  end.
Definition rfc_fragment (s4 : list N) : option (list N) :=
  match s4 with c :: r => if c_hash c then Some r else None | [] => None end.

Definition rfc3986_split (s : list N) : uri_parts :=
  let sc := rfc_scheme s in
  let au := rfc_authority (snd sc) in
  let pa := rfc_path (snd au) in
  let qu := rfc_query (snd pa) in
  mk_parts (fst sc) (fst au) (fst pa) (fst qu) (rfc_fragment (snd qu)).

(* ---------- percent-encoding (RFC 3986 section 2.1) ---------- *)
Definition hex_value (c : N) : option N :=
  if digit c then Some (c - 48)
  else if (65 <=? c) && (c <=? 70) then Some (c - 55)
  else if (97 <=? c) && (c <=? 102) then Some (c - 87)
  else None.
(* strict: every "%" must be followed by two hex digits; result = the octets *)
Fixpoint pct_decode (s : list N) : option (list N) :=
  match s with
  | [] => Some []
  | c :: r =>
    if c =? 37 then
      match r with
      | h :: l :: r' =>
        match hex_value h, hex_value l, pct_decode r' with
        | Some a, Some b, Some t => Some (a * 16 + b :: t)
        | _, _, _ => None
        end
      | _ => None
      end
    else match pct_decode r with Some t => Some (c :: t) | None => None end
  end.

Definition hex_digit (n : N) : N :=
  nth (N.to_nat n) [48; 49; 50; 51; 52; 53; 54; 55; 56; 57; 65; 66; 67; 68; 69; 70] 48.
Definition pct_encode_octet (keep : N -> bool) (b : N) : list N :=
  if keep b then [b] else [37; hex_digit (b / 16); hex_digit (b mod 16)].
(* canonical encoding of a string: UTF-8 octets, kept characters literal, the rest %XX *)
Definition pct_encode (keep : N -> bool) (s : list N) : list N :=
  flat_map (pct_encode_octet keep) (utf8_enc_all s).

(* ---------- the canonical file URI of a path ---------- *)
Definition keep_host (c : N) : bool := unreserved c.
Definition keep_path (c : N) : bool := unreserved c || (c =? 47).
Definition s_file_scheme : list N := [102; 105; 108; 101].            (* "file" *)
(* the colon of a drive letter is a legal path character and stays literal *)
Definition encode_path (q : list N) : list N :=
  if has_drive q then firstn 3 q ++ pct_encode keep_path (skipn 3 q) else pct_encode keep_path q.
Definition spec_uri (p : list N) : list N :=
  s_file_scheme ++ [58; 47; 47] ++ pct_encode keep_host (norm_host p) ++ encode_path (norm_path p).

(* characters a file URI produced from a path may consist of *)
Definition uri_char (c : N) : bool :=
  unreserved c || (c =? 47) || (c =? 58) || (c =? 37).

(* ---------- "a URI with a non-file scheme" ---------- *)
(* printable ASCII without brackets (brackets are legal only around IP literals) *)
Definition plain_uri (u : list N) : bool :=
  forallb (fun c => (32 <? c) && (c <? 127) && negb (c =? 91) && negb (c =? 93)) u.
Fixpoint eqb_str (a b : list N) : bool :=
  match a, b with
  | [], [] => true
  | x :: a', y :: b' => (x =? y) && eqb_str a' b'
  | _, _ => false
  end.
(* schemes are case-insensitive (RFC 3986 section 3.1) *)
Definition scheme_is_file (u : list N) : bool :=
  match u_scheme (rfc3986_split u) with
  | Some s => eqb_str (map to_lower s) s_file_scheme
  | None => false
  end.

(* ---------- executable reference of the correspondence run ---------- *)
(* path -> (URI, path obtained back from the URI) *)
Definition spec_roundtrip (p : list N) : list N * list N := (spec_uri p, norm p).

(* =====================================================================================
   Extension: Windows paths, and the expected result of replacing components of a file URI
   ===================================================================================== *)
(* Windows: both separators are accepted on input ("normalize to fwd-slashes on windows"), the
   path that comes back "uses the platform specific path separator".  A drive-absolute path
   "c:\far\boo" corresponds to the URI path "/c:/far/boo" (tests/test_uris.py). *)
Definition to_slash (p : list N) : list N := map (fun c => if c =? 92 then 47 else c) p.
Definition to_backslash (p : list N) : list N := map (fun c => if c =? 47 then 92 else c) p.
Definition rooted (s : list N) : list N :=
  match s with c :: _ => if c =? 47 then s else 47 :: s | [] => [47] end.
(* the path with forward slashes and a leading slash: what the POSIX statement is applied to *)
Definition win_slashed (p : list N) : list N := rooted (to_slash p).
Definition win_norm (p : list N) : list N := to_backslash (norm (win_slashed p)).
Definition win_guard (p : list N) : bool := forallb scalar p && guard (win_slashed p).
Definition spec_roundtrip_win (p : list N) : list N * list N := (spec_uri (win_slashed p), win_norm p).

(* uri_with on a URI produced from the path p: new path fp (a filesystem path without an
   authority of its own), optionally a new authority, query and fragment *)
Definition opt_or (a : option (list N)) (b : list N) : list N :=
  match a with Some (c :: r) => c :: r | _ => b end.
Definition with_suffix (query fragment : list N) : list N :=
  (match query with [] => [] | _ => 63 :: pct_encode keep_path query end) ++
  (match fragment with [] => [] | _ => 35 :: pct_encode keep_path fragment end).
(* the new path is a filesystem path: if it carries an authority of its own ("//host/x") that
   is the authority of the result unless one is given explicitly; otherwise the old one stays *)
Definition spec_uri_with (p fp : list N) (netloc query fragment : option (list N)) : list N :=
  let host := match unc_parts (rooted fp) with
              | Some _ => norm_host (rooted fp)
              | None => norm_host p
              end in
  s_file_scheme ++ [58; 47; 47] ++ pct_encode keep_host (opt_or netloc host) ++
  encode_path (norm_path (rooted fp)) ++ with_suffix (opt_or query []) (opt_or fragment []).
(* the class in which uri_with is claimed to do that: the URI comes from a path inside the C18
   guard, the new path has no authority of its own (finding candidate F29 otherwise), a new
   authority has no "/" *)
Definition no_slash (s : list N) : bool := forallb (fun c => negb (c =? 47)) s.
Definition opt_scalar (a : option (list N)) : bool :=
  match a with Some x => forallb scalar x | None => true end.
Definition path_has_authority (fp : list N) : bool :=
  match unc_parts (rooted fp) with Some _ => true | None => false end.
Definition with_guard (p fp : list N) (netloc query fragment : option (list N)) : bool :=
  guard p && forallb scalar fp && negb (path_has_authority fp) &&
  opt_scalar netloc && no_slash (opt_or netloc []) && opt_scalar query && opt_scalar fragment.

(* the scheme of a URI (RFC 3986 section 3.1: ALPHA *( ALPHA / DIGIT / "+" / "-" / "." ), case-insensitive,
   canonical form lower case); None when the string does not start with a valid scheme and ":" *)
Definition valid_scheme (s : list N) : bool :=
  match s with c0 :: _ => letter c0 | [] => false end &&
  forallb (fun c => letter c || digit c || (c =? 43) || (c =? 45) || (c =? 46)) s.
Definition spec_scheme (u : list N) : option (list N) :=
  match u_scheme (rfc3986_split u) with
  | Some s => if valid_scheme s then Some (map to_lower s) else None
  | None => None
  end.
