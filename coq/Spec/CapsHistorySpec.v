(* C12 reference for a registration history: a method has the handler and the options of the
   FIRST attempt that was valid (valid name, options pass the type check); every later attempt
   for that method is refused and must leave no trace in what initialize advertises.  Commands:
   the distinct valid names in order of first registration.  Written without the registry. *)
From Coq Require Import NArith List Bool.
From Pygls Require Import Model.Features Model.Caps.
Import ListNotations.
Open Scope N_scope.

(* the options argument is acceptable: absent / falsy, or the oracle says so *)
Definition passes (o : optarg) : bool :=
  match o with
  | ONone => true
  | OObj _ false _ _ => true
  | OObj _ true _ CkNoType | OObj _ true _ CkValid => true
  | OObj _ true _ _ => false
  end.

Fixpoint first_valid (n : name) (xs : list op) : option optarg :=
  match xs with
  | [] => None
  | OpFeature n' o _ :: t =>
      if name_eqb n n' && negb (name_invalid n') && passes o then Some o else first_valid n t
  | _ :: t => first_valid n t
  end.

Fixpoint command_names (seen : list name) (xs : list op) : list name :=
  match xs with
  | [] => []
  | OpCommand n _ :: t =>
      if name_invalid n || mem_name n seen then command_names seen t
      else n :: command_names (seen ++ [n]) t
  | _ :: t => command_names seen t
  end.

Definition spec_cfg_of_history (nm : method -> name) (cid : name -> N) (h : list op)
                               (h0 : N -> obj) (sk nb : option N) (cli : client) : config :=
  {| reg := fun m => match first_valid (nm m) h with Some _ => true | None => false end;
     opt := fun m => match first_valid (nm m) h with
                     | Some o => if opt_truthy o then Some (opt_id o) else None
                     | None => None
                     end;
     heap0 := h0;
     Caps.commands := map cid (command_names [] h);
     sync_kind := sk; nb_sync := nb; cl := cli |}.
