(* C12 reference: what LSP 3.17 (section ServerCapabilities) and the property promise for the
   initialize result.  TRUSTED: the table below is hand-copied from the specification (DESIGN.md
   section 5, C12); it is the oracle.  Nothing here looks at how the builder is written: each
   observable slot is given directly as a function of the registration, the registered options,
   and the client switches.                                                                    *)
From Coq Require Import NArith List Bool.
From Pygls Require Export Model.Caps.
Import ListNotations.
Open Scope N_scope.

(* ---- the oracle table: LSP method -> the ServerCapabilities slot that speaks for it ---------- *)
Definition provider_of (m : method) : option field :=
  match m with
  | TEXT_DOCUMENT_DID_OPEN | TEXT_DOCUMENT_DID_CLOSE => Some FSyncOpenClose
  | TEXT_DOCUMENT_DID_CHANGE => Some FSyncChange
  | TEXT_DOCUMENT_WILL_SAVE => Some FSyncWillSave
  | TEXT_DOCUMENT_WILL_SAVE_WAIT_UNTIL => Some FSyncWillSaveWaitUntil
  | TEXT_DOCUMENT_DID_SAVE => Some FSyncSave
  | NOTEBOOK_DOCUMENT_DID_OPEN | NOTEBOOK_DOCUMENT_DID_CHANGE | NOTEBOOK_DOCUMENT_DID_SAVE
  | NOTEBOOK_DOCUMENT_DID_CLOSE => Some FNotebookSync
  | TEXT_DOCUMENT_COMPLETION | COMPLETION_ITEM_RESOLVE => Some FCompletion
  | TEXT_DOCUMENT_HOVER => Some FHover
  | TEXT_DOCUMENT_SIGNATURE_HELP => Some FSignatureHelp
  | TEXT_DOCUMENT_DECLARATION => Some FDeclaration
  | TEXT_DOCUMENT_DEFINITION => Some FDefinition
  | TEXT_DOCUMENT_TYPE_DEFINITION => Some FTypeDefinition
  | TEXT_DOCUMENT_INLAY_HINT | INLAY_HINT_RESOLVE => Some FInlayHint
  | TEXT_DOCUMENT_IMPLEMENTATION => Some FImplementation
  | TEXT_DOCUMENT_REFERENCES => Some FReferences
  | TEXT_DOCUMENT_DOCUMENT_HIGHLIGHT => Some FDocumentHighlight
  | TEXT_DOCUMENT_DOCUMENT_SYMBOL => Some FDocumentSymbol
  | TEXT_DOCUMENT_CODE_ACTION | CODE_ACTION_RESOLVE => Some FCodeAction
  | TEXT_DOCUMENT_CODE_LENS | CODE_LENS_RESOLVE => Some FCodeLens
  | TEXT_DOCUMENT_DOCUMENT_LINK | DOCUMENT_LINK_RESOLVE => Some FDocumentLink
  | TEXT_DOCUMENT_DOCUMENT_COLOR => Some FColor
  | TEXT_DOCUMENT_FORMATTING => Some FFormatting
  | TEXT_DOCUMENT_RANGE_FORMATTING => Some FRangeFormatting
  | TEXT_DOCUMENT_ON_TYPE_FORMATTING => Some FOnTypeFormatting
  | TEXT_DOCUMENT_RENAME | TEXT_DOCUMENT_PREPARE_RENAME => Some FRename
  | TEXT_DOCUMENT_FOLDING_RANGE => Some FFoldingRange
  | TEXT_DOCUMENT_SELECTION_RANGE => Some FSelectionRange
  | TEXT_DOCUMENT_PREPARE_CALL_HIERARCHY => Some FCallHierarchy
  | TEXT_DOCUMENT_PREPARE_TYPE_HIERARCHY => Some FTypeHierarchy
  | TEXT_DOCUMENT_SEMANTIC_TOKENS_FULL | TEXT_DOCUMENT_SEMANTIC_TOKENS_FULL_DELTA
  | TEXT_DOCUMENT_SEMANTIC_TOKENS_RANGE => Some FSemanticTokens
  | TEXT_DOCUMENT_LINKED_EDITING_RANGE => Some FLinkedEditingRange
  | TEXT_DOCUMENT_MONIKER => Some FMoniker
  | WORKSPACE_SYMBOL | WORKSPACE_SYMBOL_RESOLVE => Some FWorkspaceSymbol
  | WORKSPACE_WILL_CREATE_FILES => Some FWillCreate
  | WORKSPACE_DID_CREATE_FILES => Some FDidCreate
  | WORKSPACE_WILL_DELETE_FILES => Some FWillDelete
  | WORKSPACE_DID_DELETE_FILES => Some FDidDelete
  | WORKSPACE_WILL_RENAME_FILES => Some FWillRename
  | WORKSPACE_DID_RENAME_FILES => Some FDidRename
  | TEXT_DOCUMENT_DIAGNOSTIC | WORKSPACE_DIAGNOSTIC => Some FDiagnostic
  | TEXT_DOCUMENT_INLINE_VALUE => Some FInlineValue
  | WORKSPACE_EXECUTE_COMMAND => Some FExecuteCommand
  | WORKSPACE_DID_CHANGE_WORKSPACE_FOLDERS => Some FWorkspaceFolders
  | MOther _ => None            (* bears no static server capability in LSP 3.17 *)
  end.

(* How a provider slot is filled (the R / O marks of the table and the default form). *)
Inductive kind :=
| KTrue                       (* `boolean | XOptions`: registered options, else true *)
| KObject                     (* `XOptions` only: registered options, else an empty options object *)
| KResolveForced (r : method) (* XOptions whose resolveProvider is exactly "r has a handler" *)
| KResolveRaised (r : method) (dflt_obj : bool)
                              (* resolveProvider true when r has a handler, else the options as
                                 registered; default form {} (dflt_obj) or true *)
| KMandatory.                 (* provider has mandatory members: advertised only with registered options *)

(* the row of each plain provider slot: the method that must have a handler, and the kind *)
Definition row (f : field) : option (method * kind) :=
  match f with
  | FCompletion => Some (TEXT_DOCUMENT_COMPLETION, KResolveRaised COMPLETION_ITEM_RESOLVE true)
  | FHover => Some (TEXT_DOCUMENT_HOVER, KTrue)
  | FSignatureHelp => Some (TEXT_DOCUMENT_SIGNATURE_HELP, KObject)
  | FDeclaration => Some (TEXT_DOCUMENT_DECLARATION, KTrue)
  | FDefinition => Some (TEXT_DOCUMENT_DEFINITION, KTrue)
  | FTypeDefinition => Some (TEXT_DOCUMENT_TYPE_DEFINITION, KTrue)
  | FInlayHint => Some (TEXT_DOCUMENT_INLAY_HINT, KResolveForced INLAY_HINT_RESOLVE)
  | FImplementation => Some (TEXT_DOCUMENT_IMPLEMENTATION, KTrue)
  | FReferences => Some (TEXT_DOCUMENT_REFERENCES, KTrue)
  | FDocumentHighlight => Some (TEXT_DOCUMENT_DOCUMENT_HIGHLIGHT, KTrue)
  | FDocumentSymbol => Some (TEXT_DOCUMENT_DOCUMENT_SYMBOL, KTrue)
  | FCodeAction => Some (TEXT_DOCUMENT_CODE_ACTION, KResolveRaised CODE_ACTION_RESOLVE false)
  | FCodeLens => Some (TEXT_DOCUMENT_CODE_LENS, KResolveForced CODE_LENS_RESOLVE)
  | FDocumentLink => Some (TEXT_DOCUMENT_DOCUMENT_LINK, KResolveForced DOCUMENT_LINK_RESOLVE)
  | FColor => Some (TEXT_DOCUMENT_DOCUMENT_COLOR, KTrue)
  | FFormatting => Some (TEXT_DOCUMENT_FORMATTING, KTrue)
  | FRangeFormatting => Some (TEXT_DOCUMENT_RANGE_FORMATTING, KTrue)
  | FOnTypeFormatting => Some (TEXT_DOCUMENT_ON_TYPE_FORMATTING, KMandatory)
  | FFoldingRange => Some (TEXT_DOCUMENT_FOLDING_RANGE, KTrue)
  | FSelectionRange => Some (TEXT_DOCUMENT_SELECTION_RANGE, KTrue)
  | FCallHierarchy => Some (TEXT_DOCUMENT_PREPARE_CALL_HIERARCHY, KTrue)
  | FTypeHierarchy => Some (TEXT_DOCUMENT_PREPARE_TYPE_HIERARCHY, KTrue)
  | FLinkedEditingRange => Some (TEXT_DOCUMENT_LINKED_EDITING_RANGE, KTrue)
  | FMoniker => Some (TEXT_DOCUMENT_MONIKER, KTrue)
  | FWorkspaceSymbol => Some (WORKSPACE_SYMBOL, KResolveForced WORKSPACE_SYMBOL_RESOLVE)
  | FInlineValue => Some (TEXT_DOCUMENT_INLINE_VALUE, KTrue)
  | _ => None
  end.

(* file operations: method, and the client capability that gates the slot (O filters; G) *)
Definition fileop_row (f : field) : option (method * fileop) :=
  match f with
  | FWillCreate => Some (WORKSPACE_WILL_CREATE_FILES, OpWillCreate)
  | FDidCreate => Some (WORKSPACE_DID_CREATE_FILES, OpDidCreate)
  | FWillDelete => Some (WORKSPACE_WILL_DELETE_FILES, OpWillDelete)
  | FDidDelete => Some (WORKSPACE_DID_DELETE_FILES, OpDidDelete)
  | FWillRename => Some (WORKSPACE_WILL_RENAME_FILES, OpWillRename)
  | FDidRename => Some (WORKSPACE_DID_RENAME_FILES, OpDidRename)
  | _ => None
  end.

(* ---- the reference --------------------------------------------------------------------------- *)
Section Spec.
Variable c : config.

(* the option object i exactly as it was registered *)
Definition as_registered (i : N) : value :=
  VObj i (o_resolve (heap0 c i)) (o_wsdiag (heap0 c i)).
(* ... with its resolveProvider member stating b *)
Definition with_resolve (i : N) (b : bool) : value := VObj i (Some b) (o_wsdiag (heap0 c i)).

Definition spec_row (m : method) (k : kind) : value :=
  if negb (reg c m) then VNone
  else match k, opt c m with
       | KTrue, Some i => as_registered i
       | KTrue, None => VBool true
       | KObject, Some i => as_registered i
       | KObject, None => VOpts None
       | KResolveForced r, Some i => with_resolve i (reg c r)
       | KResolveForced r, None => VOpts (Some (reg c r))
       | KResolveRaised r d, Some i => if reg c r then with_resolve i true else as_registered i
       | KResolveRaised r d, None =>
           if reg c r then VOpts (Some true) else if d then VOpts None else VBool true
       | KMandatory, Some i => as_registered i
       | KMandatory, None => VNone
       end.

Definition gate_on (g : option bool) : bool := match g with Some true => true | _ => false end.

(* willSave / willSaveWaitUntil: stated only when the client said something about it *)
Definition spec_gated_flag (g : option bool) (m : method) : value :=
  match g with
  | Some true => VBool (reg c m)
  | Some false => VBool false
  | None => VNone
  end.

(* semantic tokens: the legend is the options of the first of full, full/delta, range that was
   registered with options *)
Definition registered_options (m : method) : option N := if reg c m then opt c m else None.
Definition spec_semantic_tokens : value :=
  let pick := match registered_options TEXT_DOCUMENT_SEMANTIC_TOKENS_FULL with
              | Some i => Some i
              | None => match registered_options TEXT_DOCUMENT_SEMANTIC_TOKENS_FULL_DELTA with
                        | Some i => Some i
                        | None => registered_options TEXT_DOCUMENT_SEMANTIC_TOKENS_RANGE
                        end
              end in
  match pick with
  | None => VNone
  | Some i =>
    if o_isreg (heap0 c i) then as_registered i
    else VSemTok i (if reg c TEXT_DOCUMENT_SEMANTIC_TOKENS_FULL_DELTA then SFDelta
                    else if reg c TEXT_DOCUMENT_SEMANTIC_TOKENS_FULL then SFTrue else SFNone)
                 (reg c TEXT_DOCUMENT_SEMANTIC_TOKENS_RANGE)
  end.

(* position encoding: the first client preference we support, else utf-16 *)
Fixpoint first_supported (l : list N) : option N :=
  match l with
  | [] => None
  | e :: r => if (e =? 8) || (e =? 16) || (e =? 32) then Some e else first_supported r
  end.
Definition spec_encoding : N :=
  match bind (general (cl c)) position_encodings with
  | Some l => match first_supported l with Some e => e | None => 16 end
  | None => 16
  end.

Definition spec_caps (f : field) : value :=
  match f with
  | FSyncOpenClose => VBool (reg c TEXT_DOCUMENT_DID_OPEN || reg c TEXT_DOCUMENT_DID_CLOSE)
  | FSyncChange => match sync_kind c with Some k => VNum k | None => VNone end
  | FSyncWillSave => spec_gated_flag (cap_will_save (cl c)) TEXT_DOCUMENT_WILL_SAVE
  | FSyncWillSaveWaitUntil =>
      spec_gated_flag (cap_will_save_wait_until (cl c)) TEXT_DOCUMENT_WILL_SAVE_WAIT_UNTIL
  | FSyncSave => if reg c TEXT_DOCUMENT_DID_SAVE
                 then match opt c TEXT_DOCUMENT_DID_SAVE with
                      | Some i => as_registered i | None => VBool true end
                 else VBool false
  | FNotebookSync => if notebook_document (cl c)
                     then match nb_sync c with Some p => VNotebook p | None => VNone end
                     else VNone
  | FRename =>
      if reg c TEXT_DOCUMENT_RENAME then
        if cap_prepare_support (cl c) then
          match opt c TEXT_DOCUMENT_RENAME with
          | Some i => VObjPrepare i (reg c TEXT_DOCUMENT_PREPARE_RENAME)
          | None => VRename (reg c TEXT_DOCUMENT_PREPARE_RENAME)
          end
        else VBool true       (* RenameOptions may only be given to a client with prepareSupport *)
      else VNone
  | FExecuteCommand => VCommands (commands c)
  | FSemanticTokens => spec_semantic_tokens
  | FWorkspaceFolders => VFolders
  | FDiagnostic =>
      if reg c TEXT_DOCUMENT_DIAGNOSTIC then
        match opt c TEXT_DOCUMENT_DIAGNOSTIC with
        | Some i => VObj i (o_resolve (heap0 c i)) (Some (reg c WORKSPACE_DIAGNOSTIC))
        | None => VDiag (reg c WORKSPACE_DIAGNOSTIC)
        end
      else VNone
  | FPositionEncoding => VEnc spec_encoding
  | _ =>
    match row f, fileop_row f with
    | Some (m, k), _ => spec_row m k
    | None, Some (m, o) => if gate_on (cap_fileop (cl c) o) then spec_row m KMandatory else VNone
    | None, None => VNone
    end
  end.

(* ---- executable guards -------------------------------------------------------------------- *)
(* methods whose registered option object the initialize result contains ... *)
Definition option_readers : list method :=
  [ TEXT_DOCUMENT_DID_SAVE; TEXT_DOCUMENT_COMPLETION; TEXT_DOCUMENT_HOVER; TEXT_DOCUMENT_SIGNATURE_HELP;
    TEXT_DOCUMENT_DECLARATION; TEXT_DOCUMENT_DEFINITION; TEXT_DOCUMENT_TYPE_DEFINITION;
    TEXT_DOCUMENT_INLAY_HINT; TEXT_DOCUMENT_IMPLEMENTATION; TEXT_DOCUMENT_REFERENCES;
    TEXT_DOCUMENT_DOCUMENT_HIGHLIGHT; TEXT_DOCUMENT_DOCUMENT_SYMBOL; TEXT_DOCUMENT_CODE_ACTION;
    TEXT_DOCUMENT_CODE_LENS; TEXT_DOCUMENT_DOCUMENT_LINK; TEXT_DOCUMENT_DOCUMENT_COLOR;
    TEXT_DOCUMENT_FORMATTING; TEXT_DOCUMENT_RANGE_FORMATTING; TEXT_DOCUMENT_ON_TYPE_FORMATTING;
    TEXT_DOCUMENT_FOLDING_RANGE; TEXT_DOCUMENT_SELECTION_RANGE; TEXT_DOCUMENT_PREPARE_CALL_HIERARCHY;
    TEXT_DOCUMENT_PREPARE_TYPE_HIERARCHY; TEXT_DOCUMENT_SEMANTIC_TOKENS_FULL;
    TEXT_DOCUMENT_SEMANTIC_TOKENS_FULL_DELTA; TEXT_DOCUMENT_SEMANTIC_TOKENS_RANGE;
    TEXT_DOCUMENT_LINKED_EDITING_RANGE; TEXT_DOCUMENT_MONIKER; WORKSPACE_SYMBOL;
    WORKSPACE_WILL_CREATE_FILES; WORKSPACE_DID_CREATE_FILES; WORKSPACE_WILL_DELETE_FILES;
    WORKSPACE_DID_DELETE_FILES; WORKSPACE_WILL_RENAME_FILES; WORKSPACE_DID_RENAME_FILES;
    TEXT_DOCUMENT_DIAGNOSTIC; TEXT_DOCUMENT_INLINE_VALUE ].
(* ... and those whose provider has a member derived from another registration *)
Definition derived_member_methods : list method :=
  [ TEXT_DOCUMENT_COMPLETION; TEXT_DOCUMENT_INLAY_HINT; TEXT_DOCUMENT_CODE_ACTION;
    TEXT_DOCUMENT_CODE_LENS; TEXT_DOCUMENT_DOCUMENT_LINK; WORKSPACE_SYMBOL; TEXT_DOCUMENT_DIAGNOSTIC ].

Definition shares (m1 m2 : method) : bool :=
  match registered_options m1, registered_options m2 with
  | Some i, Some j => i =? j
  | _, _ => false
  end.

(* no option object is registered both for a method with a derived member and for another
   method (one and the same Python object; equal content in two objects is fine) *)
Definition no_shared_object : bool :=
  forallb (fun m2 => forallb (fun m1 => (method_code m1 =? method_code m2) || negb (shares m1 m2))
                             option_readers)
          derived_member_methods.

(* rename was registered with options and the client has prepareSupport: the property asks for
   these options to be advertised *)
Definition rename_has_options : bool :=
  reg c TEXT_DOCUMENT_RENAME && cap_prepare_support (cl c) &&
  match opt c TEXT_DOCUMENT_RENAME with Some _ => true | None => false end.

Definition guard : bool := no_shared_object && negb rename_has_options.
(* finding class of a case outside the guard: 1 = shared option object, 2 = rename options dropped *)
Definition klass : N := if negb no_shared_object then 1 else if rename_has_options then 2 else 0.

End Spec.

(* the encoding the workspace must use: the advertised one *)
Definition spec_workspace_encoding (c : config) : value := VEnc (spec_encoding (with_builtins c)).

(* ---- statement vocabulary ------------------------------------------------------------------ *)
(* two configurations that differ at most in what is registered for m' (handler and options) *)
Definition agree_except (m' : method) (c1 c2 : config) : Prop :=
  (forall m, m <> m' -> reg c1 m = reg c2 m /\ opt c1 m = opt c2 m) /\
  (forall i, heap0 c1 i = heap0 c2 i) /\
  commands c1 = commands c2 /\ sync_kind c1 = sync_kind c2 /\ nb_sync c1 = nb_sync c2 /\
  cl c1 = cl c2.

(* a value without the two derived members of a registered object and without the rename
   options: which slot is filled, in which form, with which registered object *)
Definition shape (v : value) : value :=
  match v with
  | VObj i _ _ => VObj i None None
  | VObjPrepare i p => VRename p
  | v => v
  end.

(* a supported encoding / the first supported one, as a relation on the client's list *)
Definition supported (e : N) : Prop := e = 8 \/ e = 16 \/ e = 32.
Definition first_supported_is (l : list N) (e : N) : Prop :=
  exists pre post, l = pre ++ e :: post /\ supported e /\ forall x, In x pre -> ~ supported x.
