(* What LSP means by a text edit (textDocument/didChange), written directly over the text:
   lines end at LF, CRLF or CR only; `character` counts code units of the negotiated encoding
   (true widths); a change with a range replaces text[off start, off end) by its text; a change
   without a range replaces everything.  Uses from the model side only the data types
   (encoding, sync_kind, change). *)
From Coq Require Export ZArith.
From Pygls Require Export Base.PyStr Model.Codec Spec.CodecSpec Model.Doc.
Open Scope N_scope.

(* ---- where a position points ---- *)

(* inside the current line: `ch` code units from here.  Some (offset, the characters walked over)
   when `ch` ends on a character boundary; a `ch` beyond the end of the line (its terminator not
   counted) "defaults back to the line length" (LSP, Position.character); None strictly inside a
   character. *)
Fixpoint spec_walk (e : encoding) (s : list N) (ch k : N) : option (N * list N) :=
  if ch =? 0 then Some (k, [])
  else match s with
       | [] => Some (k, [])                     (* beyond the end of the last line *)
       | c :: r =>
         if is_eol c then Some (k, [])           (* beyond the end of a terminated line *)
         else if ch <? true_width e c then None
         else match spec_walk e r (ch - true_width e c) (k + 1) with
              | Some (o, pre) => Some (o, c :: pre)
              | None => None
              end
       end.

(* position (l, ch) in the text s that starts at offset k: skip l line terminators, then `ch`
   units.  The line after a final terminator (and line 0 of the empty text) is the empty last LSP
   line: every position on it is the end of the document; a line that does not exist gives None. *)
Fixpoint spec_locate (e : encoding) (s : list N) (l ch k : N) : option (N * list N) :=
  if l =? 0 then spec_walk e s ch k
  else match s with
       | [] => None
       | c :: r =>
         if c =? 10 then spec_locate e r (l - 1) ch (k + 1)
         else if c =? 13 then
           match r with
           | d :: r' => if d =? 10 then spec_locate e r' (l - 1) ch (k + 2)
                        else spec_locate e r (l - 1) ch (k + 1)
           | [] => spec_locate e r (l - 1) ch (k + 1)
           end
         else spec_locate e r l ch (k + 1)
       end.

(* the offset (in characters) a valid position denotes *)
Definition spec_off (e : encoding) (s : list N) (p : N * N) : option N :=
  match spec_locate e s (fst p) (snd p) 0 with Some (o, _) => Some o | None => None end.
(* the text between the start of the position's line and the position *)
Definition spec_pre (e : encoding) (s : list N) (p : N * N) : list N :=
  match spec_locate e s (fst p) (snd p) 0 with Some (_, pre) => pre | None => [] end.

Definition pos_le (p q : N * N) : bool :=
  (fst p <? fst q) || ((fst p =? fst q) && (snd p <=? snd q)).

(* a range is valid for a text: both ends are valid positions and start <= end *)
Definition valid_range (e : encoding) (s : list N) (r : (N * N) * (N * N)) : bool :=
  match spec_off e s (fst r), spec_off e s (snd r) with
  | Some _, Some _ => pos_le (fst r) (snd r)
  | _, _ => false
  end.

(* ---- applying one change ---- *)

Definition splice (s : list N) (a b : N) (new : list N) : list N :=
  take a s ++ new ++ drop b s.

Definition spec_edit (e : encoding) (s : list N) (r : (N * N) * (N * N)) (new : list N) : list N :=
  match spec_off e s (fst r), spec_off e s (snd r) with
  | Some a, Some b => splice s a b new
  | _, _ => s                      (* not a valid range: the property says nothing *)
  end.

Definition spec_apply (e : encoding) (k : sync_kind) (s : list N) (c : change) : list N :=
  match k with
  | SyncNone => s                  (* None: changes are ignored *)
  | SyncFull => change_text c      (* Full: every change replaces the text *)
  | SyncIncremental =>
    match c with
    | Whole t => t                 (* no range: replaces the whole text *)
    | Partial r t => spec_edit e s r t
    end
  end.

(* the inputs the property speaks of *)
Definition valid_change (e : encoding) (k : sync_kind) (s : list N) (c : change) : bool :=
  match k, c with
  | SyncIncremental, Partial r _ => valid_range e s r
  | _, _ => true
  end.

(* executable guard of finding F17 (utf-8 widths): the text before each position on its line
   must consist of characters whose width the code gets right *)
Definition guard_change (e : encoding) (k : sync_kind) (s : list N) (c : change) : bool :=
  match k, c with
  | SyncIncremental, Partial r _ =>
    widths_exact e (spec_pre e s (fst r)) && widths_exact e (spec_pre e s (snd r))
  | _, _ => true
  end.

(* ---- histories: didOpen text, then notifications (version, changes) ---- *)

Definition spec_changes (e : encoding) (k : sync_kind) (s : list N) (cs : list change) : list N :=
  fold_left (spec_apply e k) cs s.
Definition all_changes (ns : list (Z * list change)) : list change := flat_map snd ns.
Definition spec_text (e : encoding) (k : sync_kind) (s : list N) (ns : list (Z * list change)) : list N :=
  spec_changes e k s (all_changes ns).
(* "the reported version is the last one sent" *)
Definition spec_version (v0 : Z) (ns : list (Z * list change)) : Z :=
  fst (last ns (v0, [])).

(* a check holds for every change w.r.t. the text it applies to *)
Fixpoint hist_ok (chk : list N -> change -> bool) (step : list N -> change -> list N)
         (s : list N) (cs : list change) : bool :=
  match cs with
  | [] => true
  | c :: r => chk s c && hist_ok chk step (step s c) r
  end.
Definition valid_history e k s (ns : list (Z * list change)) : bool :=
  hist_ok (valid_change e k) (spec_apply e k) s (all_changes ns).
Definition guard_history e k s (ns : list (Z * list change)) : bool :=
  hist_ok (guard_change e k) (spec_apply e k) s (all_changes ns).
