(* Spec/CancelSpec.v - what C08 promises about the CONTENT of a reply, without the endpoint machinery.

   `natural ps m` is the reply a request gets when nobody cancels it: a function of the frame alone
   (the value its own handler returns, the error its own handler raises, -32601 / -32602 / -32603
   for unknown method / undecodable params / failing built-in).  A reply -32800 "request
   cancelled" is allowed only for a request that is executed by a coroutine or a pool thread AND
   that some `$/cancelRequest` of the history names with the SAME id (same JSON type) - or when a
   `shutdown` request was handled.  `allowed evs i p` = payload p is one of these for some request
   frame with id i of the history. *)
From Coq Require Import ZArith NArith List Bool.
From Pygls Require Import Base.Assoc Model.Endpoint.
Import ListNotations.

Definition handler_of (m : rmethod) : option behav :=
  match m with RUser b => Some b | RCommand (Some b) _ => Some b | _ => None end.

Definition natural_of (o : outcome) : payload :=
  match o with
  | ORet v => PResult (VInt v)
  | ORetUnser | ORaise => PError code_internal
  | ORaiseRpc c => PError c
  end.

Definition natural (ps : pstat) (m : rmethod) : payload :=
  match ps with
  | PBad => PError code_invalid_params
  | PFail => PError code_internal
  | POk =>
      match m with
      | RUnknown => PError code_method_not_found
      | RUser b => natural_of (bout b)
      | RShutdown _ => PResult VNull
      | RBuiltin fails _ => if fails then PError code_internal else PResult VObj
      | RCommand None _ => PError code_internal
      | RCommand (Some b) _ => natural_of (bout b)
      end
  end.

Definition is_sync (b : behav) : bool := match bkind b with HSync => true | _ => false end.
Definition cancellable (m : rmethod) : bool :=
  match handler_of m with Some b => negb (is_sync b) | None => false end.

(* the event is a cancel that names id i, or a shutdown request (which cancels everything in flight) *)
Definition names (i : id) (e : ev) : bool :=
  match e with
  | Recv (FNotif true _ POk (NCancel j)) => id_eqb i j
  | Recv (FReq true _ POk (RShutdown _)) => true
  | _ => false
  end.
Definition named (i : id) (evs : list ev) : bool := existsb (names i) evs.

Definition rval_eqb (a b : rval) : bool :=
  match a, b with VNull, VNull => true | VObj, VObj => true | VInt x, VInt y => Z.eqb x y | _, _ => false end.
Definition payload_eqb (a b : payload) : bool :=
  match a, b with
  | PResult x, PResult y => rval_eqb x y
  | PError x, PError y => Z.eqb x y
  | _, _ => false
  end.

Definition allowed_by (evs : list ev) (i : id) (p : payload) (e : ev) : bool :=
  match e with
  | Recv (FReq _ j ps m) =>
      id_eqb i j &&
      (payload_eqb p (natural ps m) ||
       (payload_eqb p (PError code_cancelled) &&
        match ps with POk => cancellable m && named i evs | _ => false end))
  | _ => false
  end.

(* executable reference: is payload p an allowed reply to id i in the history evs *)
Definition allowedb (evs : list ev) (i : id) (p : payload) : bool := existsb (allowed_by evs i p) evs.
