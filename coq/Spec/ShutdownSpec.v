(* Spec/ShutdownSpec.v - what C09 promises, written without the endpoint machinery.

   The reference keeps two facts about a history, both functions of the FRAMES received only
   (never of the schedule, the writer, the hook or what handlers do):
     x_shut  a `shutdown` request has been accepted: a JSON-RPC 2.0 request frame that
             deserialises and whose method is `shutdown` (a request that arrives later is dropped,
             so only the first one counts);
     x_exit  the status the process ends with: decided by the first `exit` notification that
             reaches its handler - 0 if x_shut held at that moment, 1 otherwise - and never
             revised (`returncode` is computed on entry of lsp_exit; with a transport whose
             `close()` is awaitable the SystemExit is raised later, from the done-callback of the
             close task, with the status captured then).
   Also here: what "cancellation requested" means per kind of future (`tflag`, `jflag`, `oflag`),
   the classes of frames the gate speaks of, and the executable pieces the correspondence run
   uses as S. *)
From Coq Require Import ZArith NArith List Bool.
From Pygls Require Import Base.Assoc Model.Endpoint Spec.EndpointSpec.
Import ListNotations.
Local Open Scope Z_scope.

(* ---------------------------------------------------------------- the reference *)
Record xsp := mkX { x_shut : bool; x_exit : option Z }.

Definition x_init : xsp := mkX false None.

Definition x_step (x : xsp) (e : ev) : xsp :=
  match x_exit x with
  | Some _ => x
  | None =>
      match e with
      | Recv (FReq true _ POk m) => mkX (x_shut x || is_shutdown m) None
      | Recv (FNotif true _ POk (NExit _)) => mkX (x_shut x) (Some (if x_shut x then 0 else 1))
      | _ => x
      end
  end.

Definition x_run (evs : list ev) : xsp := fold_left x_step evs x_init.

(* the exit status the history decides (None: no `exit` notification reached its handler) *)
Definition exit_ref (evs : list ev) : option Z := x_exit (x_run evs).
(* a shutdown request was accepted (before the deciding `exit`, if there is one) *)
Definition shut_ref (evs : list ev) : bool := x_shut (x_run evs).

(* ---------------------------------------------------------------- frame classes *)
(* the shutdown request that is processed: JSON-RPC 2.0, deserialisable, method `shutdown` *)
Definition shutdown_frame (f : frame) : bool :=
  match f with FReq true _ POk m => is_shutdown m | _ => false end.

(* the only frame that passes the gate once the flag is set *)
Definition exit_frame (f : frame) : bool :=
  match f with FNotif true _ POk (NExit _) => true | _ => false end.

Definition exit_tag (e : ev) : list nat :=
  match e with Recv (FNotif true tag POk (NExit _)) => [tag] | _ => [] end.
Definition exit_tags (evs : list ev) : list nat := flat_map exit_tag evs.

(* ---------------------------------------------------------------- cancellation requested *)
(* asyncio.Task.cancel() on a task that is not done: must_cancel is set - the next step of the
   task throws CancelledError into the coroutine (or, if it never started, finishes it cancelled
   without running it); on a done task: nothing *)
Definition tflag (tk : task) : task :=
  match t_st tk with
  | TLive started lft _ => mkT (t_who tk) (t_part tk) (t_cb tk) (t_b tk) (TLive started lft true)
  | _ => tk
  end.

(* concurrent.futures.Future.cancel(): a PENDING (queued) work item becomes CANCELLED and will
   never run (its done-callbacks run at once, in the caller's thread: a request is answered
   -32800 by its own callback); a RUNNING or finished one is not affected at all *)
Definition jflag (jb : job) : job :=
  match j_st jb with
  | JQueued => mkJ (j_who jb) (j_part jb) (j_cb jb) (j_b jb) JCancelled
  | _ => jb
  end.

(* the future of an outgoing request: pending -> cancelled *)
Definition oflag (o : ostate) : ostate := match o with OPending => OCancelled | x => x end.

(* state s' shows that cancel() was called on the future r of state s (a reference to nothing, which
   reachable states do not contain, asks nothing) *)
Definition cancel_requested (s s' : st) (r : fref) : Prop :=
  match r with
  | FTask t => forall tk, nth_error (tasks s) t = Some tk -> nth_error (tasks s') t = Some (tflag tk)
  | FJob j => forall jb, nth_error (jobs s) j = Some jb -> nth_error (jobs s') j = Some (jflag jb)
  | FOut o => forall x, nth_error (outg s) o = Some x -> nth_error (outg s') o = Some (oflag x)
  end.

(* frames handed to the transport so far: written, or sitting in the queue of awaitable writes *)
Definition wframe (w : wentry) : list oframe := match w with WFrame f => [f] | WClose _ => [] end.
Definition handed (s : st) : list oframe := out s ++ flat_map wframe (wq s).

(* a request handler that has not been entered yet *)
Definition task_unstarted (tk : task) : bool :=
  match t_st tk with TLive false _ _ => true | _ => false end.
Definition job_queued (jb : job) : bool :=
  match j_st jb with JQueued => true | _ => false end.

(* requests with a live handler: what `pending at shutdown` counts for id i *)
Definition cb_req (i : id) (cb : cbkind) : bool := match cb with CReq j => id_eqb i j | CNot => false end.
Definition task_pending (i : id) (tk : task) : bool :=
  cb_req i (t_cb tk) && match t_st tk with TFin _ => false | _ => true end.
Definition job_pending (i : id) (jb : job) : bool :=
  cb_req i (j_cb jb) && match j_st jb with JQueued | JRunning => true | _ => false end.
Definition pending_request (i : id) (s : st) : bool :=
  existsb (task_pending i) (tasks s) || existsb (job_pending i) (jobs s).

(* ---------------------------------------------------------------- S for the correspondence run *)
(* the first status queued by an awaitable close, or waiting in its done-callback *)
Fixpoint first_close (l : list wentry) : option Z :=
  match l with
  | [] => None
  | WClose rc :: _ => Some rc
  | WFrame _ :: r => first_close r
  end.
Definition pending_rc (s : st) : option Z :=
  match exitq s with rc :: _ => Some rc | [] => first_close (wq s) end.
