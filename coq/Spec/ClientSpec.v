(* What C17 promises, read off the conversation alone (no task statuses, no tables, no pipe):
   a short reference that assigns to every request the caller made what its future may end as
   once the server is dead and the client has noticed, and the executable check of an
   observation against it.  Shares with the model only the vocabulary (events, future states,
   observations). *)
From Coq Require Import NArith ZArith List Bool.
From Pygls Require Export Model.Client.
Import ListNotations.
Open Scope N_scope.

(* what the future of a request may end as *)
Inductive expect :=
| EExit                 (* never (decodably) answered, never cancelled: must fail with the exit error *)
| EKeep (f : fstate)    (* done before the server died (answered and read, or cancelled): unchanged *)
| EExitOr (f : fstate)  (* the answer was written but not yet read when the server died: either *)
| ENotPending           (* as above and cancelled while the client was noticing: anything but pending *)
| EAny.                 (* sent after the exit had been handled: the property is silent *)

Definition fstate_eqb (a b : fstate) : bool :=
  match a, b with
  | Pending, Pending => true
  | Resolved v, Resolved w => v =? w
  | FailedRpc c, FailedRpc d => Z.eqb c d
  | FailedExit c, FailedExit d => Z.eqb c d
  | Cancelled, Cancelled => true
  | _, _ => false
  end.

Definition is_exit_failure (f : fstate) : bool := match f with FailedExit _ => true | _ => false end.

Definition fut_ok (e : expect) (f : fstate) : bool :=
  match e with
  | EExit => is_exit_failure f
  | EKeep g => fstate_eqb f g
  | EExitOr g => is_exit_failure f || fstate_eqb f g
  | ENotPending => is_done f
  | EAny => true
  end.

(* the check of one observation: every listed future as expected (a future that is not listed
   is unconstrained), hook exactly once, stopped, stop() returns *)
Definition fut_check (o : obs) (ie : id * expect) : bool :=
  match aget (o_futs o) (fst ie) with
  | Some f => fut_ok (snd ie) f
  | None => false
  end.

Definition spec_ok (exps : list (id * expect)) (o : obs) : bool :=
  forallb (fut_check o) exps &&
  (match o_hooks o with [_] => true | _ => false end) &&
  o_stopped o &&
  (match o_stop o with StopReturns => true | _ => false end).

(* ---- the expectation, by one scan of the conversation ---- *)
Inductive phase := PLive | PDying | PDead.

Definition state_of (r : res) : fstate :=
  match r with RResult v => Resolved v | RError c => FailedRpc c end.

Fixpoint upd (l : list (id * expect)) (i : id) (f : expect -> expect) : list (id * expect) :=
  match l with
  | [] => []
  | (k, e) :: r => if k =? i then (k, f e) :: r else (k, e) :: upd r i f
  end.

Definition on_reply (r : res) (e : expect) : expect :=
  match e with EExit => EExitOr (state_of r) | _ => e end.
Definition on_read (ie : id * expect) : id * expect :=
  match snd ie with EExitOr f => (fst ie, EKeep f) | _ => ie end.
Definition on_cancel_live (e : expect) : expect :=
  match e with EExit => EKeep Cancelled | EExitOr _ => EKeep Cancelled | _ => e end.
Definition on_cancel_dying (e : expect) : expect :=
  match e with EExit => EKeep Cancelled | EExitOr _ => ENotPending | _ => e end.

(* scan state: phase, whether stop() has been called, number of requests sent so far (= the next
   request id), expectations.  Once the caller has called stop() the reader is on its way out:
   a reply that has not been read yet is no longer certain to be read. *)
Definition scan_state := (phase * bool * N * list (id * expect))%type.

Definition scan_step (st : scan_state) (ev : event) : scan_state :=
  let '(ph, sc, n, l) := st in
  match ph, ev with
  | _, Stop => (ph, true, n, l)
  | PLive, Send => (ph, sc, n + 1, l ++ [(n, EExit)])
  | PLive, SrvWrite (Reply i r) => (ph, sc, n, upd l i (on_reply r))
  | PLive, ReaderRun => if sc then st else (ph, sc, n, map on_read l)
  | PLive, UserCancel i => (ph, sc, n, upd l i on_cancel_live)
  | PLive, ProcExit _ _ => (PDying, sc, n, l)
  | PDying, Send => (ph, sc, n + 1, l ++ [(n, EExit)])
  | PDying, UserCancel i => (ph, sc, n, upd l i on_cancel_dying)
  | PDying, ServerExitTask => (PDead, sc, n, l)
  | PDead, Send => (ph, sc, n + 1, l ++ [(n, EAny)])
  | _, _ => st
  end.

Definition conv_expect (evs : list event) : list (id * expect) :=
  snd (fold_left scan_step evs (PLive, false, 0, [])).

(* ---- the conversations the scan speaks about (executable guard) ----
   the server dies; after the exit both the reader task and the exit watcher get to run;
   replies name requests already sent *)
Definition is_exit (e : event) := match e with ProcExit _ _ => true | _ => false end.
Definition is_reader (e : event) := match e with ReaderRun => true | _ => false end.
Definition is_xtask (e : event) := match e with ServerExitTask => true | _ => false end.
Definition is_stop (e : event) := match e with Stop => true | _ => false end.

Fixpoint after_exit (evs : list event) : option (list event) :=
  match evs with
  | [] => None
  | e :: r => if is_exit e then Some r else after_exit r
  end.

(* a reply names a request that has been sent (the server cannot guess an id) *)
Fixpoint replies_known (n : N) (evs : list event) : bool :=
  match evs with
  | [] => true
  | Send :: r => replies_known (n + 1) r
  | SrvWrite (Reply i _) :: r => (i <? n) && replies_known n r
  | SrvWrite (BadReply i) :: r => (i <? n) && replies_known n r
  | _ :: r => replies_known n r
  end.

Fixpoint count_xtask (evs : list event) : nat :=
  match evs with
  | [] => O
  | e :: r => if is_xtask e then S (count_xtask r) else count_xtask r
  end.

(* the exit watcher gets two runs (a hook that suspends needs the second one) *)
Definition wf_conv (evs : list event) : bool :=
  replies_known 0 evs &&
  match after_exit evs with
  | Some rest => existsb is_reader rest && Nat.leb 2 (count_xtask rest)
  | None => false
  end.
