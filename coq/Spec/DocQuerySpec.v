(* What the two queries promise, independently of lines and of the conversion code:
   offset_at_position: the character offset the position denotes (Spec.DocSpec.spec_off: LSP lines,
   true widths, a character beyond the end of the line means that end);
   word_at_position: the maximal run of [A-Za-z_0-9] characters of the position's line around the
   character index the position denotes. *)
From Pygls Require Export Base.PyStr Model.Codec Spec.CodecSpec Spec.DocSpec.
Open Scope N_scope.

Definition spec_offset (e : encoding) (s : list N) (p : N * N) : option N := spec_off e s p.

Definition word_char (c : N) : bool :=
  (c =? 95) (* _ *) || ((48 <=? c) && (c <? 58)) || ((65 <=? c) && (c <? 91)) || ((97 <=? c) && (c <? 123)).

(* one pass over the line: `acc` is the run of word characters that ends at the current place;
   a non-word character before index k starts a new run, the first one at or after k ends it *)
Fixpoint run_at (line : list N) (k : N) (acc : list N) : list N :=
  match line with
  | [] => acc
  | c :: r =>
    if k =? 0 then (if word_char c then run_at r 0 (acc ++ [c]) else acc)
    else if word_char c then run_at r (k - 1) (acc ++ [c]) else run_at r (k - 1) []
  end.

(* the word at a position: on line l (of the LSP lines of the text), around the index of the
   character the position points at; the empty last line has no word *)
Definition spec_word (e : encoding) (s : list N) (p : N * N) : option (list N) :=
  match spec_locate e s (fst p) (snd p) 0 with
  | Some (_, pre) => Some (run_at (nth (N.to_nat (fst p)) (lsp_lines s) []) (len pre) [])
  | None => None
  end.

(* ---- executable guards (the input classes excluded by the open findings) ---- *)

(* F17: the characters before the position on its line have the width the code assumes *)
Definition query_guard_widths (e : encoding) (s : list N) (p : N * N) : bool :=
  match spec_locate e s (fst p) (snd p) 0 with
  | Some (_, pre) => widths_exact e pre
  | None => false
  end.

(* F31 / F16': offset_at_position counts the text before the position's line (past the end of the
   document: the whole text) in client code units, not in characters: right only if that text has
   no character beyond the BMP (or the encoding is utf-32) *)
Definition offset_guard_units (e : encoding) (s : list N) (p : N * N) : bool :=
  match spec_locate e s (fst p) (snd p) 0 with
  | Some (o, pre) => guard_eof e (take (o - len pre) s)
  | None => false
  end.
