(* Spec/EndpointSpec.v - what C01 promises, written without the endpoint machinery.

   `expected evs` is the list (multiset) of request ids the endpoint owes a reply to after the
   history `evs`: every request frame, in arrival order, that
     - could not be deserialised (answered -32602 / -32603 whatever the state), or
     - is a JSON-RPC 2.0 request received while no `shutdown` request has been handled.
   The only state the reference keeps is "a shutdown request has been handled" - itself a
   function of the frames seen so far.  `exact evs` says the history contains no `exit`
   notification that reaches its handler: then, at quiescence, each id must have been answered
   exactly `count` times; with an `exit` the transport is closed under the feet of the handlers
   and only "at most" is promised (C09 / C15 speak about that).
   Also here: the executable guards of the C01 theorems, the list of enabled internal events and
   the canonical drain schedule used by the generators and by clause (4). *)
From Coq Require Import ZArith NArith List Bool.
From Pygls Require Import Base.Assoc Model.Endpoint.
Import ListNotations.

(* ---------------------------------------------------------------- the reference *)
Record sp := mkSp { sp_shut : bool; sp_exp : list id; sp_exact : bool }.

Definition sp_init : sp := mkSp false [] true.

Definition is_shutdown (m : rmethod) : bool := match m with RShutdown _ => true | _ => false end.

Definition sp_step (x : sp) (e : ev) : sp :=
  match e with
  | Recv (FReq ver_ok i ps m) =>
      match ps with
      | POk =>
          if ver_ok && negb (sp_shut x)
          then mkSp (is_shutdown m) (sp_exp x ++ [i]) (sp_exact x)
          else x
      | _ => mkSp (sp_shut x) (sp_exp x ++ [i]) (sp_exact x)
      end
  | Recv (FNotif true _ POk (NExit _)) => mkSp (sp_shut x) (sp_exp x) false
  | _ => x
  end.

Definition sp_run (evs : list ev) : sp := fold_left sp_step evs sp_init.
Definition expected (evs : list ev) : list id := sp_exp (sp_run evs).
Definition exact (evs : list ev) : bool := sp_exact (sp_run evs).

Definition count_id (i : id) (l : list id) : nat := length (filter (id_eqb i) l).

(* number of response frames for id i among the frames written *)
Definition is_reply (i : id) (f : oframe) : bool :=
  match f with OResp j _ => id_eqb i j | _ => false end.
Definition replies (i : id) (o : list oframe) : nat := length (filter (is_reply i) o).

(* impl |= S, as a function of the frames written: never more replies than owed; at quiescence of
   an exit-free history exactly as many *)
Definition sat_atmost (evs : list ev) (o : list oframe) (i : id) : bool :=
  Nat.leb (replies i o) (count_id i (expected evs)).
Definition sat_exact (evs : list ev) (o : list oframe) (i : id) : bool :=
  Nat.eqb (replies i o) (count_id i (expected evs)).

(* ---------------------------------------------------------------- syntactic classes of histories *)
Definition req_id (e : ev) : list id :=
  match e with Recv (FReq _ i _ _) => [i] | _ => [] end.
Definition req_ids (evs : list ev) : list id := flat_map req_id evs.

Definition is_thread (b : behav) : bool := match bkind b with HThread _ => true | _ => false end.
Definition opt_thread (u : option behav) : bool := match u with Some b => is_thread b | None => false end.

(* the request is executed by a pool thread and answered from it *)
Definition thread_request (e : ev) : bool :=
  match e with
  | Recv (FReq _ _ _ (RUser b)) => is_thread b
  | Recv (FReq _ _ _ (RCommand cmd _)) => opt_thread cmd
  | _ => false
  end.

Definition is_exit_frame (e : ev) : bool :=
  match e with Recv (FNotif _ _ _ (NExit _)) => true | _ => false end.

Definition awaitable (c : cfg) : bool := match c_writer c with WAwaitable => true | WBlocking => false end.
Definition no_wfail (c : cfg) : bool := match c_wfail c with None => true | Some _ => false end.

(* the class refuted by F18 (row 18): a thread handler answering through an awaitable writer *)
Definition f18_class (c : cfg) (evs : list ev) : bool := awaitable c && existsb thread_request evs.

(* guard of C01_partial: a writer that works, F18 excluded, no `exit` *)
Definition guard (c : cfg) (evs : list ev) : bool :=
  no_wfail c && negb (f18_class c evs) && negb (existsb is_exit_frame evs).

(* what the correspondence run can judge with the reference: everything except a failing writer
   (property silent) and the F18 class (judged by the reference, recorded as a finding) *)
Definition tie_guard (c : cfg) (evs : list ev) : bool := no_wfail c && negb (f18_class c evs).

(* the ids the reference adds for one event, given the events before it *)
Definition owed_by (before : list ev) (e : ev) : list id :=
  skipn (length (expected before)) (expected (before ++ [e])).

(* ---------------------------------------------------------------- enabled events, drain *)
Fixpoint enum_from {A : Type} (k : nat) (l : list A) : list (nat * A) :=
  match l with [] => [] | x :: r => (k, x) :: enum_from (S k) r end.

Definition task_evs (p : nat * task) : list ev :=
  match t_st (snd p) with
  | TLive _ _ _ => [TaskStep (fst p)]
  | TDoneCb _ => [LoopCb (fst p)]
  | TFin _ => []
  end.

Definition job_evs (p : nat * job) : list ev :=
  match j_st (snd p) with
  | JQueued => [JobStart (fst p)]
  | JRunning => [JobFinish (fst p)]
  | _ => []
  end.

Definition enabled (s : st) : list ev :=
  match exit s with
  | Some _ => []
  | None =>
      flat_map task_evs (enum_from 0 (tasks s)) ++ flat_map job_evs (enum_from 0 (jobs s)) ++
      (match wq s with [] => [] | _ => [WriteStep] end) ++
      (match exitq s with [] => [] | _ => [ExitCb] end)
  end.

Fixpoint drain (c : cfg) (fuel : nat) (s : st) : list ev :=
  match fuel with
  | O => []
  | S k =>
      match enabled s with
      | [] => []
      | e :: _ => e :: drain c k (step c s e)
      end
  end.

(* a bound on the number of internal events a state can still perform *)
Definition task_weight (tk : task) : nat :=
  match t_st tk with
  | TLive _ lft _ => lft + 6
  | TDoneCb _ => 4
  | TFin _ => 0
  end.
Definition job_weight (jb : job) : nat :=
  match j_st jb with JQueued => 6 | JRunning => 5 | _ => 0 end.
Definition wweight (w : wentry) : nat := match w with WFrame _ => 1 | WClose _ => 2 end.
Definition wsum {A : Type} (f : A -> nat) (l : list A) : nat := fold_right (fun x a => f x + a) 0 l.
Definition measure (s : st) : nat :=
  wsum task_weight (tasks s) + wsum job_weight (jobs s) + wsum wweight (wq s) + length (exitq s).

(* ---------------------------------------------------------------- domain of the model: handler-raised codes *)
(* lsprotocol validates ResponseError.code as an int32: for a handler that raises a JsonRpcException whose
   code is outside that range `to_response_error()` itself raises inside the except-branch and the real
   endpoint sends NO reply (C07 finding `wide-own-code`), whereas Model/Endpoint.v answers `PError code`.
   The model is therefore claimed faithful - and the theorems about "answered" are stated - only for
   histories whose request handlers raise int32 codes; the generators respect this. *)
Definition int32 (z : Z) : bool := (Z.leb (-2147483648) z && Z.leb z 2147483647)%Z.
Definition behav_code_ok (b : behav) : bool := match bout b with ORaiseRpc c => int32 c | _ => true end.
Definition ev_codes_ok (e : ev) : bool :=
  match e with
  | Recv (FReq _ _ _ (RUser b)) => behav_code_ok b
  | Recv (FReq _ _ _ (RCommand (Some b) _)) => behav_code_ok b
  | _ => true
  end.
Definition handler_codes_int32 (evs : list ev) : bool := forallb ev_codes_ok evs.
