(* What C07 promises, stated without the code's loops and constructors.
   Requester side: the class that answers for a code is THE registered class whose set of codes
   contains it (so it must be unique), the base class when there is none.
   Server side: a flat decision table with the literal codes of the JSON-RPC / LSP specification. *)
From Coq Require Import ZArith NArith List Bool.
From Pygls Require Export Model.Exceptions.
Import ListNotations.
Open Scope Z_scope.

(* the set of codes a class answers for, as a closed interval *)
Definition interval (e : entry) : Z * Z :=
  match e_sup e with
  | SInherited => let k := match e_code e with Some k => k | None => -32001 end in (k, k)
  | SRange lo hi => (lo, hi)
  end.

Definition claims (e : entry) (c : Z) : bool := (fst (interval e) <=? c) && (c <=? snd (interval e)).

(* ---- executable guards on a class table ---- *)

Definition disjoint (a b : Z * Z) : bool := (snd a <? fst b) || (snd b <? fst a).

Fixpoint pairwise_disjoint (l : list (Z * Z)) : bool :=
  match l with
  | [] => true
  | a :: r => forallb (disjoint a) r && pairwise_disjoint r
  end.

(* exact codes pairwise distinct, none inside a range entry, ranges pairwise disjoint *)
Definition table_ok (t : list entry) : bool := pairwise_disjoint (map interval (filter e_reg t)).

(* a constructor accepts every code its class answers for (so from_error cannot raise) *)
Definition ctor_ok (e : entry) : bool :=
  match e_ctor e with
  | CDefault => true
  | CRangeChecked lo hi => (lo <=? fst (interval e)) && (snd (interval e) <=? hi)
  end.
Definition ctors_ok (base : entry) (t : list entry) : bool :=
  ctor_ok base && forallb ctor_ok (filter e_reg t).

Definition n_server_error : list N :=
  [74;115;111;110;82;112;99;83;101;114;118;101;114;69;114;114;111;114]%N.

(* the class named JsonRpcServerError is registered and answers for exactly -32099..-32000,
   and no other class goes by that name *)
Definition is_server_range_entry (e : entry) : bool :=
  match e_sup e with
  | SRange lo hi => (lo =? -32099) && (hi =? -32000)
  | SInherited => false
  end.
Definition named_server_error (e : entry) : bool := str_eqb (e_name e) n_server_error.
Definition has_server_range (base : entry) (t : list entry) : bool :=
  match class_named t n_server_error with
  | Some e => e_reg e && is_server_range_entry e
  | None => false
  end
  && forallb (fun e => negb (named_server_error e) || is_server_range_entry e) (filter e_reg t)
  && negb (named_server_error base).

(* the classes json_rpc.py raises itself: present, default constructor, the codes of the spec *)
Definition class_has (t : list entry) (name : list N) (code : Z) (need_msg : bool) : bool :=
  match class_named t name with
  | Some e => match e_ctor e, e_code e with
              | CDefault, Some k => (k =? code) && (if need_msg then match e_msg e with Some _ => true | None => false end else true)
              | _, _ => false
              end
  | None => false
  end.
Definition server_classes_ok (t : list entry) : bool :=
  class_has t n_internal (-32603) false && class_has t n_invalid_params (-32602) true &&
  class_has t n_method_not_found (-32601) true && class_has t n_cancelled (-32800) false.

(* ---- requester side reference ---- *)

(* None = ambiguous: two registered classes answer for c, the result would depend on the
   iteration order of the set *)
Definition spec_class (t : list entry) (base : entry) (c : Z) : option entry :=
  match filter (fun e => e_reg e && claims e c) t with
  | [] => Some base
  | [e] => Some e
  | _ => None
  end.

(* what the statement pins independently of the table: the class for c is JsonRpcServerError
   exactly when c is in -32099..-32000 (None = the table does not deliver that) *)
Definition spec_requester (t : list entry) (base : entry) (c : Z) : option entry :=
  match spec_class t base c with
  | Some e => if Bool.eqb ((-32099 <=? c) && (c <=? -32000)) (named_server_error e) then Some e else None
  | None => None
  end.

(* ---- server side reference ---- *)

Section WithData.
Variable D : Type.

Inductive expect :=
| EResult                                           (* a result, no error *)
| ECode (c : Z)                                     (* an error with this code *)
| EOwn (c : Z) (m : list N) (d : option D)   (* exactly this code, message and data *)
| ECodeText (c : Z) (text : list N).                (* this code, and the exception text *)

Definition is_sync (k : hkind) : bool := match k with HSync => true | _ => false end.

Definition spec_handler (k : hkind) (cancelled : bool) (o : houtcome D) : expect :=
  if cancelled && negb (is_sync k) then ECode (-32800)
  else match o with
       | HRet => EResult
       | HRetUnser => ECode (-32603)    (* not in C07's text; what C01 (row 11) promises *)
       | HRaiseRpc x => EOwn (x_code x) (x_msg x) (x_data x)
       | HRaiseOther text _ => ECodeText (-32603) text
       end.

(* None: the statement does not speak of this request (a frame that is rejected for another
   reason than its params) *)
Definition spec_server (q : request D) : option expect :=
  match q_params q with
  | PBadValidation => Some (ECode (-32602))
  | PBadOther => None
  | POk =>
    match q_target q with
    | TUnknown => Some (ECode (-32601))
    | TFeature k => Some (spec_handler k (q_cancelled q) (q_outcome q))
    | TCommandKnown k => Some (spec_handler k (q_cancelled q) (q_outcome q))
    | TCommandUnknown text _ => Some (ECodeText (-32603) text)
    end
  end.

(* Open finding (wide-own-code): a handler raising a JSON-RPC exception whose code is not an LSP
   integer gets no reply at all.  The guard excludes exactly those requests (and the ones the
   statement is silent on). *)
Definition server_guard (q : request D) : bool :=
  match spec_server q with
  | Some (EOwn c _ _) => int32 c
  | Some _ => true
  | None => false
  end.

(* a reply meets an expectation *)
Definition meets (r : sres D) (x : expect) : Prop :=
  match x, r with
  | EResult, SReply RResult => True
  | ECode c, SReply (RError e) => r_code e = c
  | EOwn c m d, SReply (RError e) => e = mkErr c m d
  | ECodeText c text, SReply (RError e) => r_code e = c /\ r_msg e = text
  | _, _ => False
  end.

End WithData.

Arguments EResult {D}. Arguments ECode {D}. Arguments EOwn {D}. Arguments ECodeText {D}.
Arguments spec_handler {D}. Arguments spec_server {D}. Arguments server_guard {D}. Arguments meets {D}.
