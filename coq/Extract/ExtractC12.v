Require Extraction.
Require Import ExtrOcamlBasic.
From Pygls Require Import Model.Features Model.Caps Model.CapsHistory Spec.CapsSpec Spec.CapsHistorySpec.
Extraction Language OCaml.
Extraction "../ocaml/gen/c12_model.ml"
  all_fields field_code config_of fileop_table build observe lsp_initialize with_builtins
  spec_caps spec_workspace_encoding guard klass method_of_code method_code
  cfg_of_history spec_cfg_of_history results empty_registry drv_nm drv_cid drv_ops default_obj.
