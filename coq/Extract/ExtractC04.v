Require Extraction.
Require Import ExtrOcamlBasic.
From Pygls Require Import Base.PyStr Model.Codec Spec.CodecSpec Model.Doc Spec.DocSpec Model.DocQuery.
Extraction Language OCaml.
Extraction "../ocaml/gen/c04_model.ml"
  lsp_lines run source d_version apply_incremental_change
  spec_text spec_version spec_off valid_history guard_history
  offset_at_position word_at_position position_from_client_units position_to_client_units.
