Require Extraction.
Require Import ExtrOcamlBasic.
From Pygls Require Import Model.Progress Spec.ProgressSpec.
Extraction Language OCaml.
Extraction "../ocaml/gen/c20_model.ml"
  init prun ptrace_from token_view akeys spec_progress progress_frames.
