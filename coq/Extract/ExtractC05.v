Require Extraction.
Require Import ExtrOcamlBasic.
From Pygls Require Import Model.Outgoing Spec.OutgoingSpec Proofs.OutgoingProofs.
Extraction Language OCaml.
Extraction "../ocaml/gen/c05_model.ml"
  init rstep rrun rtrace_from rtrace akeys spec guard injective_supply_b disjoint_directions_b
  valid_results_b lsp_codes_b.
