Require Extraction.
Require Import ExtrOcamlBasic.
From Pygls Require Import Model.Outgoing Spec.OutgoingSpec.
Extraction Language OCaml.
Extraction "../ocaml/gen/c05_model.ml"
  init step run trace_from akeys spec guard injective_supply_b disjoint_directions_b valid_results_b lsp_codes_b.
