Require Extraction.
Require Import ExtrOcamlBasic.
From Pygls Require Import Model.Exceptions Spec.ExceptionsSpec Gen.ExcTable.
Extraction Language OCaml.
Extraction "../ocaml/gen/c07_model.ml"
  current_table base_entry supports_code construct to_response_error from_error server_reply session_replies
  table_ok ctors_ok has_server_range server_classes_ok spec_class spec_requester spec_server server_guard.
