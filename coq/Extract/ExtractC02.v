Require Extraction.
Require Import ExtrOcamlBasic.
From Pygls Require Import Base.Bytes Model.Framing Spec.FramingSpec.
Extraction Language OCaml.
Extraction "../ocaml/gen/c02_model.ml"
  take drop len dec parse_cl is_blank step run loop_whole feed feed_all run_chunks init_state
  frame frames bodies_of msgs_ok cut_bodies short_delivery cut_term.
