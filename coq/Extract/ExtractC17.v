Require Extraction.
Require Import ExtrOcamlBasic.
From Pygls Require Import Model.Client Spec.ClientSpec.
Extraction Language OCaml.
Extraction "../ocaml/gen/c17_model.ml"
  init step run run_from observe stop_outcome repaired pinned
  conv_expect wf_conv spec_ok fut_ok.
