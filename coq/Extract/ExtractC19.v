Require Extraction.
Require Import ExtrOcamlBasic.
From Pygls Require Import Model.Features Spec.FeaturesSpec.
Extraction Language OCaml.
Extraction "../ocaml/gen/c19_model.ml"
  py_isspace name_invalid blank name_eqb has_ls_param_or_annotation asks_server wrap_with_server
  empty_registry step attempt_trace run_attempts get_handler dispatch exec_command exec_site
  s_empty spec_step spec_attempt_trace spec_run_attempts attempt_ok op_ok abs
  empty_world wstep wrun mstep sw_empty spec_wstep spec_wrun wop_ok abs_world.
