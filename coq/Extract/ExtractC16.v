Require Extraction.
Require Import ExtrOcamlBasic.
From Pygls Require Import Base.Assoc Model.Endpoint Model.EndpointX Spec.EndpointSpec Spec.CancelSpec.
Extraction Language OCaml.
Extraction "../ocaml/gen/c16_model.ml"
  init step run quiescent enabled drain measure expected exact guard f18_class
  replies count_id sat_atmost sat_exact req_ids id_eqb tie_guard sp_init sp_step
  natural cancellable named allowedb handler_of stepx runx.
