Require Extraction.
Require Import ExtrOcamlBasic.
From Pygls Require Import Base.Json Model.Wire Spec.WireSpec.
Extraction Language OCaml.
Extraction "../ocaml/gen/c03_model.ml"
  dumps escape esc_char digits dec_z truthy
  send_data send_response notify send_request do_send send_ops sender_ops sender_calls stream transport framed
  spec_decode parse_dec unescape pairfree loads_chars expected send_guard run_schedule seg p_run p_init for_writer
  Z.add Z.mul Z.opp Z.of_N N.add N.mul.
