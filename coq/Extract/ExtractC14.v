Require Extraction.
Require Import ExtrOcamlBasic.
From Pygls Require Import Model.Features Spec.FeaturesSpec Model.Dispatch Spec.DispatchSpec Proofs.C14Proofs.
Extraction Language OCaml.
Extraction "../ocaml/gen/c14_model.ml"
  has_ls_g see asks_server has_ls_param_or_annotation inj_ok sig_ok
  registry_of builtins init step run quiescent meth_of req_id ws_effect
  w0 delivered expect actual builtin_ok spec_step spec_run all_ok calls_of exec_site get_handler dispatch exec_command.
