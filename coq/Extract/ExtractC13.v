Require Extraction.
Require Import ExtrOcamlBasic.
From Pygls Require Import Base.JsonVal Model.Registry Spec.RegistrySpec.
Extraction Language OCaml.
Extraction "../ocaml/gen/c13_model.ml"
  embed receive send_request notify send_response helper_call dict_to_object st0
  classify spec_kind handle_branch shape_of python_name find_method
  spec_leaves generic_guard finding_class nested_jsonrpc wf_json has_type_name deep_jsonrpc
  array_with_objects good_key helper_ok method_covered helpers_ok registry_ok spec_trip model_trip
  spec_helper call_user_feature receive_stream model_trip_after ev_step.
