Require Extraction.
Require Import ExtrOcamlBasic.
From Pygls Require Import Base.PyStr Model.Codec Model.Doc Model.Workspace Spec.WorkspaceSpec.
Extraction Language OCaml.
Extraction "../ocaml/gen/c10_model.ml"
  init_ws impl_step get_text_document get_notebook_document source d_version
  spec_init spec_step wf_op spec_get spec_nb_of_cell.
