Require Extraction.
Require Import ExtrOcamlBasic.
From Pygls Require Import Model.Uris Spec.UrisSpec.
Extraction Language OCaml.
Extraction "../ocaml/gen/c18_model.ml"
  normalize_win_path quote unquote py_urlparse urlparse urlunparse from_fs_path to_fs_path
  uri_scheme text_document_path approx_uri utf8_dec_replace pct_bytes
  abs_path empty_authority guard norm norm_host norm_path spec_uri spec_roundtrip
  rfc3986_split pct_decode plain_uri scheme_is_file
  from_fs_path_gen to_fs_path_gen uri_with_gen uri_with
  win_slashed win_norm win_guard spec_roundtrip_win spec_uri_with with_guard path_has_authority opt_scalar spec_scheme.
