Require Extraction.
Require Import ExtrOcamlBasic.
From Pygls Require Import Base.Assoc Model.Endpoint Spec.EndpointSpec Spec.ContainSpec Model.Contain.
Extraction Language OCaml.
Extraction "../ocaml/gen/c06_model.ml"
  init step run quiescent enabled drain measure id_eqb
  in_set erase1 wf1 cfg_ok owed_report owed_guard vresp_known contained immediate_src passes handler_call.
