Require Extraction.
Require Import ExtrOcamlBasic.
From Pygls Require Import Base.Assoc Model.Endpoint Model.ExitWrappers Spec.EndpointSpec Spec.ShutdownSpec.
Extraction Language OCaml.
Extraction "../ocaml/gen/c09_model.ml"
  init step run quiescent enabled drain measure expected exact guard f18_class tie_guard
  replies count_id id_eqb sp_init sp_step
  x_init x_step exit_ref shut_ref pending_rc handed pending_request
  wrapper_run process_status loop_end status.
