Require Extraction.
Require Import ExtrOcamlBasic.
From Pygls Require Import Base.PyStr Model.Codec Spec.CodecSpec Model.DocQuery Spec.DocSpec Spec.DocQuerySpec.
Extraction Language OCaml.
Extraction "../ocaml/gen/c11_model.ml"
  lsp_lines client_num_units loop_width position_from_client_units position_to_client_units
  range_from_client_units range_to_client_units
  true_width units spec_from spec_to from_guard to_guard guard_str guard_char
  offset_at_position word_at_position spec_offset spec_word query_guard_widths offset_guard_units.
