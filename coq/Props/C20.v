(* C20 - Progress tokens: one cancel, one future, one notification.
   Model: Model/Progress.v (pygls/progress.py + the window/workDoneProgress/cancel built-in) on
   top of Model/Outgoing.v.  The statement has no hypothesis on the history. *)
From Coq Require Import ZArith NArith List Bool.
From Pygls Require Import Base.AssocOut Model.Outgoing Model.Progress Spec.ProgressSpec Proofs.ProgressProofs.
Import ListNotations.

Definition C20_statement : Prop :=
  forall evs, let s := prun evs in
  (* (1) a client cancel for a registered token cancels exactly that token's future: every other
         cancellation future ever created, and every other part of the state, is unchanged *)
  (forall tok h, aget id_eqb tok (tokens s) = Some h ->
     let s' := pstep s (ClientCancel tok) in
     (forall j, j <> h -> nth j (tfuts s') false = nth j (tfuts s) false) /\
     (h < length (tfuts s) -> nth h (tfuts s') false = true) /\
     tokens s' = tokens s /\ ofuts s' = ofuts s /\ out s' = out s /\ futs s' = futs s /\
     rtypes s' = rtypes s /\ errs s' = errs s /\ refused s' = refused s /\ next s' = next s) /\
  (* (2) a cancel for an unknown token (incl. the same text with the other JSON type) is ignored *)
  (forall tok, aget id_eqb tok (tokens s) = None -> pstep s (ClientCancel tok) = s) /\
  (* (3) create / create_async on a registered token is refused and sends nothing; on an
         unregistered one exactly one create request carrying the token is written *)
  (forall tok, registered s tok = true ->
     (forall ucb, pstep s (PCreate tok ucb) = refuse s) /\ pstep s (PCreateAsync tok) = refuse s /\
     out (refuse s) = out s /\ ofuts (refuse s) = ofuts s /\ tokens (refuse s) = tokens s /\
     futs (refuse s) = futs s /\ refused (refuse s) = (refused s + 1)%N) /\
  (forall tok, registered s tok = false ->
     (forall ucb, out (pstep s (PCreate tok ucb)) = out s ++ [WReq (IUuid (next s)) CREATE_M (Some tok)] /\
                  refused (pstep s (PCreate tok ucb)) = refused s /\
                  tokens (pstep s (PCreate tok ucb)) = tokens s) /\
     out (pstep s (PCreateAsync tok)) = out s ++ [WReq (IUuid (next s)) CREATE_M (Some tok)] /\
     refused (pstep s (PCreateAsync tok)) = refused s /\ tokens (pstep s (PCreateAsync tok)) = tokens s) /\
  (* (4) every begin / report / end appends exactly one $/progress with that token and value;
         over the whole history the $/progress notifications are exactly those calls, in order *)
  (forall tok v, out (pstep s (PBegin tok v)) = out s ++ [WProgress tok 0 v] /\
                 out (pstep s (PReport tok v)) = out s ++ [WProgress tok 1 v] /\
                 out (pstep s (PEnd tok v)) = out s ++ [WProgress tok 2 v]) /\
  progress_frames (out s) = spec_progress evs /\
  (* (5) a token is registered iff begin() was called for it or a create request for it has been
         acknowledged with a result (create_async: and the coroutine has continued); a rejected
         or unanswered create registers nothing *)
  (forall tok, registered s tok = true <-> In tok (begun evs) \/ acked s tok).

Theorem C20 : C20_statement.
Proof.
  intros evs s. split; [|split; [|split; [|split; [|split; [|split]]]]].
  - intros tok h H. apply cancel_token_frame, H.
  - intros tok H. apply unknown_token_noop, H.
  - intros tok H. apply create_registered_refused, H.
  - intros tok H. apply create_unregistered_sends, H.
  - intros tok v. apply one_progress_each.
  - apply (progress_frames_exact evs init).
  - intros tok. apply registered_iff_acked.
Qed.
Print Assumptions C20.

(* Non-vacuity / sanity: tokens 1 and "1" live side by side; create(1) acknowledged, create_async("1")
   acknowledged but registered only when its coroutine continues; the client cancels 1 (only 1's
   future is cancelled); a second create(1) is refused; create("t") is rejected with code 0 and
   an empty message and registers nothing. *)
Definition sample : list pev :=
  [PCreate (IInt 1) true; PCreateAsync (IStr [49%N]); PCreate (IStr [116%N]) false;
   Base (RecvResult (IUuid 1) 1 [6%N]); Base (RecvResult (IUuid 0) 1 [6%N]);
   Base (RecvError (IUuid 2) 0 [] 0);
   ClientCancel (IStr [49%N]);       (* "1" is not registered yet: ignored *)
   ClientCancel (IInt 1);
   PResume;
   PCreate (IInt 1) false;            (* refused *)
   PBegin (IStr [116%N]) 7; PReport (IInt 1) 3; PEnd (IStr [116%N]) 0].

Example C20_nonvacuous :
  token_view (prun sample) = [(IInt 1, true); (IStr [49%N], false); (IStr [116%N], false)] /\
  refused (prun sample) = 1%N /\
  progress_frames (out (prun sample)) = [(IStr [116%N], 0%N, 7%N); (IInt 1, 1%N, 3%N); (IStr [116%N], 2%N, 0%N)] /\
  length (out (prun sample)) = 6 /\
  begun sample = [IStr [116%N]] /\
  futs (prun sample) = [] /\ rtypes (prun sample) = [].
Proof. vm_compute. repeat split. Qed.
