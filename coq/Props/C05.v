(* C05 - A reply resolves exactly the request it answers.
   Model: Model/Outgoing.v (the TARGET state of pygls: `is None` defaults in
   JsonRpcException.__init__ - row 7 -, error branch of structure_message pops _result_types - row 5).
   Reference: Spec/OutgoingSpec.v (`spec`: every future is decided by the first event after its
   send that concerns it).  Hypotheses carried by the statement:
     injective_supply     every request is sent with an id distinct from every other OUTSTANDING one
                          (uuid4 / caller-given msg_id; an id is free again once its request has been
                          answered or given up - a callback-driven poll may reuse a fixed msg_id);
     disjoint_directions  the peer's own request ids / cancelled ids are none of ours  (finding F21:
                          the two tables are shared between the directions, C05_refuted_shared_tables);
     valid_results        a result validates against the requested method's result type (row 26:
                          otherwise the future stays pending, C05_outside_invalid_result);
     lsp_codes            error codes are LSP integers, -2^31 .. 2^31-1 (finding F29: lsprotocol's
                          validator rejects an error object with any other code, the frame is only
                          reported and the future stays pending: C05_refuted_code_range). *)
From Coq Require Import ZArith NArith List Bool.
From Pygls Require Import Base.AssocOut Model.Outgoing Spec.OutgoingSpec Proofs.OutgoingProofs.
Import ListNotations.

Notation nget := (aget Nat.eqb).

Definition C05_gen (H : list ev -> Prop) (C : Z -> Prop) : Prop :=
  forall evs, H evs ->
  let s := run evs in
  (* (a) outstanding requests carry pairwise distinct ids *)
  (forall k1 o1 k2 o2, nget k1 (ofuts s) = Some o1 -> nget k2 (ofuts s) = Some o2 ->
     is_pending (ost o1) = true -> is_pending (ost o2) = true -> oid o1 = oid o2 -> k1 = k2) /\
  (* (b) every future ends as the FIRST response carrying its id after the send (or the caller's
         own cancel) says: Resolved (result type of the REQUESTED method, payload), Failed (class
         for the code, code, message, data), Cancelled, else Pending; the user callback has run
         once iff Resolved.  Nothing else in the history - order of the other replies, duplicates,
         strays, unrelated traffic - enters `spec`. *)
  views s = spec evs /\
  (* (c) a future changes state at most once: decided after a prefix, it never changes again *)
  (forall a b, evs = a ++ b -> forall k o, nget k (ofuts (run a)) = Some o ->
     is_pending (ost o) = false -> nget k (ofuts s) = Some o) /\
  (* (d) the callback ran exactly once iff the future is Resolved (and a callback was given) *)
  (forall k o, nget k (ofuts s) = Some o ->
     ocalls o = if is_resolved (ost o) && cbflag (ocb o) then 1%N else 0%N) /\
  (* (e) in the state reached: a response whose id belongs to no pending request - duplicate,
         unknown id, id echoed with the wrong JSON type - leaves every future unchanged *)
  (forall i, (forall k o, nget k (ofuts s) = Some o -> is_pending (ost o) = true -> oid o <> i) ->
     (forall p oks, ofuts (step s (RecvResult i p oks)) = ofuts s) /\
     (forall c m d, ofuts (step s (RecvError i c m d)) = ofuts s)) /\
  (* (f) in the state reached: an error response for a pending request fails its future, for
         EVERY integer code the class admits (incl. 0), every message (incl. ""), every data *)
  (forall k o, nget k (ofuts s) = Some o -> is_pending (ost o) = true -> forall c m d, C c ->
     nget k (ofuts (step s (RecvError (oid o) c m d))) = Some (set_ost o (Failed (spec_class c) c m d))).

(* the full statement: only the id supply is assumed, every integer is an error code *)
Definition C05_statement : Prop := C05_gen injective_supply (fun _ => True).

(* what holds of the code: under the two further hypotheses *)
Definition C05_hyps (evs : list ev) : Prop :=
  injective_supply evs /\ disjoint_directions evs /\ valid_results evs /\ lsp_codes evs.
Definition C05_partial_statement : Prop := C05_gen C05_hyps (fun c => int32 c = true).

Theorem C05_partial : C05_partial_statement.
Proof.
  intros evs (A & B & C & D) s.
  pose proof (compat_init evs A B C D) as CI.
  assert (I : Inv s) by (apply inv_run; [exact inv_init|exact CI]).
  repeat split.
  - intros k1 o1 k2 o2. apply ids_distinct, I.
  - apply first_response_wins; assumption.
  - intros a b E k o G P. subst evs. apply future_monotone_run; assumption.
  - apply (callback_iff_resolved evs init inv_init CI calls_ok_init).
  - apply stray_dup_noop; assumption.
  - apply stray_dup_noop; assumption.
  - intros k o G P c m d C32. apply error_always_fails; assumption.
Qed.
Print Assumptions C05_partial.

(* under the executable guard the harness uses *)
Theorem C05 : C05_gen (fun evs => guard evs = true) (fun c => int32 c = true).
Proof.
  intros evs G. apply C05_partial. destruct (guard_sound evs G) as (A & B & C & D).
  repeat split; assumption.
Qed.
Print Assumptions C05.

(* F21 (DESIGN 6 row 21): _request_futures / _result_types are shared between the directions.
   send_request(msg_id=7); an incoming request with id 7 is answered (its _send_response pops the
   result type registered for OUR request 7); the peer's reply to our 7 then hits KeyError in
   structure_message: the future stays pending for ever. *)
Definition shared_tables_witness : list ev :=
  [UserSend 0 1 (CbUser KNone) (Some (IInt 7)); InReply (IInt 7); RecvResult (IInt 7) 0 [1%N]].

Theorem C05_refuted_shared_tables :
  injective_supply shared_tables_witness /\ valid_results shared_tables_witness /\
  disjoint_directions_b shared_tables_witness = false /\
  views (run shared_tables_witness) = [(Pending, 0%N)] /\
  spec shared_tables_witness = [(Resolved 1 0, 1%N)].
Proof.
  repeat split; vm_compute; reflexivity.
Qed.

(* F29: an error response whose code is not an int32 (e.g. 2^31) is rejected by lsprotocol's
   integer_validator while structuring; the frame is only reported, the future stays pending and
   its _request_futures entry stays. *)
Definition code_range_witness : list ev := [UserSend 0 1 (CbUser KNone) None; RecvError (IUuid 0) 2147483648 [109%N] 0].

Theorem C05_refuted_code_range :
  injective_supply code_range_witness /\ disjoint_directions code_range_witness /\
  valid_results code_range_witness /\ lsp_codes_b code_range_witness = false /\
  views (run code_range_witness) = [(Pending, 0%N)] /\
  spec code_range_witness = [(Failed EBase 2147483648 [109%N] 0, 0%N)] /\
  akeys (futs (run code_range_witness)) = [IUuid 0].
Proof.
  repeat split; try (vm_compute; reflexivity).
  intros i [].
Qed.

Theorem C05_refuted : ~ C05_statement.
Proof.
  intros H. destruct C05_refuted_shared_tables as (A & _ & _ & V & S).
  destruct (H shared_tables_witness A) as (_ & E & _). rewrite V, S in E. discriminate.
Qed.
Print Assumptions C05_refuted.

(* the same table sharing, other entry points: an incoming $/cancelRequest naming our id cancels
   our future; an incoming async request with our id replaces our future in the table *)
Example C05_shared_tables_cancel :
  views (run [UserSend 0 1 (CbUser KNone) (Some (IInt 7)); InCancel (IInt 7); RecvResult (IInt 7) 0 [1%N]])
  = [(Cancelled, 0%N)].
Proof. vm_compute. reflexivity. Qed.
Example C05_shared_tables_async :
  views (run [UserSend 0 1 (CbUser KNone) (Some (IInt 7)); InAsyncReg (IInt 7); RecvResult (IInt 7) 0 [1%N]])
  = [(Pending, 0%N)].
Proof. vm_compute. reflexivity. Qed.

(* Row 26: a result that does not validate against the requested method's result type is only
   reported; its future stays pending and later (valid) results for it are rejected (KeyError).
   Outside the property's quantifier ("results decoded as the result type"), recorded here. *)
Example C05_outside_invalid_result :
  let evs := [UserSend 0 1 (CbUser KNone) None; RecvResult (IUuid 0) 3 [0%N]; RecvResult (IUuid 0) 0 [1%N]] in
  valid_results_b evs = false /\ views (run evs) = [(Pending, 0%N)] /\
  akeys (futs (run evs)) = [IUuid 0] /\ errs (run evs) = 2%N.
Proof. vm_compute. repeat split. Qed.

(* Non-vacuity: a history with three outstanding requests (uuid, int 7, string "7"), replies out
   of order, a duplicate, a stray, an error with code 0 and empty message, meets the hypotheses;
   every future is decided as the first reply to it says. *)
Definition sample : list ev :=
  [UserSend 0 1 (CbUser KNone) None; UserSend 1 2 CbNone (Some (IInt 7)); UserSend 6 0 (CbUser KNone) (Some (IStr [55%N]));
   RecvResult (IInt 7) 0 [0%N; 1%N; 2%N]; RecvError (IStr [55%N]) 0 [] 3;
   RecvResult (IUuid 0) 5 [0%N; 1%N]; RecvResult (IUuid 0) 0 [0%N; 1%N]; RecvError (IInt 99) 1 [109%N] 0].

Example C05_nonvacuous :
  guard sample = true /\
  views (run sample) = [(Resolved 1 5, 1%N); (Resolved 2 0, 0%N); (Failed EBase 0 [] 3, 0%N)] /\
  futs (run sample) = [] /\ rtypes (run sample) = [].
Proof. vm_compute. repeat split. Qed.

(* Permutation independence, stated on its own: k requests outstanding, each answered at most
   once; whatever the order in which the replies arrive, every future ends in the same state. *)
Theorem C05_permutation : forall sends rs rs',
  forallb is_send sends = true -> forallb is_resp rs = true -> NoDup (map resp_id rs) ->
  Permutation.Permutation rs rs' ->
  injective_supply (sends ++ rs) -> lsp_codes (sends ++ rs) ->
  valid_results (sends ++ rs) -> valid_results (sends ++ rs') ->
  views (run (sends ++ rs)) = views (run (sends ++ rs')).
Proof. exact reply_order_irrelevant. Qed.
Print Assumptions C05_permutation.

Example C05_permutation_nonvacuous :
  let sends := [UserSend 0 1 (CbUser KNone) None; UserSend 1 2 CbNone None; UserSend 6 0 (CbUser KNone) (Some (IInt 7))] in
  let rs := [RecvResult (IUuid 0) 5 [1%N]; RecvError (IUuid 1) 0 [] 0; RecvResult (IInt 7) 3 [0%N]] in
  let rs' := [RecvResult (IInt 7) 3 [0%N]; RecvResult (IUuid 0) 5 [1%N]; RecvError (IUuid 1) 0 [] 0] in
  guard (sends ++ rs) = true /\ Permutation.Permutation rs rs' /\
  views (run (sends ++ rs')) = [(Resolved 1 5, 1%N); (Failed EBase 0 [] 0, 0%N); (Resolved 0 3, 1%N)].
Proof.
  repeat split; try (vm_compute; reflexivity).
  apply Permutation.Permutation_sym.
  apply (Permutation.Permutation_cons_app [RecvResult (IUuid 0) 5 [1%N]; RecvError (IUuid 1) 0 [] 0] []).
  cbn [app]. apply Permutation.Permutation_refl.
Qed.

(* Re-entrancy.  Callbacks are user code and run INSIDE set_result / set_exception / cancel; they
   may cancel other futures and send follow-up requests, also with the id that has just been
   answered (a poll with a fixed msg_id).  `rrun` is the machine that executes that user code
   where the callbacks run (Model: step_with, after the `_request_futures.pop`); `rtrace evs` is
   the primitive trace it induces (the event, then what the user code did).  Since nothing follows
   the callbacks in the handling of a frame, the two coincide - so every clause of C05 above
   holds of `rrun evs` as it holds of `run (rtrace evs)`: the re-sent id is a NEW request whose
   outstanding interval starts inside the callback, and every generation of a polled id completes
   with ITS reply. *)
Theorem C05_reentrant : forall evs,
  rrun evs = run (rtrace evs) /\
  (guard (rtrace evs) = true -> views (rrun evs) = spec (rtrace evs)).
Proof.
  intros evs. split; [apply (rrun_flat evs init)|apply reentrant_first_response_wins].
Qed.
Print Assumptions C05_reentrant.
