(* C19 - A rejected registration changes nothing.
   "A feature or command name maps to at most one user handler.  Registering under a name already
    taken, under an empty name, with options of the wrong type, or applying the thread decorator to
    a coroutine is refused with an error, and after the refusal the registry, the advertised
    capabilities and the dispatch behaviour are exactly what they were before the refused call."

   Model: Model/Features.v = pygls/feature_manager.py after repair 1 (options validated before any
   registry write).  Open finding at this commit: F27 - the options type check is an oracle bit in
   the model; in the real code it is structural (and skipped for falsy objects), so "options of the
   wrong type are refused" fails for the classes named in C19_refuted_*.  Everything else -
   atomicity, uniqueness, exact effect, capabilities/dispatch unchanged - is proved in full, for
   every history of calls of any length, whatever the oracle answers. *)
From Coq Require Import NArith List Bool.
From Pygls Require Import Model.Features Spec.FeaturesSpec Proofs.FeaturesProofs.
Import ListNotations.
Open Scope N_scope.

(* the registry reached by an arbitrary history of calls (any calls, any arguments) *)
Definition reachable (r : registry) : Prop := exists xs, r = run empty_registry xs.

(* The statement, parameterised by the class G of calls for which the refusal clause is claimed *)
Definition C19_gen (G : op -> Prop) : Prop :=
  (* (a) a refused call is the identity on the registry, and on the function object *)
  (forall r x r' f' e, step r x = (r', f', Error e) -> r' = r /\ f' = op_fn x) /\
  (* (b) each name maps to at most one handler, in every reachable registry *)
  (forall xs n e1 e2, let r := run empty_registry xs in
     (In (n, e1) (features r) -> In (n, e2) (features r) -> e1 = e2) /\
     (In (n, e1) (commands r) -> In (n, e2) (commands r) -> e1 = e2) /\
     NoDup (akeys (features r)) /\ NoDup (akeys (commands r))) /\
  (* (c) an accepted registration adds exactly that name and changes no other entry;
         an accepted thread() adds and removes nothing and can only set one marker *)
  (forall r n o f r' f', step r (OpFeature n o f) = (r', f', Ok) ->
     aget n (features r) = None /\
     aget n (features r') = Some (wrap_with_server (assign_help_attrs f n RFeature)) /\
     (forall m, m <> n -> aget m (features r') = aget m (features r)) /\
     (forall m, m <> n -> aget m (feature_options r') = aget m (feature_options r)) /\
     commands r' = commands r /\ akeys (features r') = akeys (features r) ++ [n]) /\
  (forall r n f r' f', step r (OpCommand n f) = (r', f', Ok) ->
     aget n (commands r) = None /\
     aget n (commands r') = Some (wrap_with_server (assign_help_attrs f n RCommand)) /\
     (forall m, m <> n -> aget m (commands r') = aget m (commands r)) /\
     features r' = features r /\ feature_options r' = feature_options r /\
     akeys (commands r') = akeys (commands r) ++ [n]) /\
  (forall r f r' f', step r (OpThread f) = (r', f', Ok) ->
     akeys (features r') = akeys (features r) /\ akeys (commands r') = akeys (commands r) /\
     feature_options r' = feature_options r /\
     (forall m, same_but_thread (aget m (features r)) (aget m (features r'))) /\
     (forall m, same_but_thread (aget m (commands r)) (aget m (commands r')))) /\
  (* (d) for every history of decorated definitions: whatever function of the registry the
         capabilities are, and for the concrete dispatch (built-ins first), a refused call
         changes nothing *)
  (forall (A : Type) (caps : registry -> A) (l : list attempt),
     Forall (fun t => let '(before, after, res) := t in
                      is_error res = true -> after = before /\ caps after = caps before)
            (triples empty_registry (run_attempts empty_registry l))) /\
  (forall (builtins : list name) (l : list attempt),
     Forall (fun t => let '(before, after, res) := t in
                      is_error res = true ->
                      forall n, get_handler builtins after n = get_handler builtins before n /\
                                dispatch builtins after n = dispatch builtins before n /\
                                exec_command after n = exec_command before n)
            (triples empty_registry (run_attempts empty_registry l))) /\
  (* (e) what is refused: exactly a blank / None name, a name already taken, options that are not
         of the method's options type, thread() on a coroutine function (Spec.must_refuse); and an
         accepted call has exactly the effect the reference gives it *)
  (forall xs x, let r := run empty_registry xs in G x ->
     is_error (step_res r x) = must_refuse (abs r) x /\
     abs (step_reg r x) = fst (spec_step (abs r) x)).

(* domain of the statement: a coroutine function never carries the thread marker (thread() itself
   refuses to put it there) *)
Definition op_domain (x : op) : Prop := func_ok (op_fn x) = true.

Definition C19_statement : Prop := C19_gen op_domain.

(* the guard: additionally, the oracle's answer on the options is the nominal one *)
Definition C19_partial_statement : Prop := C19_gen (fun x => op_ok x = true).

Lemma atomic_pair : forall (A : Type) (caps : registry -> A) r tr, chain r tr ->
    Forall (fun t => let '(before, after, res) := t in
                     is_error res = true -> after = before /\ caps after = caps before)
           (triples r tr).
Proof.
  intros A caps r tr H. pose proof (history_atomic r tr H) as HA.
  induction HA as [|[[b a] res] t Hh Ht IH]; constructor; [|exact IH].
  intro He. destruct res as [|e]; [discriminate|]. rewrite (Hh e eq_refl). split; reflexivity.
Qed.

Theorem C19_partial : C19_partial_statement.
Proof.
  unfold C19_partial_statement, C19_gen.
  split; [intros r x r' f' e H; split; [eapply reject_is_identity|eapply reject_keeps_function]; exact H|].
  split; [exact at_most_one_handler|].
  split; [exact accept_feature_frame|].
  split; [exact accept_command_frame|].
  split; [intros r f r' f' H; apply accept_thread_frame in H; tauto|].
  split; [intros A caps l; apply atomic_pair, run_attempts_chain|].
  split; [exact dispatch_unchanged|].
  intros xs x G. pose proof (wf_run xs _ wf_empty) as W.
  split; [apply refused_iff_must_refuse; assumption|apply step_refines; assumption].
Qed.
Print Assumptions C19_partial.

(* Clauses (a)-(d) - the atomicity the property is about - need no guard at all: *)
Theorem C19_atomicity : forall G : op -> Prop,
    (forall xs x, let r := run empty_registry xs in G x ->
       is_error (step_res r x) = must_refuse (abs r) x /\
       abs (step_reg r x) = fst (spec_step (abs r) x)) -> C19_gen G.
Proof.
  intros G HG. destruct C19_partial as (a & b & c1 & c2 & c3 & d1 & d2 & _).
  unfold C19_gen. repeat (split; [assumption|]). exact HG.
Qed.

(* F27 (structural check): an options object that is NOT of the declared type but passes the
   structural test of the real check (oracle bit CkValid) is accepted *)
Definition hover_name : name := Some [104; 111; 118; 101; 114].
Definition fn1 : func := mkfunc 1 false (First false ANone) false None.

Theorem C19_refuted_structural :
  exists x, op_domain x /\ must_refuse (abs empty_registry) x = true /\
            is_error (step_res empty_registry x) = false.
Proof. exists (OpFeature hover_name (OObj 1 true false CkValid) fn1). vm_compute. auto. Qed.

(* F27 (falsy): an object of the wrong type that is falsy is neither refused nor recorded *)
Theorem C19_refuted_falsy :
  exists x, op_domain x /\ must_refuse (abs empty_registry) x = true /\
            is_error (step_res empty_registry x) = false /\
            feature_options (step_reg empty_registry x) = [].
Proof. exists (OpFeature hover_name (OObj 1 false false CkRaises) fn1). vm_compute. auto. Qed.

Theorem C19_refuted : ~ C19_statement.
Proof.
  intros (_ & _ & _ & _ & _ & _ & _ & H).
  destruct (H [] (OpFeature hover_name (OObj 1 true false CkValid) fn1) eq_refl) as [H1 _].
  vm_compute in H1. discriminate.
Qed.
Print Assumptions C19_refuted.

(* Non-vacuity: a history in which a registration is accepted, then a wrong-type registration
   under a fresh name, a duplicate, a blank name and thread() on a coroutine are all refused,
   inside the guard, leaving exactly the first registration. *)
Definition ex_attempts : list attempt :=
  [ mkattempt RFeature hover_name (OObj 1 true true CkValid) fn1 TNone;
    mkattempt RFeature (Some [99]) (OObj 2 true false CkRaises) (mkfunc 2 false (First true ANone) false None) TNone;
    mkattempt RFeature hover_name ONone (mkfunc 3 false (First false ANone) false None) TAbove;
    mkattempt RCommand (Some [32; 9]) ONone (mkfunc 4 false (First false ANone) false None) TNone;
    mkattempt RCommand (Some [100]) ONone (mkfunc 5 true (First false AServer) false None) TBelow ].

Example C19_nonvacuous :
  forallb attempt_ok ex_attempts = true /\
  map (fun p => is_error (snd p)) (run_attempts empty_registry ex_attempts) = [false; true; true; true; true] /\
  map fst (run_attempts empty_registry ex_attempts) =
    repeat (mkreg [(hover_name, mkentry 1 false false false)] [] [(hover_name, 1)]) 5 /\
  op_ok (OpFeature hover_name (OObj 1 true true CkValid) fn1) = true.
Proof. vm_compute. repeat split; reflexivity. Qed.

(* The executable reference run by the correspondence harness (Spec.spec_run_attempts) is, call by
   call, the abstraction of the model, for every history of decorated definitions in the guard *)
Theorem C19_reference_agrees : forall l, forallb attempt_ok l = true ->
    map view (run_attempts empty_registry l) = spec_run_attempts s_empty l.
Proof. intros l H. exact (attempts_refine l empty_registry wf_empty H). Qed.
Print Assumptions C19_reference_agrees.

(* before repair 1 the write preceded the check: refused, yet registered and dispatched *)
Theorem C19_unrepaired_refuted :
  exists r n o f r' f' e, feature_unrepaired r n o f = (r', f', Error e) /\ r' <> r /\
                          get_handler [] r' n <> get_handler [] r n.
Proof. exact unrepaired_not_atomic. Qed.

(* ------------------------------------------------------------------ the two-phase API
   server.feature(..) / command(..) / thread() only CREATE a decorator; the registration is its
   APPLICATION.  For every interleaving of function definitions, decorator creations and
   applications (Model.wop; any order, any number, decorators applied late, twice, never): *)
Definition C19_two_phase_gen (G : wop -> Prop) : Prop :=
  (* each name maps to at most one handler after every call of every interleaving *)
  (forall xs,
     Forall (fun p => let r := w_reg (fst p) in
                      NoDup (akeys (features r)) /\ NoDup (akeys (commands r)) /\
                      forall n e1 e2,
                        (In (n, e1) (features r) -> In (n, e2) (features r) -> e1 = e2) /\
                        (In (n, e1) (commands r) -> In (n, e2) (commands r) -> e1 = e2))
            (wrun empty_world xs)) /\
  (* a refused call leaves the registry, any function `obs` of it and the function objects alone *)
  (forall (A : Type) (obs : registry -> A) xs,
     Forall (fun t => let '(before, after, res) := t in
                      is_error res = true ->
                      w_reg after = w_reg before /\ w_fns after = w_fns before /\
                      obs (w_reg after) = obs (w_reg before))
            (wtriples empty_world (wrun empty_world xs))) /\
  (* creating a decorator (or defining a function) is never refused and changes nothing: all
     checks happen at application time *)
  (forall xs,
     Forall (fun p => let '(before, after, res, x) := p in
                      match x with
                      | WApply _ _ => True
                      | _ => res = Ok /\ w_reg after = w_reg before
                      end)
            (combine (wtriples empty_world (wrun empty_world xs)) xs)) /\
  (* servers of one process share nothing *)
  (forall ws k x k', k' <> k -> nth_error (fst (mstep ws k x)) k' = nth_error ws k') /\
  (* what is refused / what an accepted application does: the reference, call by call *)
  (forall xs, Forall G xs -> map wview (wrun empty_world xs) = spec_wrun sw_empty xs).

Theorem C19_two_phase : C19_two_phase_gen (fun x => wop_ok x = true).
Proof.
  unfold C19_two_phase_gen.
  split; [exact world_at_most_one_handler|].
  split; [intros A obs xs; apply world_history_atomic|].
  split; [intro xs; apply world_creation_silent|].
  split; [exact mstep_frame|].
  intros xs H. apply (wrun_refines xs empty_world world_ok_empty).
  apply forallb_forall. rewrite Forall_forall in H. exact H.
Qed.
Print Assumptions C19_two_phase.

(* non-vacuity + the table-driven pattern: two decorators for the same command name are created
   before either is applied; the second application is refused and the first handler stays *)
Definition ex_interleaving : list wop :=
  [ WDef fn1; WDef (mkfunc 2 false (First true ANone) false None);
    WMake (DCommand hover_name); WMake (DCommand hover_name); WMake DThread;
    WApply 0 0; WApply 1 1; WApply 2 0 ].

Example C19_two_phase_nonvacuous :
  forallb wop_ok ex_interleaving = true /\
  map (fun p => is_error (snd p)) (wrun empty_world ex_interleaving) =
    [false; false; false; false; false; false; true; false] /\
  commands (w_reg (fst (last (wrun empty_world ex_interleaving) (empty_world, Ok)))) =
    [(hover_name, mkentry 1 false false true)].
Proof. vm_compute. repeat split; reflexivity. Qed.

(* ------------------------------------------------------------------ function objects offered again
   Function objects are identities with mutable attributes; the same object may be offered again:
   under its own taken name (refused, identity, whatever the function and the options), under a
   second name (accepted: two names, one object - every name still has one handler). *)
Definition ex_reuse : list wop :=
  [ WDef fn1;
    WMake (DFeature hover_name (OObj 1 true true CkValid)); WApply 0 0;     (* registered *)
    WMake (DFeature hover_name (OObj 4 true true CkValid)); WApply 1 0;     (* same object, taken name *)
    WMake (DFeature (Some [99]) ONone); WApply 2 0;                          (* same object, second name *)
    WMake DThread; WApply 3 0 ].                                             (* marks the one object *)

Example C19_same_function_again :
  forallb wop_ok ex_reuse = true /\
  map (fun p => is_error (snd p)) (wrun empty_world ex_reuse) =
    [false; false; false; false; true; false; false; false; false] /\
  (let r := w_reg (fst (last (wrun empty_world ex_reuse) (empty_world, Ok))) in
   features r = [(hover_name, mkentry 1 false false true); (Some [99], mkentry 1 false false true)] /\
   feature_options r = [(hover_name, 1)]).
Proof. vm_compute. repeat split; reflexivity. Qed.

Theorem C19_taken_name_refused_whatever_is_offered :
  (forall r n o f, name_invalid n = false -> amem n (features r) = true ->
                   step r (OpFeature n o f) = (r, f, Error EDuplicate)) /\
  (forall r n f, name_invalid n = false -> amem n (commands r) = true ->
                 step r (OpCommand n f) = (r, f, Error EDuplicate)).
Proof. split; [exact taken_feature_refused|exact taken_command_refused]. Qed.
