(* C17 - A client never waits on a dead server.
   Model: Model/Client.v (pygls/client.py start_io / _server_exit / stop, and the reader task
   pygls/io_.py run_async at the end of the server's output), in the target state of the
   repository: row 9 (run_async: IncompleteReadError / ConnectionError -> break), row 6
   (start_io hands the wrapped _report_server_error to run_async) and notes/fix_C17_2.patch
   (_server_exit cancels handler tasks found in the table instead of calling set_exception on
   them) applied.
   The statement quantifies over every history h during which the server is alive, every exit
   code, every way the byte stream can end (clean / cut header / cut body / junk), and every
   continuation `rest` in which the exit watcher and the reader task get to run - in either
   order, interleaved with arbitrary other events (sends, cancels, stop(), further runs).
   Outside the model (observed by the harness only, under a 5 s bound): that the OS reports the
   exit and closes the pipes, i.e. that the two enabling events happen at all, and "promptly". *)
From Coq Require Import NArith ZArith List Bool.
From Pygls Require Import Model.Client Spec.ClientSpec Proofs.ClientProofs Proofs.ClientBounded.
Import ListNotations.
Open Scope N_scope.

Definition C17_statement : Prop :=
  forall (c : config) (h rest : list event) (rc : Z) (t : tail),
    good c ->
    proc (run c h) = Alive ->
    (needs c <= count_xtask rest)%nat ->     (* the exit watcher gets to run (twice if the hook suspends) *)
    In ReaderRun rest ->                     (* the reader task gets to run *)
    let s0 := run c h in
    let s := run c (h ++ ProcExit rc t :: rest) in
    (* every request outstanding when the server dies is done (none pending) ... *)
    (forall i, aget (futs s0) i = Some Pending ->
       exists st, aget (futs s) i = Some st /\ is_done st = true) /\
    (* ... and fails with the exit error unless a decodable answer was in flight or the caller
       cancels it; an undecodable / unacceptable reply (BadReply) is not an answer *)
    (forall i, aget (futs s0) i = Some Pending -> no_reply_to i (pipe s0) = true ->
       no_cancel_of i rest = true -> aget (futs s) i = Some (FailedExit rc)) /\
    (* frame: what was resolved, failed or cancelled before the exit keeps its state *)
    (forall i st, aget (futs s0) i = Some st -> is_done st = true -> aget (futs s) i = Some st) /\
    (* the hook ran exactly once (with the return code) - whether it returns, raises, sleeps or
       waits for the requests to settle - and when it started every request was already done *)
    hook_calls s = [(rc, true)] /\
    stopped s = true /\
    (* stop() returns normally: no task exception is re-raised, nothing is waited for *)
    stop_outcome s = StopReturns.

Theorem C17 : C17_statement.
Proof.
  intros c h rest rc t G A HX HR s0 s.
  destruct (client_exit c h rc t rest G A HX HR) as (F & Hh & Hs & Ho).
  split; [|split; [|split; [|split; [|split]]]]; try assumption.
  - intros i Hi. destruct (F i Pending Hi) as (st & B1 & B2 & _). eauto.
  - intros i Hi Q NC. apply exit_fails_all_outstanding; try assumption; [apply G|apply (needs_in c), HX].
  - intros i st Hi D. destruct (F i st Hi) as (st' & B1 & _ & B3). rewrite <- (B3 D). exact B1.
Qed.
Print Assumptions C17.

(* Non-vacuity: five requests before the exit - the first answered and read, the second cancelled,
   the third answered undecodably (read: stays outstanding), a reply to the fourth in flight, the
   fifth unanswered; a sixth sent while the client has not yet noticed; server killed (-9) inside a
   body; the caller calls stop() early; the exit watcher runs before the reader; the hook waits
   for the requests to settle, a request is sent while it waits; raising error hook. *)
Example C17_nonvacuous :
  let c := repaired HookAwaits true in
  let h := [Send; SrvWrite (Reply 0 (RResult 7)); ReaderRun; Send; UserCancel 1; Send;
            SrvWrite (BadReply 2); ReaderRun; Send; SrvWrite BadFrame;
            SrvWrite (Reply 3 (RError (-32000)%Z)); Send] in
  let rest := [Send; Stop; ServerExitTask; Send; ReaderRun; ServerExitTask] in
  good c /\ proc (run c h) = Alive /\ (needs c <= count_xtask rest)%nat /\ In ReaderRun rest /\
  map snd (futs (run c h)) = [Resolved 7; Cancelled; Pending; Pending; Pending] /\
  map snd (futs (run c (h ++ ProcExit (-9)%Z TPartBody :: rest))) =
    [Resolved 7; Cancelled; FailedExit (-9)%Z; FailedExit (-9)%Z; FailedExit (-9)%Z;
     FailedExit (-9)%Z; Pending] /\
  hook_calls (run c (h ++ ProcExit (-9)%Z TPartBody :: rest)) = [((-9)%Z, true)] /\
  stop_outcome (run c (h ++ ProcExit (-9)%Z TPartBody :: rest)) = StopReturns.
Proof. vm_compute. repeat split; auto 10. Qed.

(* Scope of the statement: a request sent after the exit has been handled is never failed by
   anybody (the property speaks of the requests outstanding when the server dies). *)
Example C17_late_send_stays_pending :
  map snd (futs (run (repaired HookOk false) [ProcExit 0%Z TClean; ServerExitTask; ReaderRun; Send]))
  = [Pending].
Proof. vm_compute. reflexivity. Qed.

(* The unrepaired code (pinned commit) does not satisfy the statement: kernel-checked witnesses.
   The same inputs are in corpus/C17 and make the check report a VIOLATION on an unrepaired tree. *)

(* row 9: the server dies inside a body -> the reader task dies with IncompleteReadError and
   stop() re-raises it *)
Theorem C17_pinned_refuted_eof :
  let c := {| fix_eof := false; fix_wrap := true; fix_task := true; hook := HookOk; errhook_raises := false |} in
  exists h rc t rest,
    proc (run c h) = Alive /\ (needs c <= count_xtask rest)%nat /\ In ReaderRun rest /\
    stop_outcome (run c (h ++ ProcExit rc t :: rest)) = StopRaises ExIncompleteRead.
Proof.
  exists [Send], 0%Z, TPartBody, [ReaderRun; ServerExitTask]. vm_compute. repeat split; auto.
Qed.

(* row 6: a complete frame that cannot be handled, with a report_server_error override that
   raises -> the reader task dies with the hook's exception and stop() re-raises it *)
Theorem C17_pinned_refuted_errhook :
  let c := {| fix_eof := true; fix_wrap := false; fix_task := true; hook := HookOk; errhook_raises := true |} in
  exists h rc t rest,
    proc (run c h) = Alive /\ (needs c <= count_xtask rest)%nat /\ In ReaderRun rest /\
    stop_outcome (run c (h ++ ProcExit rc t :: rest)) = StopRaises ExErrHook.
Proof.
  exists [Send; SrvWrite BadFrame], 0%Z, TClean, [ReaderRun; ServerExitTask].
  vm_compute. repeat split; auto.
Qed.

(* the asyncio Task of a coroutine handler serving a request of the server is in the table and not
   done when the server dies -> Task.set_exception raises, the exit watcher dies in its loop: the
   requests later in the table are never failed (request 1 below hangs), the hook is not called,
   stopped is not set and stop() re-raises *)
Theorem C17_pinned_refuted_handler_task :
  let c := {| fix_eof := true; fix_wrap := true; fix_task := false; hook := HookOk; errhook_raises := false |} in
  exists h rc t rest,
    proc (run c h) = Alive /\ (needs c <= count_xtask rest)%nat /\ In ReaderRun rest /\
    let s := run c (h ++ ProcExit rc t :: rest) in
    map snd (futs s) = [FailedExit rc; Pending] /\ hook_calls s = [] /\ stopped s = false /\
    stop_outcome s = StopRaises ExTaskSetException.
Proof.
  exists [Send; SrvWrite (Request 0); ReaderRun; Send], 0%Z, TClean, [ReaderRun; ServerExitTask].
  vm_compute. repeat split; auto.
Qed.

(* repaired: the handler task is cancelled instead (cancel requested by the exit watcher, taken
   when the task next runs; its done-callback removes the table entry), everything else as stated *)
Example C17_handler_task_cancelled :
  let c := repaired HookOk false in
  let s := run c [Send; SrvWrite (Request 0); ReaderRun; Send; ProcExit 0%Z TClean;
                  ReaderRun; ServerExitTask; HandlerStep 0] in
  map snd (futs s) = [FailedExit 0%Z; FailedExit 0%Z] /\ htasks s = [(0, HCancelled)] /\
  rf s = [Own 0; Own 1] /\ hook_calls s = [(0%Z, true)] /\ stop_outcome s = StopReturns.
Proof. vm_compute. repeat split; reflexivity. Qed.

(* In the pinned code the outcome depends on the schedule: if the exit watcher happens to run
   first the reader leaves through the stop flag and nothing is raised. *)
Example C17_pinned_schedule_dependent :
  stop_outcome (run (pinned HookOk false) [Send; ProcExit 0%Z TPartBody; ServerExitTask; ReaderRun])
  = StopReturns.
Proof. vm_compute. reflexivity. Qed.

(* The executable check used by the correspondence run, spec_ok, is the conjunction of the
   clauses (ClientProofs.spec_ok_iff), and it accepts the model's final observation for every
   history (reference_agrees); the finer conversation-level expectations (conv_expect) agree with
   the model on every conversation of at most 7 events over a 9-event alphabet, for the four hook kinds
   (ClientBounded.conv_expect_sound_bounded).
   Missing: agreement of conv_expect with the model for conversations of unbounded length (a
   simulation between the scan and the model state, pipe contents included) is not proved; the
   unbounded content of the finer expectations is carried by the clauses of C17 themselves
   (exit error for unanswered requests, frame), and conv_expect is additionally compared with
   the model on every generated case of every run. *)
Theorem C17_reference_agrees : forall c h rc t rest,
  good c -> proc (run c h) = Alive -> (needs c <= count_xtask rest)%nat -> In ReaderRun rest ->
  spec_ok (weak_expects (futs (run c h))) (observe (run c (h ++ ProcExit rc t :: rest))) = true.
Proof. exact reference_agrees. Qed.
Print Assumptions C17_reference_agrees.
Print Assumptions conv_expect_sound_bounded.
Print Assumptions conv_expect_sound_bounded_handlers.
