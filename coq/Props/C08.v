(* C08 - Cancellation hits only its target and never loses or doubles a reply.
   Model: Model/Endpoint.v (`$/cancelRequest` intercepted before handler lookup,
   _handle_cancel_notification = pop then cancel, asyncio / concurrent.futures cancel semantics).
   Reference for the CONTENT of replies: Spec/CancelSpec.v (`natural`, `named`, `allowedb`).
   Everything below except the "exactly one reply" clause (which is C01's and carries C01's guard:
   working transport, no `exit`, F18 class excluded) holds for EVERY configuration and EVERY event
   list - no guard, no distinctness hypothesis.  Ids are compared as `id` values: `IInt 1` and
   `IStr "1"` are different keys (json_type_matters). *)
From Coq Require Import ZArith NArith List Bool.
From Pygls Require Import Base.Assoc Model.Endpoint Spec.EndpointSpec Spec.CancelSpec
  Proofs.EndpointInv Proofs.EndpointLax Proofs.EndpointFuts Proofs.C01Proofs Proofs.C08Proofs.
Import ListNotations.

Definition in_flight_task (s : st) (j : id) (t : nat) (tk : task) : Prop :=
  exit s = None /\ shutdown s = false /\
  Assoc.get id_eqb j (futs s) = Some (FTask t) /\ nth_error (tasks s) t = Some tk.
Definition in_flight_job (s : st) (j : id) (k : nat) (jb : job) : Prop :=
  exit s = None /\ shutdown s = false /\
  Assoc.get id_eqb j (futs s) = Some (FJob k) /\ nth_error (jobs s) k = Some jb.

Definition C08_statement : Prop :=
  (* (i) frame: in every reachable state a cancel naming j leaves every task and job whose callback
         is not the one of request j, every other table entry, the handler log and the shutdown flag
         as they are, and writes only frames about j *)
  (forall c evs tag j, framed j (run c evs) (step c (run c evs) (cancel_ev tag j))) /\
  (* (ii) cancel of an id that is not in flight (unknown, finished, already cancelled, other JSON
          type) is the identity; a second cancel of the same id is the identity *)
  (forall c evs tag j, Assoc.get id_eqb j (futs (run c evs)) = None ->
     step c (run c evs) (cancel_ev tag j) = run c evs) /\
  (forall c evs tag tag' j, exit (run c evs) = None -> shutdown (run c evs) = false ->
     step c (step c (run c evs) (cancel_ev tag j)) (cancel_ev tag' j) = step c (run c evs) (cancel_ev tag j)) /\
  (* (iii) not started: never starts, whatever comes next; ends as the -32800 callback *)
  (forall c evs tag j t tk n mc evs2, in_flight_task (run c evs) j t tk -> t_st tk = TLive false n mc ->
     exists tk', nth_error (tasks (fold_left (step c) evs2 (step c (run c evs) (cancel_ev tag j)))) t = Some tk' /\
                 same_task tk tk' /\ doomed (t_st tk')) /\
  (forall c evs tag j k jb evs2, in_flight_job (run c evs) j k jb -> j_st jb = JQueued ->
     let s1 := step c (run c evs) (cancel_ev tag j) in
     s1 = request_callback c Loop j RCancelled (set_job_st k JCancelled (fut_pop j (run c evs))) /\
     hlog s1 = hlog (run c evs) /\
     exists jb', nth_error (jobs (fold_left (step c) evs2 s1)) k = Some jb' /\ same_job jb jb' /\ j_st jb' = JCancelled) /\
  (* (iv) suspended and propagating: cancelled at its next step; completed first: untouched *)
  (forall c evs tag j t tk n mc, in_flight_task (run c evs) j t tk -> t_st tk = TLive true n mc ->
     breact (t_b tk) = Propagate ->
     let s1 := step c (run c evs) (cancel_ev tag j) in
     let s2 := step c s1 (TaskStep t) in
     nth_error (tasks s2) t = Some (mkT (t_who tk) (t_part tk) (t_cb tk) (t_b tk) (TDoneCb RCancelled)) /\
     hlog s2 = hlog (run c evs) ++ [mkH (t_who tk) (t_part tk) HCancel Loop]) /\
  (forall c evs tag j t tk r, in_flight_task (run c evs) j t tk -> t_st tk = TDoneCb r ->
     step c (run c evs) (cancel_ev tag j) = fut_pop j (run c evs)) /\
  (* (v) content: every reply is the natural reply of a request with that id, or -32800 for a
         coroutine / thread request that a cancel names with the same id (or after a shutdown);
         a result is the value the request's own handler returned *)
  (forall c evs i p, In (OResp i p) (out (run c evs)) -> allowedb evs i p = true) /\
  (forall c evs i z, In (OResp i (PResult (VInt z))) (out (run c evs)) ->
     exists v ps m b, In (Recv (FReq v i ps m)) evs /\ ps = POk /\ handler_of m = Some b /\ bout b = ORet z) /\
  (* (vi) never doubled (no guard); never lost (C01's guard) *)
  (forall c evs, NoDup (req_ids evs) -> forall i, replies i (out (run c evs)) <= 1) /\
  (forall c evs, handler_codes_int32 evs = true (* the model's domain, see Props/C01.v *) ->
     guard c evs = true -> quiescent (run c evs) = true ->
     forall i, replies i (out (run c evs)) = count_id i (expected evs)).

Theorem C08 : C08_statement.
Proof.
  unfold C08_statement.
  split; [|split; [|split; [|split; [|split; [|split; [|split; [|split; [|split; [|split]]]]]]]]].
  - intros c evs tag j. apply cancel_frame. apply fw_run.
  - intros c evs tag j G. apply cancel_noop. exact G.
  - intros c evs tag tag' j E SD. apply (cancel_twice c (run c evs) tag tag' j (fw_run c evs) E SD).
  - intros c evs tag j t tk n mc evs2 (E & SD & G & N) T.
    apply (cancel_before_start_never_runs c (run c evs) tag j t tk n mc evs2 (fw_run c evs) E SD G N T).
  - intros c evs tag j k jb evs2 (E & SD & G & N) JS.
    apply (cancel_queued_job c (run c evs) tag j k jb evs2 (fw_run c evs) E SD G N JS).
  - intros c evs tag j t tk n mc (E & SD & G & N) T P.
    destruct (cancel_suspended c (run c evs) tag j t tk n mc (fw_run c evs) E SD G N T P) as (_ & A & B).
    split; assumption.
  - intros c evs tag j t tk r (E & SD & G & N) T.
    apply (cancel_after_completion c (run c evs) tag j t tk r (fw_run c evs) E SD G N T).
  - intros c evs i p. apply reply_is_allowed.
  - intros c evs i z. apply result_is_own_value.
  - intros c evs ND i. apply at_most_one_reply_all. exact ND.
  - intros c evs _ G Q i. apply exactly_one_at_quiescence; assumption.
Qed.
Print Assumptions C08.

(* the reference used by the correspondence run is the relation clause (v) speaks of *)
Theorem C08_reference_agrees : forall evs i p,
  allowedb evs i p = true <->
  exists v ps m, In (Recv (FReq v i ps m)) evs /\
    (p = natural ps m \/ (p = PError code_cancelled /\ ps = POk /\ cancellable m = true /\ named i evs = true)).
Proof. intros. apply allowedb_spec. Qed.
Print Assumptions C08_reference_agrees.

(* Non-vacuity: three concurrent requests - an async one cancelled before its first step, a thread
   one cancelled while queued, an async one whose cancel names the right digits with the wrong JSON
   type ("1" instead of 1) and therefore completes normally *)
Definition ex8_cfg : cfg := mkCfg WBlocking HookDefault None.
Definition ex8_evs : list ev :=
  [Recv (FReq true (IInt 0) POk (RUser (mkB (HAsync 1) (ORet 7) Propagate)));
   Recv (FReq true (IStr []) POk (RUser (mkB (HThread false) (ORet 8) Propagate)));
   Recv (FReq true (IInt 1) POk (RUser (mkB (HAsync 1) (ORet 9) Propagate)));
   Recv (FNotif true 1 POk (NCancel (IInt 0)));
   Recv (FNotif true 2 POk (NCancel (IStr [])));
   Recv (FNotif true 3 POk (NCancel (IStr [49%N])));
   Recv (FNotif true 4 POk (NCancel (IInt 0)));
   TaskStep 0; TaskStep 1; JobStart 0; TaskStep 1; LoopCb 0; LoopCb 1].

Example C08_nonvacuous :
  guard ex8_cfg ex8_evs = true /\ NoDup (req_ids ex8_evs) /\ quiescent (run ex8_cfg ex8_evs) = true /\
  filter (fun f => match f with OResp _ _ => true | _ => false end) (out (run ex8_cfg ex8_evs)) =
    [OResp (IStr []) (PError code_cancelled); OResp (IInt 0) (PError code_cancelled); OResp (IInt 1) (PResult (VInt 9))] /\
  hlog (run ex8_cfg ex8_evs) =
    [mkH (WReq (IInt 1)) PUser HStart Loop; mkH (WReq (IInt 1)) PUser HEnd Loop] /\
  futs (run ex8_cfg ex8_evs) = [].
Proof.
  vm_compute. repeat split. repeat (constructor; [cbn; intuition discriminate|]). constructor.
Qed.
