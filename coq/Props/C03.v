(* C03 - Outbound bytes are whole, byte-accurate, uninterleaved frames.
   Model: Model/Wire.v (+ Base/Json.v) after pygls/protocol/json_rpc.py (_send_data in its target
   state: serialisation try / write try, _send_response, notify, send_request) and pygls/io_.py
   (StdoutWriter.write).  Reference: Spec/WireSpec.v (strict base-protocol decoder, JSON reader,
   interleavings).  Open finding: F-C03-streamwriter-from-pool-thread (below; runtime only).
   Assumed, not proved (DESIGN section 2): one write call on the transport is atomic. *)
From Coq Require Import ZArith NArith List Bool Permutation.
From Pygls Require Import Base.Unicode Base.PyStr Base.Json Model.Wire Spec.WireSpec
  Proofs.JsonProofs Proofs.WireProofs.
Open Scope N_scope.

Definition C03_statement : Prop :=
  (* (i) one message: the body is ASCII, so its character count (what the header carries) is its
     byte count; exactly ONE writer.write call is made, with bytes that the strict decoder reads as
     exactly one frame holding that body *)
  (forall c j, framed c = true ->
     Forall (fun b => b < 128) (dumps j) /\
     len (dumps j) = len (utf8_enc_all (dumps j)) /\
     send_data c (Tree true j) = ([Write (frame (dumps j))], RetNone) /\
     frame (dumps j) = utf8_enc_all (header (len (utf8_enc_all (dumps j))) ++ dumps j) /\
     spec_decode (frame (dumps j)) = Some [utf8_enc_all (dumps j)]) /\
  (* every public sending call: one whole frame per message it emits, nothing else.
     The tree written is the one THIS protocol instance's own serialiser (its converter, through
     _serialize_message) yields for the message: `send` carries that tree, and nothing in the model is
     shared between protocol instances - no encoder, converter or rendering cached on the class.  The
     correspondence run checks exactly this with several instances in one process whose converters
     render the same payload classes differently, in both sending orders (case kind "multi").
     Clause (v) below is about BLOCKING transports, and is observed for every way pygls itself installs
     one (start_io -> run_async, the synchronous / WASM entry, pygls.io_.run); for the non-blocking
     writers pygls installs (the StreamWriter of start_tcp, the child's stdin pipe of
     JsonRPCClient.start_io) what is promised and observed is weaker: a frame handed over on the loop
     thread goes out whole, in order, without needing further traffic to push it. *)
  (forall c s, framed c = true -> do_send c s = map wr (sent_trees s)) /\
  (* (ii) frames self-delimit whatever the bodies contain; so for every list of sending calls the
     decoder returns exactly the bodies, in order *)
  (forall bodies, spec_decode (concat (map frame bodies)) = Some bodies) /\
  (forall c ss, framed c = true ->
     spec_decode (stream (sender_ops c ss)) = Some (map dumps (flat_map sent_trees ss))) /\
  (* (iii) the decoder recovers THE MESSAGE: strings survive escaping, whole values survive dumps *)
  (forall s, str_ok s = true -> unescape (escape s) = Some s) /\
  (forall j, json_wf j = true -> loads_chars (dumps j) = Some j) /\
  (* (iv) any number of senders, any interleaving of their atomic transport operations: the stream
     is a concatenation of whole frames, in a merge order that keeps every sender's own order *)
  (forall c sss ops, framed c = true -> interleave (map (sender_ops c) sss) ops ->
     exists order, interleave (map (flat_map sent_trees) sss) order /\
       stream ops = concat (map frame (map dumps order)) /\
       spec_decode (stream ops) = Some (map dumps order)) /\
  (* (v) blocking writer: the operations of one send are write, flush per frame, and when the call
     returns nothing of what was written so far is left in the buffer *)
  (forall c s, framed c = true -> writer c = WStdout ->
     send_ops c s = flat_map (fun j => [TWrite (frame (dumps j)); TFlush]) (sent_trees s) /\
     (sent_trees s <> [] -> forall before,
        transport (before ++ send_ops c s) = (stream (before ++ send_ops c s), []))) /\
  (* (v) holds in EVERY calling context - directly, inside a synchronous handler under the read loop,
     in a coroutine handler after an await, on a pool thread while the loop thread is inside another
     handler, for the loop's own reply: the statement forbids context-dependent buffering, and in
     the model the operations of a send simply do not depend on the context.  A send ends with the
     write of its frame and a flush, and after that flush, whatever else any thread did to the
     transport before it, the buffer is empty and the frame is on the pipe.  (The correspondence run
     observes the sends in these contexts under the real run_async / run.) *)
  (forall x y c s, send_ops_in x c s = send_ops_in y c s) /\
  (forall x c s, framed c = true -> writer c = WStdout -> sent_trees s <> [] ->
     exists pre d, send_ops_in x c s = pre ++ [TWrite d; TFlush] /\
       forall hist, In (TWrite d) hist ->
         snd (transport (hist ++ [TFlush])) = [] /\
         exists h1 h2, fst (transport (hist ++ [TFlush])) = stream h1 ++ d ++ stream h2) /\
  (* (vi) the transport may be installed late and replaced.  EVERY sequence of set_writer calls and
     sends is `unseg ss0 segs` (seg/unseg, C03_sessions_covered).  Writer object number i receives
     exactly what the configuration given to ITS set_writer call produces for the sends made while it
     was installed, in order; the sends made before any transport existed (ss0) are written nowhere,
     now or later.  So nothing rendered in one framing mode is ever written in another: with headers
     on a writer's bytes are whole frames decoding to those messages; with headers off (not the LSP
     base protocol: the test / websocket mode) every write call carries exactly one whole JSON body. *)
  (forall ss0 segs i w h ss, nth_error segs i = Some (w, h, ss) ->
     for_writer i (p_run p_init (unseg ss0 segs)) =
     sender_ops {| writer := w; include_headers := h |} ss) /\
  (forall ss0 segs i w ss, nth_error segs i = Some (w, true, ss) -> w <> WNone ->
     spec_decode (stream (for_writer i (p_run p_init (unseg ss0 segs)))) =
     Some (map dumps (flat_map sent_trees ss))) /\
  (forall ss0 segs i w ss, nth_error segs i = Some (w, false, ss) -> w <> WNone ->
     flat_map op_chunk (for_writer i (p_run p_init (unseg ss0 segs))) =
     map dumps (flat_map sent_trees ss)).

Theorem C03 : C03_statement.
Proof.
  unfold C03_statement.
  split; [|split; [|split; [|split; [|split; [|split; [|split; [|split; [|split; [|split; [|split; [|split]]]]]]]]]]].
  - intros c j H. split; [apply dumps_ascii|]. split; [apply header_len_is_byte_len|].
    split; [apply send_data_tree; exact H|].
    rewrite (ascii_utf8 (dumps j)) by apply dumps_ascii. split.
    + symmetry. apply ascii_utf8, frame_ascii.
    + pose proof (spec_decode_frames [dumps j]) as E. cbn [map concat] in E.
      rewrite app_nil_r in E. exact E.
  - intros c s. apply do_send_frames.
  - apply spec_decode_frames.
  - intros c ss. apply sender_stream_decodes.
  - intros s H. apply andb_true_iff in H. destruct H. apply escape_roundtrip; assumption.
  - apply loads_dumps.
  - intros c sss ops. apply merge_of_atomic_writes.
  - intros c s H Hw. apply flush_last; assumption.
  - intros x y c s. apply send_ops_context_free.
  - intros x c s. apply flushed_when_send_returns.
  - apply session_per_writer.
  - apply session_writer_frames.
  - apply session_writer_bare.
Qed.
Print Assumptions C03.

(* The executable reference used by the correspondence run: for guarded sending calls (ids int or
   str, strings JSON can carry, no raw _send_data) the decoder returns one body per message the
   JSON-RPC spec asks for (`expected`), each body reading back as that message up to member order. *)
Theorem C03_reference_agrees c ss : framed c = true -> forallb send_guard ss = true ->
  exists bodies, spec_decode (stream (sender_ops c ss)) = Some bodies /\
    Forall2 (fun b e => exists j, loads_chars b = Some j /\ matches j e) bodies (flat_map expected ss).
Proof. apply sender_reads_back. Qed.
Print Assumptions C03_reference_agrees.

(* the schedules the correspondence run executes are interleavings in the sense of clause (iv) *)
Theorem C03_schedules_covered : forall (A : Type) sched (qs : list (list A)),
  interleave qs (run_schedule sched qs).
Proof. intros A sched qs. apply run_schedule_interleave. Qed.

(* FINDING F-C03-streamwriter-from-pool-thread (runtime, observed by the TCP stress run, a race).
   Clause (iv) is about ATOMIC transport operations; that is an assumption on the transport
   (DESIGN section 2), true for BufferedWriter.write, not for an asyncio StreamWriter written to from a
   pool thread.  The assumption is necessary: if one write may reach the transport as two operations
   (what a partial socket send followed by buffering the remainder amounts to), two senders of whole
   frames can produce a stream the strict decoder rejects. *)
Definition split_write (k : N) (d : list N) : list top := [TWrite (take k d); TWrite (drop k d)].
Theorem C03_refuted_nonatomic_write :
  exists ops, interleave [split_write 30 (frame (dumps (JInt 1))); split_write 30 (frame (dumps (JInt 2)))] ops /\
    spec_decode (stream ops) = None.
Proof.
  exists (run_schedule [0; 1; 0; 1]%nat
            [split_write 30 (frame (dumps (JInt 1))); split_write 30 (frame (dumps (JInt 2)))]).
  split; [apply run_schedule_interleave|vm_compute; reflexivity].
Qed.

(* clause (vi) speaks of every session *)
Theorem C03_sessions_covered : forall (ops : list (sop wkind)),
  unseg (fst (seg ops)) (snd (seg ops)) = ops.
Proof. intros ops. apply unseg_seg. Qed.

(* non-vacuity of (vi): a send before any transport, headers on, then the writer replaced, headers off *)
Example C03_session_example :
  let ops := [OSend (SNotify [108] (Some (JStr [233])));
              OSetWriter WStdout true; OSend (SResponse (JInt 1) (Some JNull));
              OSetWriter WPlain false; OSend (SNotify [110] (Some (JInt 2)))] in
  let out := p_run p_init ops in
  seg ops = ([SNotify [108] (Some (JStr [233]))],
             [(WStdout, true, [SResponse (JInt 1) (Some JNull)]); (WPlain, false, [SNotify [110] (Some (JInt 2))])]) /\
  spec_decode (stream (for_writer 0 out)) = Some [dumps (response_tree (JInt 1) JNull)] /\
  for_writer 1 out = [TWrite (dumps (notification_tree [110] (JInt 2)))] /\
  length out = 3%nat.
Proof. vm_compute. repeat split. Qed.

(* The hypothesis of (iii) is necessary, and is about JSON, not about pygls: a high surrogate
   followed by a low one IS the astral character in \u notation. *)
Theorem C03_pairfree_necessary : unescape (escape [0xD800; 0xDC00]) = Some [0x10000].
Proof. exact escape_roundtrip_needs_pairfree. Qed.
(* ... and every well-formed Unicode text satisfies it *)
Theorem C03_scalar_strings_ok s : forallb scalar s = true -> str_ok s = true.
Proof.
  intros H. unfold str_ok. rewrite (scalar_pairfree s H), andb_true_r.
  apply forallb_forall. intros x Hx. rewrite forallb_forall in H. specialize (H x Hx).
  unfold scalar in H. apply andb_true_iff in H. tauto.
Qed.

(* Non-vacuity: a framed configuration, two concurrent senders, non-ASCII payloads, a schedule
   that alternates between them; the hypotheses hold and the conclusion is computed. *)
Definition ex_cfg := {| writer := WStdout; include_headers := true |}.
Definition ex_senders : list (list send) :=
  [[SNotify [109] (Some (JStr [233; 0x1F60B; 0xD800; 34; 92; 10; 127]));
    SResponse (JInt 1) (Some (JArr [JNull; JBool true; JInt (-12)]))];
   [SResponse (JStr [97]) None; SRequest (JInt 7) [114] (Some JNull)]].
Example C03_nonvacuous :
  framed ex_cfg = true /\ forallb (forallb send_guard) ex_senders = true /\
  let ops := run_schedule [0; 1; 1; 0; 1; 0]%nat (map (sender_ops ex_cfg) ex_senders) in
  interleave (map (sender_ops ex_cfg) ex_senders) ops /\
  length ops = 8%nat /\
  option_map (@length _) (spec_decode (stream ops)) = Some 4%nat /\
  option_map (map loads_chars) (spec_decode (stream ops)) =
    Some (map Some [notification_tree [109] (JStr [233; 0x1F60B; 0xD800; 34; 92; 10; 127]);
                    error_response_tree (JStr [97]) internal_error;
                    request_tree (JInt 7) [114] JNull;
                    response_tree (JInt 1) (JArr [JNull; JBool true; JInt (-12)])]).
Proof.
  split; [reflexivity|]. split; [reflexivity|]. split; [apply run_schedule_interleave|].
  vm_compute. repeat split.
Qed.

(* ---------- LINK to the endpoint model (Proofs/LinkWireEndpoint.v) ----------
   The framing clauses above hold along EVERY schedule of the endpoint model that C01 / C08 / C09 /
   C16 reason about (Model/Endpoint.v: `out` = the frames handed to the writer under an arbitrary
   event list).  For every rendering of the abstract payloads as JSON values, every configuration
   (blocking or awaitable writer, any error hook) and every event list:
   - the bytes of the run are exactly what the wire model's _send_data / StdoutWriter write for the
     sending calls that correspond to `out` (one write of header+body and one flush per frame), and
     the strict decoder returns exactly the bodies of `out`, in order (clauses (i), (ii), (v));
   - with the awaitable writer `out` is the list of frames whose WriteStep happened: any other event
     leaves the stream unchanged, a WriteStep appends one whole frame (LinkWireEndpoint.link_awaitable);
   - with a writer failing from its k-th write on, the stream is a prefix of the working run's stream
     cut at a frame boundary: whole frames only, decoding to the first k bodies. *)
From Pygls Require Model.Endpoint Proofs.C15Endpoint Proofs.LinkWireEndpoint.
Theorem C03_along_endpoint_schedules :
  forall render_val err_message err_data notif_method notif_params req_method req_params,
  let rd := LinkWireEndpoint.render render_val err_message err_data notif_method notif_params req_method req_params in
  let snd_of := LinkWireEndpoint.to_send render_val err_message err_data notif_method notif_params req_method req_params in
  let bytes := LinkWireEndpoint.stream_of render_val err_message err_data notif_method notif_params req_method req_params in
  forall (c : Endpoint.cfg) (evs : list Endpoint.ev),
    let s := Endpoint.run c evs in
    bytes s = stream (sender_ops LinkWireEndpoint.wire_cfg (map snd_of (Endpoint.out s))) /\
    spec_decode (bytes s) = Some (map (fun f => dumps (rd f)) (Endpoint.out s)) /\
    (Endpoint.c_wfail c = None -> forall k,
       let a := Endpoint.run (C15Endpoint.failing_from c k) evs in
       (exists rest, bytes s = bytes a ++ rest) /\
       spec_decode (bytes a) = Some (firstn k (map (fun f => dumps (rd f)) (Endpoint.out s)))).
Proof.
  intros rv em ed nm np rm rp rd snd_of bytes c evs s. split; [|split].
  - apply LinkWireEndpoint.link_stream_is_wire_model.
  - apply LinkWireEndpoint.stream_of_decodes.
  - intros WF k a.
    destruct (LinkWireEndpoint.link_failing_writer rv em ed nm np rm rp c k evs WF) as (_ & (rest & E & _) & D).
    split; [exists rest; exact E|exact D].
Qed.
Print Assumptions C03_along_endpoint_schedules.
