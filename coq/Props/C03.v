(* C03 - Outbound bytes are whole, byte-accurate, uninterleaved frames.
   Model: Model/Wire.v (+ Base/Json.v) after pygls/protocol/json_rpc.py (_send_data in its target
   state: serialisation try / write try, _send_response, notify, send_request) and pygls/io_.py
   (StdoutWriter.write).  Reference: Spec/WireSpec.v (strict base-protocol decoder, JSON reader,
   interleavings).  No open finding for this property at this commit.
   Assumed, not proved (DESIGN section 2): one write call on the transport is atomic. *)
From Coq Require Import ZArith NArith List Bool Permutation.
From Pygls Require Import Base.Unicode Base.Json Model.Wire Spec.WireSpec
  Proofs.JsonProofs Proofs.WireProofs.
Open Scope N_scope.

Definition C03_statement : Prop :=
  (* (i) one message: the body is ASCII, so its character count (what the header carries) is its
     byte count; exactly ONE writer.write call is made, with bytes that the strict decoder reads as
     exactly one frame holding that body *)
  (forall c j, framed c = true ->
     Forall (fun b => b < 128) (dumps j) /\
     len (dumps j) = len (utf8_enc_all (dumps j)) /\
     send_data c (Tree true j) = ([Write (frame (dumps j))], RetNone) /\
     frame (dumps j) = utf8_enc_all (header (len (utf8_enc_all (dumps j))) ++ dumps j) /\
     spec_decode (frame (dumps j)) = Some [utf8_enc_all (dumps j)]) /\
  (* every public sending call: one whole frame per message it emits, nothing else *)
  (forall c s, framed c = true -> do_send c s = map wr (sent_trees s)) /\
  (* (ii) frames self-delimit whatever the bodies contain; so for every list of sending calls the
     decoder returns exactly the bodies, in order *)
  (forall bodies, spec_decode (concat (map frame bodies)) = Some bodies) /\
  (forall c ss, framed c = true ->
     spec_decode (stream (sender_ops c ss)) = Some (map dumps (flat_map sent_trees ss))) /\
  (* (iii) the decoder recovers THE MESSAGE: strings survive escaping, whole values survive dumps *)
  (forall s, str_ok s = true -> unescape (escape s) = Some s) /\
  (forall j, json_wf j = true -> loads_chars (dumps j) = Some j) /\
  (* (iv) any number of senders, any interleaving of their atomic transport operations: the stream
     is a concatenation of whole frames, in a merge order that keeps every sender's own order *)
  (forall c sss ops, framed c = true -> interleave (map (sender_ops c) sss) ops ->
     exists order, interleave (map (flat_map sent_trees) sss) order /\
       stream ops = concat (map frame (map dumps order)) /\
       spec_decode (stream ops) = Some (map dumps order)) /\
  (* (v) blocking writer: the operations of one send are write, flush per frame, and when the call
     returns nothing of what was written so far is left in the buffer *)
  (forall c s, framed c = true -> writer c = WStdout ->
     send_ops c s = flat_map (fun j => [TWrite (frame (dumps j)); TFlush]) (sent_trees s) /\
     (sent_trees s <> [] -> forall before,
        transport (before ++ send_ops c s) = (stream (before ++ send_ops c s), []))).

Theorem C03 : C03_statement.
Proof.
  unfold C03_statement. repeat split.
  - apply dumps_ascii.
  - apply header_len_is_byte_len.
  - apply send_data_tree. assumption.
  - rewrite (ascii_utf8 (dumps j)) by apply dumps_ascii. symmetry. apply ascii_utf8, frame_ascii.
  - rewrite (ascii_utf8 (dumps j)) by apply dumps_ascii.
    pose proof (spec_decode_frames [dumps j]) as E. cbn [map concat] in E. rewrite app_nil_r in E. exact E.
  - intros c s. apply do_send_frames.
  - apply spec_decode_frames.
  - intros c ss. apply sender_stream_decodes.
  - intros s H. apply andb_true_iff in H. destruct H. apply escape_roundtrip; assumption.
  - apply loads_dumps.
  - intros c sss ops. apply merge_of_atomic_writes.
  - apply flush_last; assumption.
  - apply flush_last; assumption.
Qed.
Print Assumptions C03.

(* The executable reference used by the correspondence run: for guarded sending calls (ids int or
   str, strings JSON can carry, no raw _send_data) the decoder returns one body per message the
   JSON-RPC spec asks for (`expected`), each body reading back as that message up to member order. *)
Theorem C03_reference_agrees c ss : framed c = true -> forallb send_guard ss = true ->
  exists bodies, spec_decode (stream (sender_ops c ss)) = Some bodies /\
    Forall2 (fun b e => exists j, loads_chars b = Some j /\ matches j e) bodies (flat_map expected ss).
Proof. apply sender_reads_back. Qed.
Print Assumptions C03_reference_agrees.

(* the schedules the correspondence run executes are interleavings in the sense of clause (iv) *)
Theorem C03_schedules_covered : forall (A : Type) sched (qs : list (list A)),
  interleave qs (run_schedule sched qs).
Proof. intros A sched qs. apply run_schedule_interleave. Qed.

(* The hypothesis of (iii) is necessary, and is about JSON, not about pygls: a high surrogate
   followed by a low one IS the astral character in \u notation. *)
Theorem C03_pairfree_necessary : unescape (escape [0xD800; 0xDC00]) = Some [0x10000].
Proof. exact escape_roundtrip_needs_pairfree. Qed.
(* ... and every well-formed Unicode text satisfies it *)
Theorem C03_scalar_strings_ok s : forallb scalar s = true -> str_ok s = true.
Proof.
  intros H. unfold str_ok. rewrite (scalar_pairfree s H), andb_true_r.
  apply forallb_forall. intros x Hx. rewrite forallb_forall in H. specialize (H x Hx).
  unfold scalar in H. apply andb_true_iff in H. tauto.
Qed.

(* Non-vacuity: a framed configuration, two concurrent senders, non-ASCII payloads, a schedule
   that alternates between them; the hypotheses hold and the conclusion is computed. *)
Definition ex_cfg := {| writer := WStdout; include_headers := true |}.
Definition ex_senders : list (list send) :=
  [[SNotify [109] (Some (JStr [233; 0x1F60B; 0xD800; 34; 92; 10; 127]));
    SResponse (JInt 1) (Some (JArr [JNull; JBool true; JInt (-12)]))];
   [SResponse (JStr [97]) None; SRequest (JInt 7) [114] (Some JNull)]].
Example C03_nonvacuous :
  framed ex_cfg = true /\ forallb (forallb send_guard) ex_senders = true /\
  let ops := run_schedule [0; 1; 1; 0; 1; 0]%nat (map (sender_ops ex_cfg) ex_senders) in
  interleave (map (sender_ops ex_cfg) ex_senders) ops /\
  length ops = 8%nat /\
  option_map (@length _) (spec_decode (stream ops)) = Some 4%nat /\
  option_map (map loads_chars) (spec_decode (stream ops)) =
    Some (map Some [notification_tree [109] (JStr [233; 0x1F60B; 0xD800; 34; 92; 10; 127]);
                    error_response_tree (JStr [97]) internal_error;
                    request_tree (JInt 7) [114] JNull;
                    response_tree (JInt 1) (JArr [JNull; JBool true; JInt (-12)])]).
Proof.
  split; [reflexivity|]. split; [reflexivity|]. split; [apply run_schedule_interleave|].
  vm_compute. repeat split.
Qed.
