(* C14 - Built-in first, then the user handler, once each, on the promised thread.
   "Each incoming message is delivered exactly once to the handlers registered for its method: the
    built-in handler first, then the user handler for the same method, which therefore sees the
    workspace already updated; a failing user handler neither prevents nor undoes the built-in
    effect, and a message for a method with no handler invokes nothing.  Plain and coroutine
    handlers run on the event-loop thread, @thread handlers on a pool thread, and the server
    instance is injected exactly when the first parameter asks for it - for features and commands
    alike and in either decorator order."

   Models: Model/Features.v (the decorators, wrap_with_server, _get_handler: C19's model) and
   Model/Dispatch.v (handle_message -> _handle_request / _handle_notification -> built-in body ->
   call_user_feature's tail -> _execute_request / _execute_notification; loop tasks and pool items
   as separate events).  `run c evs` is the state after ANY list of events (a schedule: message
   arrivals interleaved with task steps, done-callbacks, pool starts / finishes; an event that is
   not enabled is a no-op), for ANY registry, any set of raising user functions.

   Open finding (F31): a function that asks for the server by ANNOTATION only is not given it when
   typing.get_type_hints fails on the function (another annotation cannot be resolved, or the
   callable is a functools.partial / an instance with __call__): C14_refuted_unresolvable_hints;
   "injected exactly when asked" is proved under the executable guard sig_ok, and "injected iff named
   `ls` or (hints computable and the hint is the server's class)" for every signature.
   Open finding (F30): when the BUILT-IN raises (didChange for a document that is not open, a
   workspace built-in before initialize, executeCommand for an unknown or synchronously raising
   command) the user's feature of that method is skipped.  The literal clause "every registered
   handler gets the message" is therefore refuted (C14_refuted) and proved under the executable
   guard Spec.all_ok (no delivered built-in raises while a user feature is registered for its method); every other clause holds without a guard. *)
From Coq Require Import ZArith NArith List Bool.
From Pygls Require Import Base.Assoc Model.Features Spec.FeaturesSpec Proofs.FeaturesProofs.
From Pygls Require Import Model.Dispatch Spec.DispatchSpec Proofs.C14Proofs.
Import ListNotations.

(* ------------------------------------------------------------------ registration shapes *)
(* general: for EVERY registry, name, options and fresh function, an accepted decorated definition
   registers a callable that reaches that function, on the pool iff a thread decorator was used
   (above or below), as a loop task iff it is a coroutine function, with the server injected iff
   the first parameter asks for it (named `ls` or annotated with the server's class) *)
Definition shapes_statement : Prop :=
  (forall r a, fresh (a_fn a) = true -> accepted (attempt_trace r a) = true ->
     exists e, aget (a_name a) (reg_table (a_kind a) (last_reg r (attempt_trace r a))) = Some e /\
               e_fid e = f_id (a_fn a) /\ e_inject e = asks_server (f_params (a_fn a)) /\
               (exec_site e = Pool <-> a_thr a <> TNone) /\ (exec_site e = LoopTask <-> f_async (a_fn a) = true)) /\
  (* ... and it stays that entry whatever fresh functions are decorated afterwards: in the registry of
     a whole case (any definitions before, any after) the callable found under the name of an
     accepted definition has exactly the promised site and injection *)
  (forall l1 a l2, fresh (a_fn a) = true -> Forall (fun b => fresh (a_fn b) = true /\ f_id (a_fn b) <> f_id (a_fn a)) l2 ->
     accepted (attempt_trace (registry_of l1) a) = true ->
     exists e, aget (a_name a) (reg_table (a_kind a) (registry_of (l1 ++ a :: l2))) = Some e /\
               e_fid e = f_id (a_fn a) /\ e_inject e = asks_server (f_params (a_fn a)) /\
               (exec_site e = Pool <-> a_thr a <> TNone) /\ (exec_site e = LoopTask <-> f_async (a_fn a) = true)) /\
  (* EVERY signature (Model.Dispatch.gsig: first parameter x whether typing.get_type_hints succeeds on
     the callable - def, async def, partial, callable object, bound method, lambda; any further
     parameters and annotations): the code's decision is `ls` by name, or hints computable and the
     first parameter's hint the server's class; it never injects unasked; it injects exactly when
     asked inside sig_ok; and the registered callable of such a function, anywhere in a case, binds
     the server iff that decision says so *)
  (forall g, has_ls_param_or_annotation (see g) = has_ls_g g /\
             has_ls_g g = first_is_ls (g_first g) || (g_hints g && first_annot_server (g_first g)) /\
             (has_ls_g g = true -> asks_server (g_first g) = true) /\
             (sig_ok g = true -> has_ls_g g = asks_server (g_first g))) /\
  (forall l1 a l2 g, f_params (a_fn a) = see g -> fresh (a_fn a) = true ->
     Forall (fun b => fresh (a_fn b) = true /\ f_id (a_fn b) <> f_id (a_fn a)) l2 -> accepted (attempt_trace (registry_of l1) a) = true ->
     exists e, aget (a_name a) (reg_table (a_kind a) (registry_of (l1 ++ a :: l2))) = Some e /\
               e_fid e = f_id (a_fn a) /\ e_inject e = has_ls_g g /\
               (exec_site e = Pool <-> a_thr a <> TNone) /\ (exec_site e = LoopTask <-> f_async (a_fn a) = true)) /\
  (* thread() lands on exactly the registration it decorates - kind AND name: the callables of every
     other function object stay as they are in BOTH tables, also under the same name in the other
     table (features and commands are separate name spaces) *)
  (forall r f r' f' res k n e, Features.step r (OpThread f) = (r', f', res) ->
     (forall t m e0, f_reg f = Some (t, m) -> aget m (reg_table t r) = Some e0 -> e_fid e0 = f_id f) ->
     e_fid e <> f_id f -> aget n (reg_table k r) = Some e -> aget n (reg_table k r') = Some e) /\
  (* the whole product {feature, command} x {sync, async} x {none, above, below} x 7 first-parameter
     shapes, evaluated: thread + coroutine is the only refused shape *)
  (length shape_attempts = 84%nat /\ forallb shape_site_ok shape_attempts = true /\
   forallb shape_inject_ok shape_attempts = true).

Theorem C14_shapes : shapes_statement.
Proof.
  split; [exact shape_general|]. split; [exact shapes_in_context|].
  split; [intro g; split; [apply see_faithful|split; [apply inject_decision|split;
          [apply inject_only_if_asked_g|apply inject_iff_asked_g]]]|].
  split; [exact shapes_in_context_g|]. split; [exact thread_keeps|]. destruct site_iff_thread_product as [A B].
  split; [exact A|]. split; [exact B|exact inject_iff_asked_product].
Qed.

(* a feature and a command under the SAME name "x", every combination of thread decorators and both
   orders of definition: each registered callable has the site of its own decoration *)
Definition pair_attempts (t1 t2 : thr) (swap : bool) : list attempt :=
  let a := mkattempt RFeature (Some [120]) ONone (mkfunc 1 false (First false ANone) false None) t1 in
  let b := mkattempt RCommand (Some [120]) ONone (mkfunc 2 false (First true ANone) false None) t2 in
  if swap then [b; a] else [a; b].
Definition pair_ok (t1 t2 : thr) (swap : bool) : bool :=
  let r := registry_of (pair_attempts t1 t2 swap) in
  match aget (Some [120]) (features r), aget (Some [120]) (commands r) with
  | Some e1, Some e2 =>
      (e_fid e1 =? 1)%N && (e_fid e2 =? 2)%N &&
      site_eqb (exec_site e1) (match t1 with TNone => LoopInline | _ => Pool end) &&
      site_eqb (exec_site e2) (match t2 with TNone => LoopInline | _ => Pool end)
  | _, _ => false
  end.
Example shared_name_pairs :
  forallb (fun t1 => forallb (fun t2 => pair_ok t1 t2 false && pair_ok t1 t2 true) [TNone; TAbove; TBelow])
          [TNone; TAbove; TBelow] = true.
Proof. vm_compute. reflexivity. Qed.

(* ------------------------------------------------------------------ delivery *)
(* G: the class of (configuration, message sequence) for which the literal clause (h) is claimed *)
Definition C14_gen (G : cfg -> list call -> Prop) : Prop :=
  shapes_statement /\
  forall (c : cfg) (evs : list ev),
    let s := run c evs in let ks := calls_of evs in
    (* (a) only what the reference lists runs: each log entry is, for the message it names, one of
           the invocations of `actual` - the built-in, the command, the user's feature - with that
           function, thread, server injection and arguments; and it is the callable registered
           under that name, on the pool iff its thread marker says so *)
    (forall h, In h (hlog s) ->
       (exists k w x, nth_error ks (h_msg h) = Some k /\ In x (actual c w k) /\ proj_h h = proj_x x) /\
       ((h_part h = PBuiltin /\ h_site h = OnLoop /\ h_inj h = false) \/
        exists e, registered c (h_part h) (h_meth h) = Some e /\ h_fid h = e_fid e /\
                  h_inj h = e_inject e /\ h_site h = tsite_of (exec_site e))) /\
    (* (b) built-in first: reading the log from the left, a command's or a chained user feature's
           entry finds the built-in's entry for the same message before it *)
    (forall l1 h l2, hlog s = l1 ++ h :: l2 -> needs_b (bset c) (h_part h) (h_meth h) = true -> has_b (h_msg h) l1 = true) /\
    (* (c) once: no handler body starts twice for a message; started + waiting + cancelled before
           start = owed, at every moment of every schedule *)
    (forall q, (started q s <= 1)%nat) /\
    (forall q, tot q s = owed c w0 0 ks q) /\
    (* (d) exactly once: with loop and pool idle, every handler that does not answer a request (the
           user's feature chained after a built-in, a notification handler) has started exactly as
           often as the code's plan for that message says - such handlers are never cancelled *)
    (forall n k p, nth_error ks n = Some k -> fut_part c k p = false -> quiescent s = true ->
       started (n, p) s = owes c (spec_ws c (firstn n ks)) n k (n, p)) /\
    (* (e) already updated: the entries an event appends carry the workspace of that moment - the
           built-in sees what the earlier messages left, the user's function sees the workspace
           after the event (for an inline handler: after its own built-in; a task / pool handler
           starts at its own TaskStep / JobStart event, later, and sees the workspace of then) *)
    (forall e, exists new, hlog (run c (evs ++ [e])) = hlog s ++ new /\
       Forall (fun h => h_snap h = if is_b h then spec_ws c ks else spec_ws c (calls_of (evs ++ [e]))) new /\
       match e with
       | Recv _ => Forall (fun h => h_msg h = length ks) new
       | _ => Forall (fun h => is_b h = false /\ (h_msg h < length ks)%nat) new
       end) /\
    (* (e') inside the delivery of a message exactly the inline part of the plan is appended, in the
            reference's order: [built-in; command; user's feature] restricted to what exists and runs
            inline - nothing more, nothing twice *)
    (forall k, w_shut (ws s) = false ->
       exists new, hlog (recv c k s) = hlog s ++ new /\
                   map proj_h new = map proj_x (filter x_now (actual c (ws s) k))) /\
    (* (f) the built-in effect stays: the workspace is the fold of the built-ins' transformers over
           the messages - the same for every registry and every set of raising user functions -
           and a built-in request is answered with the built-in's own result *)
    (ws s = spec_ws c ks /\ forall c', c_tokens c' = c_tokens c -> ws (run c' evs) = ws s) /\
    (forall k i, w_shut (ws s) = false -> isb c k = true -> is_exec k = false -> req_id k = Some i ->
       builtin_ok c (ws s) k = true -> out (recv c k s) = out (mid k s) ++ [OResult i (result_of k)]) /\
    (* (g) no handler: nothing is invoked, a request gets -32601; after `shutdown`: nothing at all *)
    (forall k, w_shut (ws s) = false -> has_handler c k = false ->
       recv c k s = match req_id k with
                    | Some i => add_out (OError i code_method_not_found) (set_nmsg (S (nmsg s)) s)
                    | None => set_nmsg (S (nmsg s)) s
                    end) /\
    (forall k, w_shut (ws s) = true -> recv c k s = set_nmsg (S (nmsg s)) s) /\
    (* (h) the literal promise: at quiescence every such handler registered for a delivered message
           has run exactly once (`promised` counts the part in Spec.expect) *)
    (G c ks -> forall n k p, nth_error ks n = Some k -> delivered (spec_ws c (firstn n ks)) = true ->
       fut_part c k p = false -> quiescent s = true -> started (n, p) s = promised c k p).

Definition C14_statement : Prop := C14_gen (fun _ _ => True).
Definition C14_partial_statement : Prop := C14_gen (fun c ks => all_ok c w0 ks = true).

(* clauses (a)-(g) need no guard *)
Lemma C14_core : forall G : cfg -> list call -> Prop,
    (forall c evs, G c (calls_of evs) -> forall n k p, nth_error (calls_of evs) n = Some k ->
        delivered (spec_ws c (firstn n (calls_of evs))) = true -> fut_part c k p = false ->
        quiescent (run c evs) = true -> started (n, p) (run c evs) = promised c k p) -> C14_gen G.
Proof.
  intros G HG. split; [exact C14_shapes|]. intros c evs s ks.
  destruct (builtin_then_user_once c evs) as (B1 & B2 & B3 & B4).
  split; [intros h Hh; split; [exact (entries_are_owed c evs h Hh)|exact (entries_from_registry c evs h Hh)]|].
  split; [exact (ordb_meaning (bset c) _ B1)|]. split; [exact B2|]. split; [exact B3|]. split; [exact B4|].
  split; [intro e; exact (snapshots c evs e)|].
  split; [intros k Hs; exists (new_log c s (Recv k)); split;
          [exact (proj1 (step_log c s (Recv k)))|exact (delivery_exact c k s Hs)]|].
  split; [split; [exact (proj1 (ws_run c evs))|intros c' Hc; exact (user_failure_keeps_builtin c' c evs Hc)]|].
  split; [intros k i; apply builtin_reply_kept|].
  split; [intro k; apply no_handler_nothing|]. split; [intro k; apply recv_gated|].
  intro g. exact (HG c evs g).
Qed.

Theorem C14_partial : C14_partial_statement.
Proof. apply C14_core. intros c evs g n k p. apply literal_inside_guard. exact g. Qed.
Print Assumptions C14_partial.

(* ------------------------------------------------------------------ F30: the refutation *)
Definition did_change_name : name := Some s_did_change.
Definition fn (i : N) (asy : bool) (p : fparams) : func := mkfunc i asy p false None.
(* @server.feature("textDocument/didChange") def f(params): ... *)
Definition cfg_refute : cfg :=
  mkCfg (registry_of [mkattempt RFeature did_change_name ONone (fn 1 false (First false ANone)) TNone]) [] [] [] [].
(* initialize, then a didChange (with a content change) for a document that was never opened *)
Definition evs_refute : list ev := [Recv (CInitialize 1 []); Recv (CDidChange 1 2%Z [4])].

Theorem C14_refuted_builtin_raises :
  let s := run cfg_refute evs_refute in
  nth_error (calls_of evs_refute) 1 = Some (CDidChange 1 2%Z [4]) /\
  delivered (spec_ws cfg_refute (firstn 1 (calls_of evs_refute))) = true /\
  quiescent s = true /\ promised cfg_refute (CDidChange 1 2%Z [4]) PUser = 1%nat /\
  started (1%nat, PUser) s = 0%nat /\ started (1%nat, PBuiltin) s = 1%nat /\
  all_ok cfg_refute w0 (calls_of evs_refute) = false.
Proof. vm_compute. repeat split; reflexivity. Qed.

Theorem C14_refuted : ~ C14_statement.
Proof.
  intros [_ H]. destruct (H cfg_refute evs_refute) as (_ & _ & _ & _ & _ & _ & _ & _ & _ & _ & _ & L).
  specialize (L I 1%nat (CDidChange 1 2%Z [4]) PUser eq_refl eq_refl eq_refl eq_refl). vm_compute in L. discriminate.
Qed.
Print Assumptions C14_refuted.

(* F31: `def h(srv: Server, p: "Undefined")` under textDocument/didOpen: asks by annotation, the hints
   cannot be computed, the registered callable does not bind the server; the literal promise (the
   entry of the user's function has the server injected) fails on initialize + didOpen *)
Definition g_refute : gsig := mkG (First false AServer) false.
Definition cfg_refute2 : cfg :=
  mkCfg (registry_of [mkattempt RFeature (Some s_did_open) ONone (fn 1 false (see g_refute)) TNone]) [] [] [1] [].

Theorem C14_refuted_unresolvable_hints :
  asks_server (g_first g_refute) = true /\ has_ls_g g_refute = false /\ sig_ok g_refute = false /\
  let s := run cfg_refute2 [Recv (CInitialize 1 []); Recv (CDidOpen 1 1%Z 1)] in
  map (fun h => (h_part h, h_fid h, h_inj h)) (hlog s) = [(PBuiltin, 0, false); (PBuiltin, 0, false); (PUser, 1, false)] /\
  map x_inj (expect cfg_refute2 (CDidOpen 1 1%Z 1)) = [false; true] /\
  inj_ok cfg_refute2 = false.
Proof. vm_compute. repeat split; reflexivity. Qed.

(* ------------------------------------------------------------------ non-vacuity *)
(* a thread-decorated feature with an `ls` parameter under textDocument/didOpen that raises, an
   async feature annotated with the server class under textDocument/didChange, a sync command;
   initialize, didOpen, didChange, executeCommand, a second didChange before the first task starts,
   then the pool item and the tasks run, shutdown.  Inside the guard; every chained handler ran
   exactly once, after its built-in, the async one seeing the LATER workspace (version 3). *)
Definition did_open_name : name := Some s_did_open.
Definition cfg_ex : cfg :=
  mkCfg (registry_of
           [mkattempt RFeature did_open_name ONone (fn 1 false (First true ANone)) TAbove;
            mkattempt RFeature did_change_name ONone (fn 2 true (First false AServer)) TNone;
            mkattempt RCommand (Some [99]) ONone (fn 3 false (First false ANone)) TNone])
        [1] [] [1; 2] [].
Definition evs_ex : list ev :=
  [Recv (CInitialize 1 [1]); Recv (CDidOpen 1 1%Z 1); Recv (CDidChange 1 2%Z [2]); Recv (CExecCmd 2 [99] 7);
   Recv (CDidChange 1 3%Z [3]); JobStart 0; TaskStep 0; JobFinish 0; LoopCb 0; TaskStep 1; LoopCb 1; Recv (CShutdown 3)].

Example C14_nonvacuous :
  let s := run cfg_ex evs_ex in
  all_ok cfg_ex w0 (calls_of evs_ex) = true /\ quiescent s = true /\
  map (fun h => (h_msg h, h_part h, h_fid h, h_site h, h_inj h, w_docs (h_snap h))) (hlog s) =
    [(0%nat, PBuiltin, 0, OnLoop, false, []);
     (1%nat, PBuiltin, 0, OnLoop, false, []);
     (2%nat, PBuiltin, 0, OnLoop, false, [(1, (1%Z, 1))]);
     (3%nat, PBuiltin, 0, OnLoop, false, [(1, (2%Z, 2))]);
     (3%nat, PCommand, 3, OnLoop, false, [(1, (2%Z, 2))]);
     (4%nat, PBuiltin, 0, OnLoop, false, [(1, (2%Z, 2))]);
     (1%nat, PUser, 1, OnPool, true, [(1, (3%Z, 3))]);
     (2%nat, PUser, 2, OnLoop, true, [(1, (3%Z, 3))]);
     (4%nat, PUser, 2, OnLoop, true, [(1, (3%Z, 3))]);
     (5%nat, PBuiltin, 0, OnLoop, false, [(1, (3%Z, 3))])] /\
  out s = [OResult 1 VObj; OResult 2 (VInt 3); OResult 3 VNull] /\
  started (1%nat, PUser) s = promised cfg_ex (CDidOpen 1 1%Z 1) PUser /\ promised cfg_ex (CDidOpen 1 1%Z 1) PUser = 1%nat.
Proof. vm_compute. repeat split; reflexivity. Qed.

(* a protocol class (protocol_cls=) that adds its own built-in "u/b", with an async user feature of
   the same name: built-in first, then the user's feature, once; the built-in's reply (None) is sent *)
Definition cfg_custom : cfg :=
  mkCfg (registry_of [mkattempt RFeature (other_name [98]) ONone (fn 1 true (First true ANone)) TNone]) [] [] [1] [[98]].
Example custom_builtin_once :
  let s := run cfg_custom [Recv (COther (Some 4) [98] 0); TaskStep 0; LoopCb 0] in
  map (fun h => (h_part h, h_fid h, h_inj h)) (hlog s) = [(PBuiltin, 0, false); (PUser, 1, true)] /\
  out s = [OResult 4 VNull] /\ quiescent s = true /\ all_ok cfg_custom w0 [COther (Some 4) [98] 0] = true.
Proof. vm_compute. repeat split; reflexivity. Qed.

(* the notebook built-ins: an async user feature under notebookDocument/didOpen and a sync one under
   notebookDocument/didClose see the notebook (key nb_key 1) and its cell (101) installed / removed *)
Definition cfg_nb : cfg :=
  mkCfg (registry_of [mkattempt RFeature (Some s_nb_open) ONone (fn 1 true (First true ANone)) TNone;
                      mkattempt RFeature (Some s_nb_close) ONone (fn 2 false (First false ANone)) TNone]) [] [] [1] [].
Example notebook_builtin_first :
  let s := run cfg_nb [Recv (CInitialize 1 []); Recv (CNbOpen 1 3%Z 101 7); TaskStep 0; Recv (CNbChange 1 4%Z);
                       Recv (CNbClose 1 101); Recv (CNbChange 1 5%Z)] in
  map (fun h => (h_msg h, h_part h, h_fid h, w_docs (h_snap h))) (hlog s) =
    [(0%nat, PBuiltin, 0, []);
     (1%nat, PBuiltin, 0, []);
     (1%nat, PUser, 1, [(nb_key 1, (3%Z, 0)); (101, (3%Z, 7))]);
     (2%nat, PBuiltin, 0, [(nb_key 1, (3%Z, 0)); (101, (3%Z, 7))]);
     (3%nat, PBuiltin, 0, [(nb_key 1, (4%Z, 0)); (101, (3%Z, 7))]);
     (3%nat, PUser, 2, []);
     (4%nat, PBuiltin, 0, [])] /\
  all_ok cfg_nb w0 (calls_of [Recv (CInitialize 1 []); Recv (CNbOpen 1 3%Z 101 7); Recv (CNbChange 1 4%Z);
                              Recv (CNbClose 1 101); Recv (CNbChange 1 5%Z)]) = true.
Proof. vm_compute. split; reflexivity. Qed.

(* the server stops (exit / connection lost -> JsonRPCServer.shutdown(), which waits for the pool): a burst
   of didOpen with a @thread user feature, one picked up, two still queued when `shutdown` arrives and the
   stop path runs: the queued handlers run then, each once, on the pool, after their built-ins *)
Definition cfg_stop : cfg :=
  mkCfg (registry_of [mkattempt RFeature (Some s_did_open) ONone (fn 1 false (First true ANone)) TAbove]) [] [] [1] [].
Definition evs_stop : list evx :=
  map Base [Recv (CInitialize 1 []); Recv (CDidOpen 1 1%Z 1); Recv (CDidOpen 2 1%Z 2); JobStart 0;
            Recv (CDidOpen 3 1%Z 3); Recv (CShutdown 2)].
Example stop_runs_the_queue :
  map (fun h => (h_msg h, h_part h, h_site h)) (hlog (runx cfg_stop (evs_stop ++ [Stop]))) =
    [(0%nat, PBuiltin, OnLoop); (1%nat, PBuiltin, OnLoop); (2%nat, PBuiltin, OnLoop); (1%nat, PUser, OnPool);
     (3%nat, PBuiltin, OnLoop); (4%nat, PBuiltin, OnLoop); (2%nat, PUser, OnPool); (3%nat, PUser, OnPool)] /\
  hlog (runx cfg_stop (evs_stop ++ [Stop; Stop])) = hlog (runx cfg_stop (evs_stop ++ [Stop])) /\
  quiescent (runx cfg_stop (evs_stop ++ [Stop])) = true.
Proof. vm_compute. repeat split; reflexivity. Qed.

(* ------------------------------------------------------------------ the reference of the harness *)
(* Spec.spec_run (what bin/c14_driver prints as S) is, message by message, what the clauses above
   speak about: message n is judged in the workspace the first n messages leave, owes `expect`,
   which inside the guard is exactly what the code's plan (`actual`) contains, and the count the
   theorems give for it is the count of that part in `expect` *)
Theorem C14_reference_agrees : forall c ks n k, nth_error ks n = Some k ->
    let wn := spec_ws c (firstn n ks) in
    nth_error (spec_run c w0 ks) n =
      Some (mkXM (delivered wn) (msg_ok c wn k)
                 (if delivered wn then expect c k else []) (spec_step c wn k) (spec_reply c wn k)) /\
    (all_ok c w0 ks = true -> delivered wn = true ->
       actual c wn k = expect c k /\ forall p, owes c wn n k (n, p) = promised c k p).
Proof.
  intros c ks n k Hk wn. split; [exact (spec_run_nth c ks w0 n k Hk)|]. intros G Hd.
  pose proof (all_ok_actual_nth c ks w0 n k G Hk Hd) as A. split; [exact A|]. intro p. apply owes_promised; assumption.
Qed.
Print Assumptions C14_reference_agrees.
