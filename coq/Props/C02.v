(* C02 - Inbound frames are decoded exactly, whatever the chunking.
   Model: Model/Framing.v (run_async over asyncio.StreamReader with its line limit, run_async over
   StdinAsyncReader, the synchronous run; after the repair that turns IncompleteReadError /
   ConnectionError into a normal end of the loop).  Reference: Spec/FramingSpec.v. *)
From Coq Require Import NArith List Bool.
From Pygls Require Import Base.Bytes Model.Framing Spec.FramingSpec
  Proofs.FramingProofs Proofs.FramingProofsFrames.
Open Scope N_scope.

Definition C02_statement : Prop :=
  (* (i) every stream of conforming frames is decoded into exactly its bodies, in order, each
         once, and the loop then ends normally - for the three readers *)
  (forall k ms, Forall (conforming k) ms ->
     loop_whole k AtEOF (frames ms) = (bodies_of ms, Done EndedNormally)) /\
  (* (ii) chunk independence: for EVERY byte stream (well-formed or not), every partition into
          chunks (empty ones included) and either way the input can end, feeding the chunks one
          at a time gives what the whole stream gives *)
  (forall k e chunks, run_chunks k e chunks = loop_whole k e (concat chunks)) /\
  (* (ii') pauses: the model has no clock; a quiet period of any length between two chunks is at
           most a wake-up with nothing new, i.e. an empty chunk, and those never matter *)
  (forall k e chunks,
     run_chunks k e chunks = run_chunks k e (filter (fun c => negb (is_nil c)) chunks)) /\
  (* (iii) hence: conforming frames cut into chunks in any way whatsoever *)
  (forall k ms chunks, Forall (conforming k) ms -> concat chunks = frames ms ->
     run_chunks k AtEOF chunks = (bodies_of ms, Done EndedNormally)) /\
  (* (iv) the loop terminates on every input that ends: no stream makes it spin or get stuck *)
  (forall k stream, exists evs t, loop_whole k AtEOF stream = (evs, Done t)).

Theorem C02 : C02_statement.
Proof.
  unfold C02_statement. repeat split.
  - intros k ms H. apply loop_whole_frames, conforming_all, H.
  - apply chunk_independence.
  - apply pauses_irrelevant.
  - intros k ms chunks H E. rewrite chunk_independence, E. apply loop_whole_frames, conforming_all, H.
  - intros k stream. apply run_eof_done.
Qed.
Print Assumptions C02.

(* The executable guard and reference of the correspondence run are what the theorem talks about:
   guard = msgs_ok (implied by `conforming`, and sufficient for clause (i)); expected
   observation = cut_bodies at the full length = all the bodies. *)
Theorem C02_reference_agrees :
  (forall k ms, Forall (conforming k) ms -> msgs_ok k ms = true) /\
  (forall k ms, msgs_ok k ms = true ->
     loop_whole k AtEOF (frames ms) = (cut_bodies (short_delivery k AtEOF) ms (len (frames ms)), Done (cut_term k AtEOF))).
Proof.
  split; [apply conforming_all|].
  intros k ms H. rewrite cut_bodies_full. replace (cut_term k AtEOF) with EndedNormally by (destruct k; reflexivity).
  apply loop_whole_frames, H.
Qed.
Print Assumptions C02_reference_agrees.

(* Non-vacuity: three conforming messages - multi-byte UTF-8 ("é€" + U+1F60B), a body that is a
   bare CRLFCRLF, a body that looks like a header block - in the three layouts, for the three
   readers; and the byte-by-byte partition of their stream. *)
Definition ex_msgs : list (layout * list N) :=
  [ (LCtCl [117;116;102;56], [34;195;169;226;130;172;240;159;152;139;34]);
    (LCl, [13;10;13;10]);
    (LClCt [97;59;32;99;104;97;114;115;101;116;61;117;116;102;45;56],
     [67;111;110;116;101;110;116;45;76;101;110;103;116;104;58;32;50;13;10;13;10;123;125]) ].

Example C02_nonvacuous :
  Forall (conforming (Stream 65536)) ex_msgs /\ Forall (conforming StdinPool) ex_msgs /\
  Forall (conforming Sync) ex_msgs /\
  run_chunks (Stream 65536) AtEOF (map (fun c => [c]) (frames ex_msgs))
    = (bodies_of ex_msgs, Done EndedNormally) /\
  length (map (fun c => [c]) (frames ex_msgs)) = 155%nat.
Proof.
  assert (P : 11 < 10 ^ INT_MAX_STR_DIGITS /\ 4 < 10 ^ INT_MAX_STR_DIGITS /\ 23 < 10 ^ INT_MAX_STR_DIGITS).
  { assert (10 ^ 2 <= 10 ^ INT_MAX_STR_DIGITS) by (apply N.pow_le_mono_r; [discriminate|unfold INT_MAX_STR_DIGITS; apply N.leb_le; reflexivity]).
    change (10 ^ 2) with 100 in H. repeat split; eapply N.lt_le_trans; try exact H; reflexivity. }
  destruct P as (P1 & P2 & P3).
  assert (C : forall k, fits k LCl [52] = true -> fits k (LCtCl [117;116;102;56]) [49;49] = true ->
              fits k (LClCt [97;59;32;99;104;97;114;115;101;116;61;117;116;102;45;56]) [50;51] = true ->
              Forall (conforming k) ex_msgs).
  { intros k F1 F2 F3. unfold ex_msgs.
    repeat constructor; cbn [fst snd]; try discriminate; try assumption. }
  repeat split; try (apply C; reflexivity); vm_compute; reflexivity.
Qed.

(* What lies outside `conforming` for the stream reader, pinned: a header line longer than the
   reader's limit ends the loop with ValueError (here: limit 20, a 30-byte Content-Type value);
   a Content-Length of more than 4300 digits does the same through int(). *)
Example C02_outside_limit :
  loop_whole (Stream 20) AtEOF (frames [(LClCt (repeat 120 30), [123;125])]) = ([], Done (Raised ELimit)) /\
  loop_whole Sync AtEOF (frames [(LClCt (repeat 120 30), [123;125])]) = ([Body [123;125]], Done EndedNormally).
Proof. split; vm_compute; reflexivity. Qed.
