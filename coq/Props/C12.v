(* C12 - Advertised capabilities match what is registered and negotiated.
   Model: Model/Caps.v (ServerCapabilitiesBuilder after repair #24; lsp_initialize's hand-over).
   Reference: Spec/CapsSpec.v (the LSP 3.17 table provider_of / row, spec_caps).
   Open findings at this commit (both outside "option objects valid for the method" resp. minor):
     F27a  one option object registered for two methods (possible through the structural option
           check, finding #27): the builder writes derived members into it in place;
     F29   options registered for textDocument/rename are never advertised.
   A configuration is arbitrary: `reg`, `opt`, `heap0` are functions, the command list and the
   client's encoding list are lists of any length.                                            *)
From Coq Require Import NArith List Bool.
From Pygls Require Import Model.Features Model.Caps Model.CapsHistory Spec.CapsSpec Spec.CapsHistorySpec
                          Proofs.FeaturesProofs Proofs.CapsProofs Proofs.CapsHistoryProofs Gen.CapsMethods.
Import ListNotations.
Open Scope N_scope.

(* The statement, parameterised by the class of configurations it is claimed for. *)
Definition C12_gen (G : config -> Prop) : Prop :=
  (* (i) headline: every slot of the advertised capabilities is what the reference says *)
  (forall c f, G c -> observe (build c) f = spec_caps c f) /\
  (* (ii) a provider without mandatory members is advertised iff its method has a handler; one
     with mandatory members (onTypeFormatting) iff it was registered with options; and what is
     advertised is the registered option object itself *)
  (forall c f m k, row f = Some (m, k) ->
     (observe (build c) f <> VNone <-> reg c m = true /\ (k = KMandatory -> opt c m <> None))) /\
  (forall c f m k i, row f = Some (m, k) -> reg c m = true -> opt c m = Some i ->
     exists r w, observe (build c) f = VObj i r w) /\
  (* file operations: iff the client gate is on and the method was registered with options *)
  (forall c f m o, fileop_row f = Some (m, o) ->
     (observe (build c) f <> VNone <->
      cap_fileop (cl c) o = Some true /\ reg c m = true /\ opt c m <> None)) /\
  (* semantic tokens: iff one of the three methods was registered with options *)
  (forall c, observe (build c) FSemanticTokens <> VNone <->
     exists m, In m [TEXT_DOCUMENT_SEMANTIC_TOKENS_FULL; TEXT_DOCUMENT_SEMANTIC_TOKENS_FULL_DELTA;
                     TEXT_DOCUMENT_SEMANTIC_TOKENS_RANGE] /\ reg c m = true /\ opt c m <> None) /\
  (* diagnostics *)
  (forall c, observe (build c) FDiagnostic <> VNone <-> reg c TEXT_DOCUMENT_DIAGNOSTIC = true) /\
  (* (iii) commands listed = registered, in order; the configured sync kind is reported;
     openClose / willSave / willSaveWaitUntil / notebook sync / workspace folders *)
  (forall c, observe (build c) FExecuteCommand = VCommands (commands c)) /\
  (forall c, observe (build c) FSyncChange = match sync_kind c with Some k => VNum k | None => VNone end) /\
  (forall c, observe (build c) FSyncOpenClose =
             VBool (reg c TEXT_DOCUMENT_DID_OPEN || reg c TEXT_DOCUMENT_DID_CLOSE)) /\
  (forall c, observe (build c) FSyncWillSave = spec_gated_flag c (cap_will_save (cl c)) TEXT_DOCUMENT_WILL_SAVE /\
             observe (build c) FSyncWillSaveWaitUntil =
               spec_gated_flag c (cap_will_save_wait_until (cl c)) TEXT_DOCUMENT_WILL_SAVE_WAIT_UNTIL) /\
  (forall c, shape (observe (build c) FSyncSave) =
             if reg c TEXT_DOCUMENT_DID_SAVE
             then match opt c TEXT_DOCUMENT_DID_SAVE with Some i => VObj i None None | None => VBool true end
             else VBool false) /\
  (* rename: `true` towards a client without prepareSupport, else prepareProvider = "prepareRename
     has a handler" *)
  (forall c, observe (build c) FRename =
             if reg c TEXT_DOCUMENT_RENAME
             then if cap_prepare_support (cl c) then VRename (reg c TEXT_DOCUMENT_PREPARE_RENAME) else VBool true
             else VNone) /\
  (forall c, observe (build c) FNotebookSync =
             if notebook_document (cl c)
             then match nb_sync c with Some p => VNotebook p | None => VNone end else VNone) /\
  (forall c, observe (build c) FWorkspaceFolders = VFolders) /\
  (* (iv) position encoding: the client's first supported preference, else utf-16 *)
  (forall c, observe (build c) FPositionEncoding = VEnc (spec_encoding c) /\
     match bind (general (cl c)) position_encodings with
     | Some l => first_supported_is l (spec_encoding c) \/
                 ((forall x, In x l -> ~ supported x) /\ spec_encoding c = 16)
     | None => spec_encoding c = 16
     end) /\
  (* (v) non-interference: what is registered for m' does not change a slot m' does not map to *)
  (forall m' c1 c2 f, agree_except m' c1 c2 -> provider_of m' <> Some f -> G c1 -> G c2 ->
     observe (build c1) f = observe (build c2) f) /\
  (* (vi) initialize: the workspace is created with exactly the advertised encoding *)
  (forall c, workspace_encoding (lsp_initialize c) =
               observe (server_capabilities (lsp_initialize c)) FPositionEncoding /\
             workspace_encoding (lsp_initialize c) = spec_workspace_encoding c) /\
  (forall c f, G c -> observe (server_capabilities (lsp_initialize c)) f = spec_caps (with_builtins c) f).

Definition C12_statement : Prop := C12_gen (fun _ => True).
Definition C12_partial_statement : Prop := C12_gen (fun c => guard c = true).

Theorem C12_partial : C12_partial_statement.
Proof.
  unfold C12_partial_statement, C12_gen.
  split; [exact refinement|].
  split; [exact field_iff|].
  split; [exact field_registered_options|].
  split; [exact fileop_iff|].
  split; [exact semantic_tokens_iff|].
  split; [exact diagnostic_iff|].
  split; [exact commands_exact|].
  split; [exact sync_kind_reported|].
  split; [exact sync_open_close|].
  split; [exact sync_will_save|].
  split; [exact sync_save|].
  split; [exact rename_rule|].
  split; [exact notebook_sync_rule|].
  split; [exact workspace_folders_always|].
  split; [intro c; split; [apply encoding_advertised|apply encoding_first_supported]|].
  split; [exact non_interference|].
  split; [exact workspace_uses_advertised|].
  exact initialize_refinement.
Qed.
Print Assumptions C12_partial.

(* Everything except the two derived members of a shared object and the rename options holds
   with no guard at all (clauses (ii)-(iv), (vi) above are unguarded already). *)
Theorem C12_unguarded_shape :
  (forall c f, shape (observe (build c) f) = shape (spec_caps c f)) /\
  (forall m' c1 c2 f, agree_except m' c1 c2 -> provider_of m' <> Some f ->
     shape (observe (build c1) f) = shape (observe (build c2) f)).
Proof. split; [exact refinement_shape|exact non_interference_shape]. Qed.
Print Assumptions C12_unguarded_shape.

(* ---- witnesses ------------------------------------------------------------------------------ *)
Definition no_client : client :=
  {| text_document := None; workspace := None; notebook_document := false; general := None |}.
Definition mk (r : method -> bool) (o : method -> option N) (h : N -> obj) (cli : client) : config :=
  {| reg := r; opt := o; heap0 := h; commands := [1; 2]; sync_kind := Some 2; nb_sync := None; cl := cli |}.

(* F27a: ONE CodeLensOptions-shaped object (identity 1) registered for codeLens and documentLink;
   registering documentLink/resolve changes codeLensProvider.resolveProvider *)
Definition w_shared (link_resolve : bool) : config :=
  mk (fun m => match m with
               | TEXT_DOCUMENT_CODE_LENS | TEXT_DOCUMENT_DOCUMENT_LINK => true
               | DOCUMENT_LINK_RESOLVE => link_resolve
               | _ => false end)
     (fun m => match m with
               | TEXT_DOCUMENT_CODE_LENS | TEXT_DOCUMENT_DOCUMENT_LINK => Some 1
               | _ => None end)
     (fun _ => default_obj) no_client.

Theorem C12_refuted_shared :
  agree_except DOCUMENT_LINK_RESOLVE (w_shared false) (w_shared true) /\
  provider_of DOCUMENT_LINK_RESOLVE <> Some FCodeLens /\
  observe (build (w_shared false)) FCodeLens <> observe (build (w_shared true)) FCodeLens /\
  observe (build (w_shared true)) FCodeLens <> spec_caps (w_shared true) FCodeLens /\
  guard (w_shared true) = false.
Proof.
  split; [|split; [discriminate|split; [vm_compute; discriminate|split; [vm_compute; discriminate|reflexivity]]]].
  unfold agree_except. repeat split; try reflexivity; destruct m; try reflexivity; contradiction.
Qed.

(* F29: options registered for rename are not advertised to a client with prepareSupport *)
Definition prepare_client : client :=
  {| text_document := Some {| synchronization := None; rename := Some {| prepare_support := Some true |} |};
     workspace := None; notebook_document := false; general := None |}.
Definition w_rename : config :=
  mk (fun m => match m with TEXT_DOCUMENT_RENAME => true | _ => false end)
     (fun m => match m with TEXT_DOCUMENT_RENAME => Some 1 | _ => None end)
     (fun _ => default_obj) prepare_client.

Theorem C12_refuted_rename :
  observe (build w_rename) FRename <> spec_caps w_rename FRename /\ guard w_rename = false.
Proof. split; [vm_compute; discriminate|reflexivity]. Qed.

Theorem C12_refuted : ~ C12_statement.
Proof.
  intros (H & _). pose proof (H w_rename FRename I) as E. vm_compute in E. discriminate.
Qed.
Print Assumptions C12_refuted.

(* Non-vacuity: a configuration inside the guard with option objects, a resolve handler, client
   gates and an encoding list; the slots come out as the statement says *)
Definition nv_client : client :=
  {| text_document := Some {| synchronization := Some {| will_save := Some true; will_save_wait_until := None |};
                              rename := Some {| prepare_support := Some true |} |};
     workspace := Some {| file_operations := Some (fileop_table (Some true) None None None None None) |};
     notebook_document := true;
     general := Some {| position_encodings := Some [7; 32; 8] |} |}.
Definition nv_config : config :=
  mk (fun m => match m with
               | TEXT_DOCUMENT_CODE_LENS | CODE_LENS_RESOLVE | TEXT_DOCUMENT_COMPLETION
               | COMPLETION_ITEM_RESOLVE | TEXT_DOCUMENT_HOVER | TEXT_DOCUMENT_RENAME
               | TEXT_DOCUMENT_WILL_SAVE | WORKSPACE_WILL_CREATE_FILES
               | TEXT_DOCUMENT_SEMANTIC_TOKENS_RANGE => true
               | _ => false end)
     (fun m => match m with
               | TEXT_DOCUMENT_CODE_LENS => Some 1 | TEXT_DOCUMENT_HOVER => Some 2
               | WORKSPACE_WILL_CREATE_FILES => Some 3 | TEXT_DOCUMENT_SEMANTIC_TOKENS_RANGE => Some 4
               | _ => None end)
     (fun _ => default_obj) nv_client.

Example C12_nonvacuous :
  guard nv_config = true /\
  observe (build nv_config) FCodeLens = VObj 1 (Some true) None /\
  observe (build nv_config) FCompletion = VOpts (Some true) /\
  observe (build nv_config) FHover = VObj 2 None None /\
  observe (build nv_config) FRename = VRename false /\
  observe (build nv_config) FSyncWillSave = VBool true /\
  observe (build nv_config) FWillCreate = VObj 3 None None /\
  observe (build nv_config) FSemanticTokens = VSemTok 4 SFNone true /\
  observe (build nv_config) FExecuteCommand = VCommands [1; 2] /\
  observe (build nv_config) FPositionEncoding = VEnc 32 /\
  workspace_encoding (lsp_initialize nv_config) = VEnc 32 /\
  first_supported_is [7; 32; 8] 32.
Proof.
  repeat split; try (vm_compute; reflexivity).
  exists [7], [8]. split; [reflexivity|]. split; [right; right; reflexivity|].
  intros x [<-|[]] [H|[H|H]]; discriminate H.
Qed.

(* The executable reference (Spec.CapsSpec.spec_caps / first_supported) is the function the
   clauses describe, and the oracle table is consistent with it. *)
Theorem C12_reference_agrees :
  (forall c f m k, row f = Some (m, k) -> spec_caps c f = spec_row c m k) /\
  (forall c m k, spec_row c m k <> VNone <-> reg c m = true /\ (k = KMandatory -> opt c m <> None)) /\
  (forall f m k, row f = Some (m, k) -> provider_of m = Some f) /\
  (forall f m o, fileop_row f = Some (m, o) -> provider_of m = Some f) /\
  (forall l e, first_supported l = Some e <-> first_supported_is l e) /\
  (forall l, first_supported l = None <-> forall x, In x l -> ~ supported x) /\
  (forall m' c1 c2 f, agree_except m' c1 c2 -> provider_of m' <> Some f -> spec_caps c1 f = spec_caps c2 f).
Proof.
  split; [exact spec_caps_row|]. split; [exact spec_row_present|].
  split; [intros f m k H; destruct f; try discriminate H; injection H as <- <-; reflexivity|].
  split; [intros f m o H; destruct f; try discriminate H; injection H as <- <-; reflexivity|].
  split; [exact first_supported_some|]. split; [exact first_supported_none|]. exact spec_local.
Qed.
Print Assumptions C12_reference_agrees.

(* The tables regenerated from the imported pygls on this run (Gen/CapsMethods.v) agree with the
   model: same chain of _with_* in build(), no _with_* outside the chain, each _with_* mentions
   exactly the method constants the model reads there, same built-in features, same encodings. *)
Theorem gen_tables_agree :
  gen_build_chain = build_chain /\
  gen_with_defined = build_chain /\
  gen_mentions = map (fun w => (w, with_mentions w)) build_chain /\
  gen_stray_mentions = [] /\
  map builtin named_methods =
    map (fun m => existsb (fun g => method_code g =? method_code m) gen_builtin) named_methods /\
  gen_supported_encodings = [8; 16; 32] /\
  (forall e, supported_encoding e = existsb (N.eqb e) [8; 16; 32]).
Proof.
  split; [vm_compute; reflexivity|].      (* chain of build() *)
  split; [vm_compute; reflexivity|].      (* no _with_* outside the chain *)
  split; [vm_compute; reflexivity|].      (* method constants per _with_* *)
  split; [vm_compute; reflexivity|].      (* none elsewhere *)
  split; [vm_compute; reflexivity|].      (* built-in features *)
  split; [vm_compute; reflexivity|].      (* supported encodings *)
  intro e. unfold supported_encoding. cbn [existsb].
  destruct (e =? 8), (e =? 16), (e =? 32); reflexivity.
Qed.
Print Assumptions gen_tables_agree.

(* ---- registration history -------------------------------------------------------------------
   What lsp_initialize feeds the builder is the registry as the ACCEPTED registrations left it
   (Model/Features.v, C19's model of FeatureManager, imported).  For every history of calls:
   (a) refused calls can be erased: the advertised capabilities depend on the accepted ones only;
   (b) for registration histories the configuration is the one the reference describes - handler and
       options of the first valid attempt per method, commands in order of first registration - so
       a refused duplicate (with whatever options) leaves no trace in the initialize result;
   (c) once a method is registered nothing attempted later changes its options. *)
Theorem C12_history :
  (forall nm cid h1 h2 h0 sk nb cli,
     accepted_calls empty_registry h1 = accepted_calls empty_registry h2 ->
     build (cfg_of_history nm cid h1 h0 sk nb cli) = build (cfg_of_history nm cid h2 h0 sk nb cli)) /\
  (forall nm cid h h0 sk nb cli, forallb registration h = true ->
     let c := cfg_of_history nm cid h h0 sk nb cli in
     let s := spec_cfg_of_history nm cid h h0 sk nb cli in
     (forall m, reg c m = reg s m) /\ (forall m, opt c m = opt s m) /\
     Caps.commands c = Caps.commands s /\ (forall i, heap0 c i = heap0 s i) /\
     sync_kind c = sync_kind s /\ nb_sync c = nb_sync s /\ cl c = cl s) /\
  (forall xs r n, wf r -> forallb registration xs = true -> amem n (Features.features r) = true ->
     aget n (feature_options (run r xs)) = aget n (feature_options r) /\
     amem n (Features.features (run r xs)) = true).
Proof.
  split; [exact build_depends_on_accepted_only|]. split; [exact history_refines|exact registered_options_stable].
Qed.
Print Assumptions C12_history.

(* a duplicate with other options after an accepted registration, a wrong-type attempt followed by
   a valid one, a command registered twice *)
Example C12_history_example :
  let h := drv_ops [(0, 7, 1, 1); (0, 7, 2, 1); (0, 20, 3, 2); (0, 20, 4, 1); (1, 1, 0, 0); (1, 2, 0, 0); (1, 1, 0, 0)] 0 in
  let c := cfg_of_history drv_nm drv_cid h (fun _ => default_obj) (Some 2) None no_client in
  results empty_registry h = [true; false; false; true; true; true; false] /\
  opt c TEXT_DOCUMENT_HOVER = Some 1 /\ opt c TEXT_DOCUMENT_CODE_LENS = Some 4 /\
  Caps.commands c = [1; 2] /\
  observe (build c) FHover = VObj 1 None None /\ forallb registration h = true.
Proof. vm_compute. repeat split. Qed.

(* ---- sessions ---------------------------------------------------------------------------------
   One server may be initialised more than once.  In the model the k-th result is lsp_initialize of
   the k-th inputs whatever was initialised before, and every workspace it hands over uses the
   encoding advertised by THAT initialize; clauses (i)-(vi) above therefore hold for each step. *)
Theorem C12_session :
  (forall cs1 cs2 c k d, nth_error cs1 k = Some c -> nth_error cs2 k = Some c ->
     nth k (session cs1) d = lsp_initialize c /\ nth k (session cs2) d = lsp_initialize c) /\
  (forall cs r, In r (session cs) ->
     workspace_encoding r = observe (server_capabilities r) FPositionEncoding).
Proof. split; [exact session_independent|exact session_workspace]. Qed.
Print Assumptions C12_session.
