(* C15 - Connection loss or write failure at any byte is an orderly stop.
   Models: Model/Framing.v (the repaired loops: IncompleteReadError / ConnectionError -> break in
   run_async, ConnectionError -> break in run) and Model/Wrappers.v (start_io wrappers, the TCP
   connection callback with try/finally + writer.close(), the client task, shutdown(), and the
   control skeleton of _send_data).
   Proved here: the framing clauses (C15_framing), the wrappers (C15_wrappers: resources
   released and the call returns, for every stream, cut, reader and ending), and that _send_data
   never lets an Exception of the writer, the serialiser or the error hook escape
   (C15_send_data).  NOT proved here: "later inbound messages still take effect when writes fail"
   as a statement over the endpoint state machine (failing_writer_core over Model/Endpoint.v,
   owned elsewhere); that clause is decided by the correspondence run (harness/c15.py,
   failing-writer sessions) on top of C15_send_data.  Only observed: real sockets (FIN/RST),
   process exit, Server.close()/wait_closed(). *)
From Coq Require Import NArith List Bool.
From Pygls Require Import Base.Bytes Model.Framing Model.Wrappers Spec.FramingSpec
  Proofs.FramingProofs Proofs.FramingProofsFrames Proofs.FramingProofsCut Proofs.FramingProofsWrap.
Open Scope N_scope.

Definition C15_framing_statement : Prop :=
  (* for every stream of conforming frames, EVERY truncation offset, the three readers, an
     orderly close and a reset alike: exactly the frames complete within the prefix are handed
     over, each once and in order - followed, only for a blocking reader that sees EOF inside a
     body, by the truncated bytes it was given (which json.loads then rejects) - and the loop
     ends normally *)
  (forall k e ms cut, Forall (conforming k) ms -> cut <= len (frames ms) ->
     loop_whole k e (take cut (frames ms))
     = (cut_bodies (short_delivery k e) ms cut, Done (cut_term k e))) /\
  (* the same however the prefix arrives in chunks *)
  (forall k e ms cut chunks, Forall (conforming k) ms -> cut <= len (frames ms) ->
     concat chunks = take cut (frames ms) ->
     run_chunks k e chunks = (cut_bodies (short_delivery k e) ms cut, Done (cut_term k e))) /\
  (* no partial dispatch: without short delivery (stream reader; any reader on reset) what is
     handed over is a prefix of the list of bodies, nothing else *)
  (forall k e ms cut, Forall (conforming k) ms -> cut <= len (frames ms) ->
     short_delivery k e = false ->
     exists n, fst (loop_whole k e (take cut (frames ms))) = firstn n (bodies_of ms)) /\
  (* termination is normal for every reader, at EOF and on reset *)
  (forall k e, cut_term k e = EndedNormally).

Theorem C15_framing : C15_framing_statement.
Proof.
  unfold C15_framing_statement. split; [|split; [|split]].
  - intros k e ms cut H Hc. apply loop_on_prefix; [apply conforming_all, H|exact Hc].
  - intros k e ms cut chunks H Hc E. rewrite chunk_independence, E.
    apply loop_on_prefix; [apply conforming_all, H|exact Hc].
  - intros k e ms cut H Hc Hs. apply no_partial_dispatch; [apply conforming_all, H|exact Hc|exact Hs].
  - reflexivity.
Qed.
Print Assumptions C15_framing.

(* the unrepaired loop is NOT this model: its witness (stream reader, EOF inside a body ->
   IncompleteReadError escapes) is corpus/C15/witnesses.json; here the repaired behaviour *)
Example C15_cut_inside_body :
  loop_whole (Stream 65536) AtEOF (take 24 (frames [(LCl, [123;34;97;34;58;49;125])]))
    = ([], Done EndedNormally) /\
  loop_whole StdinPool AtEOF (take 24 (frames [(LCl, [123;34;97;34;58;49;125])]))
    = ([Body [123;34;97]], Done EndedNormally) /\
  loop_whole StdinPool AtReset (take 24 (frames [(LCl, [123;34;97;34;58;49;125])]))
    = ([], Done EndedNormally) /\
  loop_whole Sync AtReset (take 24 (frames [(LCl, [123;34;97;34;58;49;125])]))
    = ([], Done EndedNormally).
Proof. repeat split; vm_compute; reflexivity. Qed.

(* Non-vacuity: a conforming two-frame stream, every one of its 70 cut offsets checked against
   the reference by computation for a stream reader and a blocking reader *)
Definition ex15 : list (layout * list N) :=
  [ (LCtCl [117], [123;34;195;169;34;58;49;125]); (LCl, [91;93]) ].
Example C15_nonvacuous :
  len (frames ex15) = 69 /\
  forallb (fun c => match loop_whole (Stream 64) AtEOF (take c (frames ex15)),
                          loop_whole Sync AtEOF (take c (frames ex15)) with
                    | (e1, Done EndedNormally), (e2, Done EndedNormally) =>
                        Nat.leb (length e1) (length e2)
                    | _, _ => false
                    end)
          (map N.of_nat (seq 0 70)) = true /\
  msgs_ok (Stream 64) ex15 = true.
Proof. repeat split; vm_compute; reflexivity. Qed.

(* ---------- the wrappers ---------- *)

Definition C15_wrappers_statement : Prop :=
  (* for every stream of conforming frames, every cut, reader kind, ending and each of the four
     repaired wrappers: the loop followed by its wrapper hands over exactly the complete frames
     (plus a blocking reader's truncated body), leaves the server released (stop flag set, pool
     shut down after its queued and running @thread handlers have completed, asyncio server closed), returns to its caller, and - TCP callback - has closed
     the connection's writer, which is what lets start_tcp return on Python 3.12 *)
  (forall w k e ms cut, repaired w = true -> Forall (conforming k) ms -> cut <= len (frames ms) ->
     exists s, serve w k e (take cut (frames ms))
               = Some (cut_bodies (short_delivery k e) ms cut, (s, Returns)) /\
               released s = true /\ (w = TcpCallback -> start_tcp_returns s = true)) /\
  (* and whatever way the call of the loop ends, exception or not, the resources are released *)
  (forall w l, repaired w = true -> released (fst (wrapper_run w l)) = true) /\
  (forall l, start_tcp_returns (fst (wrapper_run TcpCallback l)) = true) /\
  (* which endings make the wrapper return rather than propagate *)
  (forall w l, repaired w = true ->
     (snd (wrapper_run w l) = Returns <->
      l = LNormal \/ ((w = StartIoAsync \/ w = StartIoSync) /\
                      (l = LRaised XBrokenPipe \/ l = LRaised XKeyboardInterrupt)))).

Theorem C15_wrappers : C15_wrappers_statement.
Proof.
  unfold C15_wrappers_statement. split; [|split; [|split]].
  - intros w k e ms cut Hw H Hc. apply wrapper_releases; [exact Hw|apply conforming_all, H|exact Hc].
  - intros w l Hw. apply wrapper_releases_any, Hw.
  - intros l. apply tcp_callback_closes_writer.
  - intros w l Hw. apply wrapper_returns_iff, Hw.
Qed.
Print Assumptions C15_wrappers.

(* The code before the repairs does not satisfy these clauses (kernel-checked witnesses):
   row 20 - the TCP callback had no finally and never closed its writer: a loop that raises
   leaves the server unreleased, and even a loop that ends normally leaves start_tcp waiting;
   fix_C15_4 - _start_io_sync passed run()'s None to asyncio.run: the call never returned
   normally; fix_C15_3 / row 9 - the loops let ConnectionResetError escape, which the start_io
   wrapper does not catch. *)
Example C15_refuted_tcp_callback :
  released (fst (wrapper_run TcpCallbackPinned (LRaised (XLoop EReset)))) = false /\
  start_tcp_returns (fst (wrapper_run TcpCallbackPinned LNormal)) = false.
Proof. split; reflexivity. Qed.
Example C15_refuted_start_io_sync :
  snd (wrapper_run StartIoSyncPinned LNormal) = Propagates XNotCoroutine /\
  snd (wrapper_run StartIoSync (of_term (Raised EReset))) = Propagates (XLoop EReset).
Proof. split; reflexivity. Qed.

(* ---------- _send_data ---------- *)

Definition C15_send_data_statement : Prop :=
  forall dumps write hook,
    dumps <> ORaisesBase -> write <> ORaisesBase -> hook <> ORaisesBase ->
    snd (send_data dumps write hook) <> SDRaises.
Theorem C15_send_data : C15_send_data_statement.
Proof. exact send_data_never_raises. Qed.
Print Assumptions C15_send_data.

Example C15_send_data_nonvacuous :
  send_data OOk ORaisesException ORaisesException = ([EvWrite; EvHook], SDNone) /\
  send_data ORaisesException OOk OOk = ([EvHook], SDFalse) /\
  send_data OOk ORaisesBase OOk = ([EvWrite], SDRaises).
Proof. repeat split; reflexivity. Qed.

(* ---------- writes that start failing, over the endpoint state machine ----------
   (added after the header was written: the clause the header lists as "NOT proved here" is now
   proved, Proofs/C15Endpoint.v, over Model/Endpoint.v - the same model C01 / C06 tie to the real
   endpoint after every event.)
   "A transport whose writes start failing at any point never brings the read loop down or stops
   later inbound messages from taking effect": for EVERY configuration c whose writer works
   (blocking or awaitable writer; default, quiet or raising hook), every failure point k (the k-th
   write, counted from 0, and all later ones raise) and EVERY event list (requests with sync /
   async / thread handlers, notifications, cancels, shutdown, exit, responses, outgoing requests,
   any interleaving of task steps, callbacks, pool jobs and awaitable writes):
   - the inbound side of the failing run equals that of the working run: handler log (who started,
     ended, was cancelled; order; thread), handler tasks and pool jobs with their states, in-flight
     tables, queue of awaitable writes, shutdown flag, closed, the queued and the taken exit decision
     (`exit` is the only way the model's loop stops: the loop is alive in one run iff in the other);
   - exactly the first k frames of the working run reached the transport;
   - no report is lost or reordered, the additional ones are JsonRpcInternalError reports;
   - blocking writer with a quiet or raising hook: the same write calls, exactly one additional
     report per failed write.  Under the default LanguageServer hook a failed write makes the hook
     itself write (window/showMessage), which fails again - the model's `storm` flag: errs beyond
     the clause above, nwrites and storm are then not compared. *)
From Coq Require Import ZArith.
From Pygls Require Model.Endpoint Proofs.C15Endpoint.

Definition C15_failing_writer_statement : Prop :=
  forall (c : Endpoint.cfg) (k : nat) (evs : list Endpoint.ev), Endpoint.c_wfail c = None ->
    let a := Endpoint.run (C15Endpoint.failing_from c k) evs in
    let s := Endpoint.run c evs in
    C15Endpoint.inbound_of a = C15Endpoint.inbound_of s /\
    Endpoint.out a = firstn k (Endpoint.out s) /\
    filter C15Endpoint.nonint (Endpoint.errs a) = filter C15Endpoint.nonint (Endpoint.errs s) /\
    (C15Endpoint.blocking_quiet c = true ->
       Endpoint.nwrites a = Endpoint.nwrites s /\
       length (Endpoint.errs a) = (length (Endpoint.errs s) + (Endpoint.nwrites a - k))%nat).

Theorem C15_failing_writer : C15_failing_writer_statement.
Proof. exact C15Endpoint.failing_writer_core. Qed.
Print Assumptions C15_failing_writer.

(* non-vacuity: an async request, a thread request and a raising notification while the transport
   dies at the second write (the reply to request 1 is the only frame that gets out); later a cancel and a shutdown still take effect *)
Example C15_failing_writer_nonvacuous :
  let c := Endpoint.mkCfg Endpoint.WBlocking Endpoint.HookQuiet None in
  let b k o := Endpoint.mkB k o Endpoint.Propagate in
  let evs := [ Endpoint.Recv (Endpoint.FReq true (Endpoint.IInt 1%Z) Endpoint.POk (Endpoint.RUser (b Endpoint.HSync (Endpoint.ORet 1%Z))));
               Endpoint.Recv (Endpoint.FReq true (Endpoint.IInt 2%Z) Endpoint.POk (Endpoint.RUser (b (Endpoint.HAsync 1%nat) (Endpoint.ORet 2%Z))));
               Endpoint.Recv (Endpoint.FReq true (Endpoint.IInt 3%Z) Endpoint.POk (Endpoint.RUser (b (Endpoint.HThread false) (Endpoint.ORet 3%Z))));
               Endpoint.TaskStep 0%nat; Endpoint.JobStart 0%nat;
               Endpoint.Recv (Endpoint.FNotif true 1%nat Endpoint.POk (Endpoint.NUser (b Endpoint.HSync Endpoint.ORaise)));
               Endpoint.JobFinish 0%nat;
               Endpoint.Recv (Endpoint.FNotif true 2%nat Endpoint.POk (Endpoint.NCancel (Endpoint.IInt 2%Z)));
               Endpoint.TaskStep 0%nat; Endpoint.LoopCb 0%nat;
               Endpoint.Recv (Endpoint.FReq true (Endpoint.IInt 4%Z) Endpoint.POk (Endpoint.RShutdown None)) ] in
  let a := Endpoint.run (C15Endpoint.failing_from c 1%nat) evs in
  let s := Endpoint.run c evs in
  length (Endpoint.out s) = 4%nat /\ length (Endpoint.out a) = 1%nat /\
  Endpoint.shutdown a = true /\ Endpoint.exit a = None /\ Endpoint.futs a = [] /\
  length (Endpoint.hlog a) = 10%nat /\ Endpoint.hlog a = Endpoint.hlog s /\
  Endpoint.errs s = [Endpoint.EFeatureNotification] /\
  Endpoint.errs a = [Endpoint.EFeatureNotification; Endpoint.EInternal; Endpoint.EInternal; Endpoint.EInternal].
Proof. vm_compute. repeat split. Qed.
