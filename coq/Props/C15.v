(* C15 - Connection loss at any byte is an orderly stop: the FRAMING half.
   Model: Model/Framing.v (the repaired run_async: IncompleteReadError / ConnectionError -> break).
   Not in this file (the other half of C15): the wrappers around the loop (start_io's
   `finally: shutdown()`, the TCP connection callback, the client task) and write failures
   (Endpoint.v with a writer failing from the k-th write). *)
From Coq Require Import NArith List Bool.
From Pygls Require Import Base.Bytes Model.Framing Spec.FramingSpec
  Proofs.FramingProofs Proofs.FramingProofsFrames Proofs.FramingProofsCut.
Open Scope N_scope.

Definition C15_framing_statement : Prop :=
  (* for every stream of conforming frames, EVERY truncation offset, the three readers, an
     orderly close and a reset alike: exactly the frames complete within the prefix are handed
     over, each once and in order - followed, only for a blocking reader that sees EOF inside a
     body, by the truncated bytes it was given (which json.loads then rejects) - and the loop
     ends as cut_term says: normally (the synchronous run() has no handler for a reset) *)
  (forall k e ms cut, Forall (conforming k) ms -> cut <= len (frames ms) ->
     loop_whole k e (take cut (frames ms))
     = (cut_bodies (short_delivery k e) ms cut, Done (cut_term k e))) /\
  (* the same however the prefix arrives in chunks *)
  (forall k e ms cut chunks, Forall (conforming k) ms -> cut <= len (frames ms) ->
     concat chunks = take cut (frames ms) ->
     run_chunks k e chunks = (cut_bodies (short_delivery k e) ms cut, Done (cut_term k e))) /\
  (* no partial dispatch: without short delivery (stream reader; any reader on reset) what is
     handed over is a prefix of the list of bodies, nothing else *)
  (forall k e ms cut, Forall (conforming k) ms -> cut <= len (frames ms) ->
     short_delivery k e = false ->
     exists n, fst (loop_whole k e (take cut (frames ms))) = firstn n (bodies_of ms)) /\
  (* termination is normal for every reader at EOF, and for the two run_async readers on reset *)
  (forall k e, (e = AtEOF \/ k <> Sync) -> cut_term k e = EndedNormally).

Theorem C15_framing : C15_framing_statement.
Proof.
  unfold C15_framing_statement. split; [|split; [|split]].
  - intros k e ms cut H Hc. apply loop_on_prefix; [apply conforming_all, H|exact Hc].
  - intros k e ms cut chunks H Hc E. rewrite chunk_independence, E.
    apply loop_on_prefix; [apply conforming_all, H|exact Hc].
  - intros k e ms cut H Hc Hs. apply no_partial_dispatch; [apply conforming_all, H|exact Hc|exact Hs].
  - intros k e [E|H]; [rewrite E; destruct k; reflexivity|destruct k, e; try reflexivity; congruence].
Qed.
Print Assumptions C15_framing.

(* the unrepaired loop is NOT this model: its witness (stream reader, EOF inside a body ->
   IncompleteReadError escapes) is corpus/C15/witnesses.json; here the repaired behaviour *)
Example C15_cut_inside_body :
  loop_whole (Stream 65536) AtEOF (take 24 (frames [(LCl, [123;34;97;34;58;49;125])]))
    = ([], Done EndedNormally) /\
  loop_whole StdinPool AtEOF (take 24 (frames [(LCl, [123;34;97;34;58;49;125])]))
    = ([Body [123;34;97]], Done EndedNormally) /\
  loop_whole StdinPool AtReset (take 24 (frames [(LCl, [123;34;97;34;58;49;125])]))
    = ([], Done EndedNormally) /\
  loop_whole Sync AtReset (take 24 (frames [(LCl, [123;34;97;34;58;49;125])]))
    = ([], Done (Raised EReset)).
Proof. repeat split; vm_compute; reflexivity. Qed.

(* Non-vacuity: a conforming two-frame stream, every one of its 70 cut offsets checked against
   the reference by computation for a stream reader and a blocking reader *)
Definition ex15 : list (layout * list N) :=
  [ (LCtCl [117], [123;34;195;169;34;58;49;125]); (LCl, [91;93]) ].
Example C15_nonvacuous :
  len (frames ex15) = 69 /\
  forallb (fun c => match loop_whole (Stream 64) AtEOF (take c (frames ex15)),
                          loop_whole Sync AtEOF (take c (frames ex15)) with
                    | (e1, Done EndedNormally), (e2, Done EndedNormally) =>
                        Nat.leb (length e1) (length e2)
                    | _, _ => false
                    end)
          (map N.of_nat (seq 0 70)) = true /\
  msgs_ok (Stream 64) ex15 = true.
Proof. repeat split; vm_compute; reflexivity. Qed.
