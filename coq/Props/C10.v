(* C10 - The workspace equals the fold of the sync history, in arrival order.
   Model: Model/Workspace.v (pygls/workspace/workspace.py + the built-in sync handlers of
   pygls/protocol/language_server.py, after the fix of `{}` notebook metadata), on top of
   Model/Doc.v for the text of one document (C04).
   Reference: Spec/WorkspaceSpec.v (`spec_step` over lookup functions; `wf_op` / `wf_history`).
   The clause "the notebook stored on open is a copy independent of the notification object" is
   about object identity and cannot be expressed over immutable values: it is decided by the
   correspondence run only (harness/c10.py mutates the params object of every notebook didOpen
   inside a user handler before the workspace is read). *)
From Coq Require Import ZArith NArith List Bool.
From Pygls Require Import Base.AssocWs Model.Codec Model.Doc Model.Workspace Spec.WorkspaceSpec
                          Proofs.WorkspaceProofs.
Import ListNotations.
Open Scope N_scope.

(* For every configuration, initial folder list and well-formed history: what the workspace shows -
   open documents and cells with text, version, language; notebooks with version, metadata, cells in
   order with their data; the cell -> notebook index; the folders; and how many notifications were
   answered with an error - is the reference folded over the same history in arrival order.
   Well-formed excludes ONLY: a notebook listing the same cell document twice, cell data naming a
   cell added by the same notification, a folder both added and removed by one notification (the
   latter two: LSP leaves the order open).  Histories with changes / closes for documents and
   notebooks that are NOT open (closed, or never opened) are covered: the reference says that they
   change nothing - the document stays absent and is served from disk - and are reported.
   (Every prefix of a well-formed history is well formed: `C10_prefix`; so this is the workspace
   after EVERY message.) *)
Definition C10_statement : Prop :=
  forall cf fs h, wf_history cf fs h = true ->
    obs_eq (observe (run_ws cf fs h)) (spec_run cf fs h).

Theorem C10 : C10_statement.
Proof. exact fold_refines. Qed.
Print Assumptions C10.

Theorem C10_prefix :
  forall cf fs h1 h2, wf_history cf fs (h1 ++ h2) = true -> wf_history cf fs h1 = true.
Proof. exact wf_prefix. Qed.

(* The public lookups are functions of the observation: whenever a state shows an observation,
   get_text_document (Open d | Disk uri) and get_notebook_document (by notebook uri, by cell uri,
   notebook uri taking precedence) answer what the reference answers.  This is what the
   correspondence run compares on the uri pools. *)
Theorem C10_public_api :
  forall s t, obs_eq (observe s) t ->
    (forall u, match get_text_document s u, spec_get t u with
               | Open d l, SOpen d' l' => d = d' /\ l = l'
               | Disk a, SDisk b => a = b
               | _, _ => False
               end) /\
    (forall c, get_notebook_document s None (Some c) = spec_nb_of_cell t c) /\
    (forall n c, get_notebook_document s (Some n) c = o_nb t n) /\
    get_notebook_document s None None = None.
Proof.
  intros s t [H1 H2 H3 H4 H5]. cbn in H1, H2, H3, H4, H5. repeat split.
  - intros u. unfold get_text_document, spec_get. rewrite H1.
    destruct (o_doc t u) as [[d l]|]; auto.
  - intros c. unfold get_notebook_document, spec_nb_of_cell. rewrite H3.
    destruct (o_cell t c); [apply H2|reflexivity].
  - intros n c. apply H2.
Qed.

(* Closed documents and cells are absent and `get_text_document` answers Disk for them: in ANY
   state for textDocument/didClose and notebookDocument/didClose, and after a well-formed notebook
   change for the cells its structure part closes. *)
Definition C10_closed_statement : Prop :=
  (forall cf s u, get_text_document (impl_step cf s (DidClose u)) u = Disk u /\
                  get_notebook_document (impl_step cf s (DidClose u)) None (Some u) = None) /\
  (forall cf s n cs,
     get_notebook_document (impl_step cf s (NbClose n cs)) (Some n) None = None /\
     forall c, In c cs -> get_text_document (impl_step cf s (NbClose n cs)) c = Disk c /\
                          get_notebook_document (impl_step cf s (NbClose n cs)) None (Some c) = None) /\
  (forall cf fs h n v meta cc st c,
     wf_history cf fs (h ++ [NbChange n v meta (Some cc)]) = true ->
     aget n (w_nbs (run_ws cf fs h)) <> None ->
     cc_structure cc = Some st -> In c (st_close st) ->
     get_text_document (run_ws cf fs (h ++ [NbChange n v meta (Some cc)])) c = Disk c).

Theorem C10_closed : C10_closed_statement.
Proof.
  split; [|split].
  - intros cf s u. split; [apply get_after_close_is_disk|apply (proj1 (closed_absent cf s) u)].
  - intros cf s n cs. destruct (proj2 (closed_absent cf s) n cs) as [H1 H2]. split; [exact H1|].
    intros c Hc. destruct (H2 c Hc) as [E1 E2]. split; [|exact E2].
    unfold get_text_document. rewrite E1. reflexivity.
  - exact closed_cell_absent.
Qed.
Print Assumptions C10_closed.

(* Documents that are not open are served from disk rather than from stale state: in ANY state, a
   textDocument/didChange (for whatever uri) never makes an absent document appear, and a notebook
   change makes appear only the documents its structure lists under didOpen.  (With C10: a change
   naming a document that is not open changes nothing at all.) *)
Definition C10_not_open_statement : Prop :=
  forall cf s,
  (forall u v cs x, aget x (w_docs s) = None ->
     get_text_document (impl_step cf s (DidChange u v cs)) x = Disk x) /\
  (forall n v meta cc x, aget x (w_docs s) = None ->
     (forall c st, cc = Some c -> cc_structure c = Some st ->
                   ~ In x (map (fun it => fst (fst (fst it))) (st_open st))) ->
     get_text_document (impl_step cf s (NbChange n v meta cc)) x = Disk x).

Theorem C10_not_open : C10_not_open_statement.
Proof. exact change_never_opens. Qed.
Print Assumptions C10_not_open.

(* Consistency of the derived index after a well-formed history; and no notification is answered
   with an error when, in addition, every change refers to something that is open *)
Theorem C10_index :
  forall cf fs h, wf_history cf fs h = true ->
    let s := run_ws cf fs h in
    (forall c n, aget c (w_cells s) = Some n -> aget c (w_docs s) <> None) /\
    (forall n nb, aget n (w_nbs s) = Some nb -> nodupb (cell_docs (n_cells nb)) = true) /\
    (all_targets_open cf (spec_init fs) h = true -> w_errs s = 0).
Proof.
  intros cf fs h Hw. destruct (index_consistent cf fs h Hw) as [H1 H2].
  split; [exact H1|]. split; [exact H2|apply open_targets_no_error; exact Hw].
Qed.

(* What the text of a document IS after its changes is C04's subject: the document stored for a
   session didOpen; didChange* on one uri is C04's `Doc.run` of that session. *)
Theorem C10_text_is_C04 :
  forall cf s u l v0 text ns,
    aget u (w_docs (fold_left (impl_step cf)
                     (DidOpen (u, l, v0, text) :: map (fun n => DidChange u (fst n) (snd n)) ns) s)) =
    Some (run (fst cf) (snd cf) text v0 ns, l).
Proof. exact session_is_doc_run. Qed.

(* ---- the two classes well-formedness excludes (LSP leaves the order open): the model says what
   the code does there, and it is not what the reference does ---- *)

(* cell data naming a cell added by the same notification is dropped by the code (data is applied
   before the splice) *)
Example C10_order_open_cell_data :
  let cf := (Utf16, SyncIncremental) in
  let h := [NbOpen 1 (mkNb 1 None 0 []) [];
            NbChange 1 2 None (Some (mkCC (Some (mkStruct 0 0 [mkCell 2 7 None None] [(7, 0, 1%Z, [97])] []))
                                          [mkCell 1 7 (Some 5) None] []))] in
  wf_history cf [] h = false /\
  option_map n_cells (aget 1 (w_nbs (run_ws cf [] h))) = Some [mkCell 2 7 None None] /\
  option_map n_cells (o_nb (spec_run cf [] h) 1) = Some [mkCell 1 7 (Some 5) None].
Proof. vm_compute. repeat split. Qed.

(* a folder both added and removed by one notification: present or absent depending on the list
   positions (zip_longest interleaving) *)
Example C10_order_open_folders :
  let cf := (Utf16, SyncIncremental) in
  wf_history cf [] [Folders [(1, 5); (2, 6)] [2]] = false /\
  aget 2 (w_folders (run_ws cf [] [Folders [(1, 5); (2, 6)] [2]])) = Some 6 /\
  aget 2 (w_folders (run_ws cf [] [Folders [(2, 6); (1, 5)] [2]])) = None /\
  o_folder (spec_run cf [] [Folders [(1, 5); (2, 6)] [2]]) 2 = None.
Proof. vm_compute. repeat split. Qed.

(* a change for a document / notebook that is not open (here: after its close, and never opened) is
   well formed, changes nothing and is reported; an empty didChange for a closed uri is dropped;
   a notebook change whose second text entry names a closed cell: everything up to that entry is
   applied, the notification ends there with a report (model and reference alike) *)
Example C10_unopened :
  let cf := (Utf16, SyncIncremental) in
  let h := [DidOpen (1, 0, 1%Z, [97]); DidClose 1; DidChange 1 2 [Whole [98]]; DidChange 1 3 [];
            NbChange 1 2 (Some 0) None; DidClose 7; NbClose 7 [8]] in
  wf_history cf [] h = true /\
  get_text_document (run_ws cf [] h) 1 = Disk 1 /\ spec_get (spec_run cf [] h) 1 = SDisk 1 /\
  w_docs (run_ws cf [] h) = [] /\ w_nbs (run_ws cf [] h) = [] /\
  w_errs (run_ws cf [] h) = 2 /\ o_errs (spec_run cf [] h) = 2 /\
  (let h2 := [NbOpen 1 (mkNb 1 None 0 [mkCell 2 2 None None; mkCell 2 3 None None])
                     [(2, 0, 1%Z, [97]); (3, 0, 1%Z, [98])];
              NbChange 1 2 (Some 4) (Some (mkCC (Some (mkStruct 0 1 [] [] [2])) []
                        [(3, 7%Z, [Whole [99]]); (2, 8%Z, [Whole [100]]); (3, 9%Z, [Whole [101]])]))] in
   wf_history cf [] h2 = true /\
   get_text_document (run_ws cf [] h2) 2 = Disk 2 /\
   option_map (fun x => source (fst x)) (aget 3 (w_docs (run_ws cf [] h2))) = Some [99] /\
   option_map (fun x => source (fst x)) (o_doc (spec_run cf [] h2) 3) = Some [99] /\
   w_errs (run_ws cf [] h2) = 1 /\ o_errs (spec_run cf [] h2) = 1).
Proof. vm_compute. repeat split. Qed.

(* the repaired defect (DESIGN section 6 row 13): a change whose metadata is the empty object {}
   (payload 0) replaces the notebook's metadata *)
Example C10_empty_metadata_replaces :
  let cf := (Utf16, SyncIncremental) in
  let h := [NbOpen 1 (mkNb 1 (Some 2) 0 []) []; NbChange 1 2 (Some 0) None] in
  wf_history cf [] h = true /\
  option_map n_meta (aget 1 (w_nbs (run_ws cf [] h))) = Some (Some 0) /\
  option_map n_version (aget 1 (w_nbs (run_ws cf [] h))) = Some 2%Z.
Proof. vm_compute. repeat split. Qed.

(* Non-vacuity: a well-formed history over two documents, a notebook with three cells and folders:
   open, edit, notebook open, a change with {} metadata + splice (cell 12 out, cell 13 in, didOpen,
   didClose) + data for a staying cell + text for the new cell, document close, folder change,
   notebook close that leaves a cell document open. *)
Example C10_nonvacuous :
  let cf := (Utf16, SyncIncremental) in
  let h := [DidOpen (1, 3, 1%Z, [97; 10; 98]);
            DidChange 1 2 [Partial ((1, 0), (1, 1)) [88; 89]; Partial ((0, 0), (0, 0)) [90]];
            NbOpen 20 (mkNb 1 (Some 4) 0 [mkCell 2 11 None None; mkCell 1 12 (Some 0) (Some 3)])
                   [(11, 1, 1%Z, [99]); (12, 1, 1%Z, [100])];
            NbChange 20 2 (Some 0)
                     (Some (mkCC (Some (mkStruct 1 1 [mkCell 2 13 None None] [(13, 1, 1%Z, [])] [12]))
                                 [mkCell 1 11 (Some 7) (Some 1)]
                                 [(13, 5%Z, [Whole [101; 102]]); (11, 6%Z, [Partial ((0, 1), (0, 1)) [33]])]));
            DidClose 1;
            Folders [(1, 5); (2, 6)] [3];
            NbClose 20 [11]] in
  let s := run_ws cf [(3, 9)] h in
  wf_history cf [(3, 9)] h = true /\
  get_text_document s 1 = Disk 1 /\ get_text_document s 12 = Disk 12 /\ get_text_document s 11 = Disk 11 /\
  (match get_text_document s 13 with Open d l => (source d, d_version d, l) | Disk _ => ([], None, 0) end)
    = ([101; 102], Some 5%Z, 1) /\
  get_notebook_document s (Some 20) None = None /\
  get_notebook_document s None (Some 13) = None /\ aget 13 (w_cells s) = Some 20 /\
  map fst (w_folders s) = [1; 2] /\
  (let s4 := run_ws cf [(3, 9)] (firstn 4 h) in
   get_notebook_document s4 None (Some 13) =
     Some (mkNb 2 (Some 0) 0 [mkCell 1 11 (Some 7) (Some 1); mkCell 2 13 None None]) /\
   (match get_text_document s4 1 with Open d l => source d | Disk _ => [] end) = [90; 97; 10; 88; 89] /\
   (match get_text_document s4 11 with Open d l => (source d, d_version d) | Disk _ => ([], None) end)
     = ([99; 33], Some 6%Z)).
Proof. vm_compute. repeat split. Qed.
