From Pygls Require Import Model.Workspace Spec.WorkspaceSpec Proofs.WorkspaceProofs.
