(* C01 - Every request gets exactly one response; notifications get none.
   Model: Model/Endpoint.v (the endpoint after the repairs of DESIGN section 6 rows 3, 4, 8, 10, 11,
   19, 28).  Reference: Spec/EndpointSpec.v (`expected`, `exact`).
   Open finding at this commit: F18 (row 18) - a thread handler answering through an awaitable
   writer loses its reply.  Hypothesis of the peer (row 21): `undef (run c evs) = false`, i.e. no
   response frame names an in-flight incoming pool job (the model marks that region `undef`).

   A reply frame is `OResp i p` with `p : payload := PResult v | PError code`: "a result or an
   error, never both, never neither" is the type of the model's frames; the correspondence run
   checks it on the decoded JSON ("result" in obj XOR "error" in obj), and that the id comes back
   with its JSON type (`IInt z` / `IStr s`, incl. 0 and ""). *)
From Coq Require Import ZArith NArith List Bool.
From Pygls Require Import Base.Assoc Model.Endpoint Spec.EndpointSpec Proofs.EndpointInv Proofs.EndpointLax Proofs.C01Proofs.
Import ListNotations.

(* clauses (1)-(3) for the histories of class G *)
(* Domain of the model (Spec/EndpointSpec.v, `handler_codes_int32`): the codes that request handlers
   raise are int32.  Outside it Model/Endpoint.v over-approximates: it answers `PError code`, whereas the
   real endpoint sends no reply at all because lsprotocol rejects the code when the error reply is built
   (C07 finding `wide-own-code`; C01_model_outside_domain below).  Every clause that promises an ANSWER
   carries this hypothesis, and the generators of the correspondence run respect it. *)
Definition C01_core (G : cfg -> list ev -> Prop) : Prop :=
  forall c evs, handler_codes_int32 evs = true ->
    no_wfail c = true -> existsb is_exit_frame evs = false -> G c evs ->
    let s := run c evs in
    (* (1) pairwise distinct request ids: at most one response per id *)
    (NoDup (req_ids evs) -> forall i, replies i (out s) <= 1) /\
    (* (2) every response answers a request that is in the history and that the reference owes a
           reply: notifications, responses, garbage and post-shutdown requests are never answered *)
    (forall i p, In (OResp i p) (out s) -> In i (expected evs) /\ In i (req_ids evs)) /\
    (* (3) at quiescence every owed reply has been written, exactly once per request *)
    (quiescent s = true -> forall i, replies i (out s) = count_id i (expected evs)) /\
    (quiescent s = true -> NoDup (req_ids evs) -> forall i, In i (expected evs) -> replies i (out s) = 1).

(* clause (4): from every reachable state some extension reaches quiescence *)
Definition C01_live (G : cfg -> list ev -> Prop) : Prop :=
  forall c evs, handler_codes_int32 evs = true ->
    no_wfail c = true -> existsb is_exit_frame evs = false -> G c evs ->
    exists evs', Forall (fun e => match e with Recv _ | UserSend _ => False | _ => True end) evs' /\
                 quiescent (run c (evs ++ evs')) = true.

Definition C01_statement : Prop := C01_core (fun _ _ => True) /\ C01_live (fun _ _ => True).
Definition outside_f18 (c : cfg) (evs : list ev) : Prop := f18_class c evs = false.
Definition C01_partial_statement : Prop := C01_core outside_f18 /\ C01_live outside_f18.

Lemma guard_of : forall c evs, no_wfail c = true -> existsb is_exit_frame evs = false ->
  f18_class c evs = false -> guard c evs = true.
Proof. intros c evs H1 H2 H3. unfold guard. rewrite H1, H2, H3. reflexivity. Qed.

Theorem C01_core_partial : C01_core outside_f18.
Proof.
  intros c evs _ H1 H2 H3 s. pose proof (guard_of c evs H1 H2 H3) as G. subst s. repeat split.
  - intros ND i. apply at_most_one_reply; assumption.
  - eapply (proj1 (reply_answers_request c evs i p G H)).
  - eapply (proj2 (reply_answers_request c evs i p G H)).
  - intros Q i. apply exactly_one_at_quiescence; assumption.
  - intros Q ND i HI. apply exactly_one_distinct; assumption.
Qed.
Print Assumptions C01_core_partial.

Theorem C01_live_partial : C01_live outside_f18.
Proof.
  intros c evs _ H1 H2 H3. pose proof (guard_of c evs H1 H2 H3) as G.
  destruct (quiescence_reachable c evs G) as [evs' [HI HQ]]. exists evs'. split; assumption.
Qed.

Theorem C01_partial : C01_partial_statement.
Proof. split; [exact C01_core_partial|exact C01_live_partial]. Qed.
Print Assumptions C01_partial.

(* The safety half needs no guard and no hypothesis on the configuration: for EVERY writer (failing
   and closed ones included), hook, history (with `exit`, with thread handlers on an awaitable
   writer, with cross-direction id reuse) no request id is answered twice and nothing but a
   request is ever answered - what F18 / a dead transport can do is lose a reply, never add one. *)
Definition C01_safety_statement : Prop :=
  forall c evs,
    (NoDup (req_ids evs) -> forall i, replies i (out (run c evs)) <= 1) /\
    (forall i p, In (OResp i p) (out (run c evs)) -> In i (req_ids evs)).

Theorem C01_safety : C01_safety_statement.
Proof.
  intros c evs. split.
  - intros ND i. apply at_most_one_reply_all. exact ND.
  - intros i p. apply reply_names_a_request_all.
Qed.
Print Assumptions C01_safety.

(* Outside the domain: the model answers a handler that raises the code 2^31 (the real endpoint does not) *)
Example C01_model_outside_domain :
  let evs := [Recv (FReq true (IInt 1) POk (RUser (mkB HSync (ORaiseRpc 2147483648) Propagate)))] in
  handler_codes_int32 evs = false /\ out (run (mkCfg WBlocking HookQuiet None) evs) = [OResp (IInt 1) (PError 2147483648)].
Proof. vm_compute. split; reflexivity. Qed.

(* F18: the witness of the class the guard excludes - one thread request on an awaitable writer *)
Definition f18_cfg : cfg := mkCfg WAwaitable HookQuiet None.
Definition f18_evs : list ev :=
  [Recv (FReq true (IInt 1) POk (RUser (mkB (HThread false) (ORet 5) Propagate))); JobStart 0; JobFinish 0].

Theorem C01_refuted_thread_awaitable :
  no_wfail f18_cfg = true /\ existsb is_exit_frame f18_evs = false /\
  quiescent (run f18_cfg f18_evs) = true /\ expected f18_evs = [IInt 1] /\
  replies (IInt 1) (out (run f18_cfg f18_evs)) = 0 /\ errs (run f18_cfg f18_evs) = [EInternal].
Proof. vm_compute. repeat split. Qed.

Theorem C01_refuted : ~ C01_statement.
Proof.
  intros [H _]. destruct (H f18_cfg f18_evs eq_refl eq_refl eq_refl I) as (_ & _ & H3 & _).
  specialize (H3 eq_refl (IInt 1)). vm_compute in H3. discriminate.
Qed.
Print Assumptions C01_refuted.

(* Non-vacuity: a guarded history with two concurrent requests (async with two suspension points,
   thread), a cancel racing the first, an unknown method, undecodable params, a shutdown and a
   request after it - every owed reply is there exactly once and ids keep their JSON type *)
Definition ex_cfg : cfg := mkCfg WBlocking HookDefault None.
Definition ex_evs : list ev :=
  [Recv (FReq true (IInt 0) POk (RUser (mkB (HAsync 2) (ORet 7) Propagate)));
   Recv (FReq true (IStr []) POk (RUser (mkB (HThread false) ORaise Propagate)));
   TaskStep 0; JobStart 0;
   Recv (FNotif true 1 POk (NCancel (IInt 0)));
   Recv (FReq true (IStr [48%N]) POk RUnknown);
   Recv (FReq true (IInt 1) PBad RUnknown);
   TaskStep 0; JobFinish 0;
   Recv (FReq true (IInt 2) POk (RShutdown None));
   LoopCb 0;
   Recv (FReq true (IInt 3) POk (RUser (mkB HSync (ORet 1) Propagate)))].

Example C01_nonvacuous :
  handler_codes_int32 ex_evs = true /\
  no_wfail ex_cfg = true /\ existsb is_exit_frame ex_evs = false /\ outside_f18 ex_cfg ex_evs /\
  NoDup (req_ids ex_evs) /\ quiescent (run ex_cfg ex_evs) = true /\
  expected ex_evs = [IInt 0; IStr []; IStr [48%N]; IInt 1; IInt 2] /\
  filter (fun f => match f with OResp _ _ => true | _ => false end) (out (run ex_cfg ex_evs)) =
    [OResp (IStr [48%N]) (PError code_method_not_found); OResp (IInt 1) (PError code_invalid_params);
     OResp (IStr []) (PError code_internal); OResp (IInt 2) (PResult VNull);
     OResp (IInt 0) (PError code_cancelled)].
Proof.
  unfold outside_f18. vm_compute. repeat split.
  repeat (constructor; [cbn; intuition discriminate|]). constructor.
Qed.

(* The executable reference used by the correspondence run is the function the clauses speak of:
   `expected` lists, in arrival order, exactly the request frames that either could not be decoded
   or arrived as JSON-RPC 2.0 before any accepted `shutdown` request; the model's own bookkeeping
   of owed replies (its shutdown flag) coincides with it. *)
Theorem C01_reference_agrees :
  (forall evs e, expected (evs ++ [e]) = expected evs ++
     match e with
     | Recv (FReq v i ps _) =>
         match ps with POk => if v && negb (sp_shut (sp_run evs)) then [i] else [] | _ => [i] end
     | _ => []
     end) /\
  (forall evs e, sp_shut (sp_run (evs ++ [e])) = (sp_shut (sp_run evs) ||
     match e with Recv (FReq true _ POk m) => is_shutdown m | _ => false end)) /\
  (forall c evs, guard c evs = true ->
     expected evs = seen_run c evs /\ shutdown (run c evs) = sp_shut (sp_run evs)).
Proof.
  split; [|split].
  - intros evs e. unfold expected, sp_run. rewrite fold_left_app. cbn [fold_left].
    set (x := fold_left sp_step evs sp_init).
    destruct e as [f| | | | | | |]; cbn [sp_step]; try (rewrite app_nil_r; reflexivity).
    destruct f as [|v i ps m|v tag ps m|v i iserr ps]; try (rewrite app_nil_r; reflexivity).
    + destruct ps; try reflexivity. destruct (v && negb (sp_shut x)); [reflexivity|rewrite app_nil_r; reflexivity].
    + destruct v, ps, m; cbn [sp_exp]; rewrite app_nil_r; reflexivity.
  - intros evs e. unfold sp_run. rewrite fold_left_app. cbn [fold_left].
    set (x := fold_left sp_step evs sp_init).
    destruct e as [f| | | | | | |]; cbn [sp_step]; try (rewrite orb_false_r; reflexivity).
    destruct f as [|v i ps m|v tag ps m|v i iserr ps]; try (rewrite orb_false_r; reflexivity).
    + destruct ps, v, (sp_shut x) eqn:E; cbn [andb negb sp_shut orb]; rewrite ?E; reflexivity.
    + destruct v, ps, m; cbn [sp_shut]; rewrite orb_false_r; reflexivity.
  - intros c evs G. split; [apply seen_is_expected; exact G|apply shutdown_is_reference; exact G].
Qed.
Print Assumptions C01_reference_agrees.
