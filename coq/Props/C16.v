(* C16 - Answered requests leave nothing behind.
   The property speaks of the two in-flight tables of JsonRPCProtocol, `_request_futures` and
   `_result_types`, which the code shares between the two directions.  It is stated here as the
   conjunction of
     - the INCOMING half, over Model/Endpoint.v (after the repair fix_C16_1: `pop` in the `finally`
       of _execute_request_callback), for every configuration and every event list, and
     - the OUTGOING half, `C16_outgoing` over Model/Outgoing.v (after the repair fix_C16_2: error
       responses pop `_result_types`), proved by the outgoing worker in Proofs/OutgoingProofs.v.
   The two models are different state machines; each contains the other direction only as far as it
   touches the shared tables (Endpoint.v: `UserSend` / `FResp`, the `FOut` entries; Outgoing.v: the
   `FIn` entries).  What connects them is the hypothesis both carry, `disjoint_directions`: an
   incoming request never reuses the id of an outstanding outgoing request (DESIGN section 6 row
   21).  Under it an id has entries from one direction only, so "both tables are empty" is the
   conjunction of the two halves; nothing else is claimed about the composition.
   That the objects of finished handlers can be garbage-collected is OBSERVED by the correspondence
   run (weak references to sentinels, gc.collect()), not proved: Python's heap is not modelled. *)
From Coq Require Import ZArith NArith List Bool.
From Pygls Require Import Base.Assoc Model.Endpoint Model.EndpointX Spec.EndpointSpec Proofs.EndpointInv Proofs.EndpointFuts
  Proofs.EndpointXProofs Proofs.C16Proofs.
From Pygls Require Model.Outgoing Spec.OutgoingSpec Proofs.OutgoingProofs.
Import ListNotations.

(* Histories are lists of Model/EndpointX.v events: every event of Endpoint.v (`Base e`: frames received -
   among them `$/cancelRequest` and `shutdown`, which cancels every pending request without popping it -
   task steps, callbacks, pool items, writes, send_request) plus `ServerCancel i` (any other server-side
   cancellation of request i: cancel() on its future with no pop) and `OutCancel o` (the caller of
   send_request gives up on the future).  There is NO hypothesis on the history: no guard, nothing about
   shutdown, exit, who cancels, writer or hook. `runx c (map Base evs) = run c evs` (runx_base). *)
Definition C16_incoming_statement : Prop :=
  forall c evs, let s := runx c evs in
    (* every incoming entry belongs to a request future that is still in flight ... *)
    (forall k r, In (k, r) (futs s) -> is_incoming r = true -> In k (inflight_ids s)) /\
    (* ... so the table is bounded by the requests in flight, for histories of any length *)
    length (incoming_entries s) <= inflight s /\
    (* at quiescence no incoming entry is left - however each request was answered or cancelled, *)
    (quiescent s = true -> incoming_entries s = [] /\ inflight s = 0) /\
    (* the only other bookkeeping is that of send_request calls, *)
    (incl (keys (rtypes s)) (sent_idsx evs) /\ forall k o, In (k, FOut o) (futs s) -> In k (sent_idsx evs)) /\
    (* and a history without outgoing requests that ends quiescent leaves both tables empty *)
    (sent_idsx evs = [] -> quiescent s = true -> futs s = [] /\ rtypes s = []).

Theorem C16_incoming : C16_incoming_statement.
Proof.
  intros c evs s. subst s. split; [|split; [|split; [|split]]].
  - intros k r. apply futs_subset_inflight_st. apply fw_runx.
  - apply table_bounded_st, fw_runx.
  - apply tables_empty_st, fw_runx.
  - apply outgoing_only_from_sends_x.
  - apply incoming_quiescent_empty_x.
Qed.
Print Assumptions C16_incoming.

Definition C16_outgoing_statement : Prop :=
  forall evs : list Outgoing.ev,
    OutgoingSpec.injective_supply evs -> OutgoingSpec.disjoint_directions evs ->
    OutgoingSpec.valid_results evs -> OutgoingSpec.lsp_codes evs ->
    (* a caller-cancelled request answered with a result that does not validate leaks its entry
       (DESIGN section 6 row 26, outside "valid results"): every result must validate *)
    OutgoingSpec.strict_valid_results evs -> OutgoingSpec.all_answered evs ->
    Outgoing.rtypes (Outgoing.run evs) = nil /\
    (forall i k, AssocOut.aget Outgoing.id_eqb i (Outgoing.futs (Outgoing.run evs)) <> Some (Outgoing.FOut k)) /\
    (OutgoingSpec.no_in_async evs = true -> Outgoing.futs (Outgoing.run evs) = nil).

Definition C16_statement : Prop := C16_incoming_statement /\ C16_outgoing_statement.

Theorem C16 : C16_statement.
Proof. split; [exact C16_incoming|exact OutgoingProofs.C16_outgoing]. Qed.
Print Assumptions C16.

(* Non-vacuity: raising async and thread handlers, a cancelled request, an unserialisable result -
   every kind of "answered" - and the tables end empty; in between the bound is attained *)
Definition ex16_cfg : cfg := mkCfg WBlocking HookDefault None.
Definition ex16_evs : list ev :=
  [Recv (FReq true (IInt 1) POk (RUser (mkB (HAsync 1) ORaise Propagate)));
   Recv (FReq true (IInt 2) POk (RUser (mkB (HThread false) (ORaiseRpc 5) Propagate)));
   Recv (FReq true (IInt 3) POk (RUser (mkB (HAsync 2) (ORet 1) Propagate)));
   Recv (FReq true (IInt 4) POk (RUser (mkB HSync ORetUnser Propagate)));
   TaskStep 0; TaskStep 1; Recv (FNotif true 1 POk (NCancel (IInt 3)))].
Definition ex16_rest : list ev := [TaskStep 0; TaskStep 1; JobStart 0; JobFinish 0; LoopCb 0; LoopCb 1].

(* shutdown with a suspended coroutine, a not yet started one and a queued pool job; a server-side
   cancel; an outgoing request the caller gave up on before the answer came *)
Definition ex16x : list evx :=
  [Base (Recv (FReq true (IInt 1) POk (RUser (mkB (HAsync 1) (ORet 1) Propagate)))); Base (TaskStep 0);
   Base (Recv (FReq true (IInt 2) POk (RUser (mkB (HAsync 0) (ORet 2) Propagate))));
   Base (Recv (FReq true (IInt 3) POk (RUser (mkB (HThread false) (ORet 3) Propagate))));
   Base (Recv (FReq true (IInt 4) POk (RUser (mkB (HAsync 2) (ORet 4) Propagate)))); Base (TaskStep 2);
   ServerCancel (IInt 4); Base (TaskStep 2); Base (LoopCb 2);
   Base (UserSend (IStr [111%N])); OutCancel 0; Base (Recv (FResp true (IStr [111%N]) false POk));
   Base (Recv (FReq true (IInt 9) POk (RShutdown None)));
   Base (TaskStep 0); Base (TaskStep 1); Base (LoopCb 0); Base (LoopCb 1)].

Example C16_nonvacuous_x :
  quiescent (runx ex16_cfg ex16x) = true /\ futs (runx ex16_cfg ex16x) = [] /\ rtypes (runx ex16_cfg ex16x) = [] /\
  shutdown (runx ex16_cfg ex16x) = true /\
  filter (fun f => match f with OResp _ (PError _) => true | _ => false end) (out (runx ex16_cfg ex16x)) =
    [OResp (IInt 4) (PError code_cancelled); OResp (IInt 3) (PError code_cancelled);
     OResp (IInt 1) (PError code_cancelled); OResp (IInt 2) (PError code_cancelled)].
Proof. vm_compute. repeat split. Qed.

Example C16_nonvacuous :
  keys (futs (run ex16_cfg ex16_evs)) = [IInt 1; IInt 2] /\ inflight (run ex16_cfg ex16_evs) = 3 /\
  quiescent (run ex16_cfg (ex16_evs ++ ex16_rest)) = true /\
  futs (run ex16_cfg (ex16_evs ++ ex16_rest)) = [] /\ rtypes (run ex16_cfg (ex16_evs ++ ex16_rest)) = [] /\
  sent_ids (ex16_evs ++ ex16_rest) = [].
Proof. vm_compute. repeat split. Qed.

(* ---- Link between the two endpoint models (Proofs/LinkEndpointOutgoing.v) ----
   Endpoint.v (incoming side, with a coarse outgoing fragment) and Outgoing.v (outgoing side in detail)
   describe the same tables. `project c evs` maps an Endpoint(X) history to the Outgoing events it
   amounts to; `Rel` says the two tables agree entry by entry (same keys, same order, incoming entries
   as FIn, outgoing as FOut) and the futures handed to send_request callers have the same state.
   This replaces "nothing else is claimed about the composition": the composition IS claimed. *)
From Pygls Require Proofs.LinkEndpointOutgoing.
Theorem C16_link : forall c evs,
  LinkEndpointOutgoing.Rel (runx c evs) (Outgoing.run (LinkEndpointOutgoing.project c evs)).
Proof. exact LinkEndpointOutgoing.link_run. Qed.
Print Assumptions C16_link.
(* both tables are empty after every Endpoint history that ends quiescent and whose projection meets
   C16_outgoing's hypotheses with every outgoing request answered *)
Definition C16_composed_tables := LinkEndpointOutgoing.C16_composed.
Print Assumptions C16_composed_tables.
