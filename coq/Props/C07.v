(* C07 - Errors keep their identity across the wire.
   Model: Model/Exceptions.v over the class table Gen/ExcTable.v (regenerated from
   pygls.exceptions on every run); the code modelled is the repaired one
   (notes/fix_C07_1.patch: `is None` defaults; notes/fix_C07_2.patch: `except JsonRpcException`
   in _execute_request_callback; row 10: undecodable params / missing params are answered).
   `_EXCEPTIONS` is a Python set: every clause about from_error is stated for EVERY order t'
   in which the set may be iterated (Permutation current_table t'). *)
From Coq Require Import ZArith NArith List Bool Permutation.
From Pygls Require Import Model.Exceptions Spec.ExceptionsSpec Gen.ExcTable Proofs.ExceptionsProofs.
Import ListNotations.
Open Scope Z_scope.

(* the request is executed by a handler of kind k (a feature, or a command through
   workspace/executeCommand) *)
Definition runs {D} (tg : target D) (k : hkind) : Prop := tg = TFeature k \/ tg = TCommandKnown k.

Definition error_code {D} (r : sres D) (c : Z) : Prop :=
  exists m d, r = SReply (RError (mkErr c m d)).

(* The statement, parameterised by the class of codes a raised exception may carry
   (Gcode; the full statement has no restriction). *)
Definition C07_gen (Gcode : Z -> Prop) : Prop :=
  (* ---- requester side: for all codes in Z, all messages (incl. ""), all data ---- *)
  (forall t', Permutation current_table t' ->
   forall (D : Type) (c : Z) (m : list N) (d : option D),
   exists e,
     (* from_error never raises and the exception carries the same code, message and data *)
     from_error t' base_entry (mkErr c m d) = COk (mkExc e c m d)
     (* its class is THE class registered for c: exactly one registered class answers for c,
        or none and it is the base class; in particular it does not depend on t' *)
     /\ spec_class current_table base_entry c = Some e
     /\ (e = base_entry \/ (In e current_table /\ e_reg e = true /\ claims e c = true))
     /\ (forall e', In e' current_table -> e_reg e' = true -> claims e' c = true -> e' = e)
     (* the whole server-error range goes to JsonRpcServerError *)
     /\ (-32099 <= c <= -32000 -> e_name e = n_server_error /\ e_reg e = true)
     /\ (e_name e = n_server_error -> -32099 <= c <= -32000)
     (* codes no registered class answers for go to the base class *)
     /\ ((forall e', In e' current_table -> e_reg e' = true -> claims e' c = false) -> e = base_entry))
  /\
  (* ---- identity: to_response_error then from_error gives back class, code, message, data ---- *)
  (forall t', Permutation current_table t' -> forall (D : Type) (x : exc D),
     In (x_class x) current_table -> e_reg (x_class x) = true -> claims (x_class x) (x_code x) = true ->
     Gcode (x_code x) ->
     exists r, to_response_error x = Some r /\ from_error t' base_entry r = COk x)
  /\
  (* ... and constructors keep explicit arguments (code 0 and "" are not replaced by defaults);
     without a code the class's own CODE is used, which the class answers for *)
  (forall (D : Type) e m c (d : option D) x, construct e (Some m) (Some c) d = COk x -> x = mkExc e c m d)
  /\
  (forall (D : Type) e m (d : option D) x, e_sup e = SInherited ->
     construct e m None d = COk x -> claims e (x_code x) = true)
  /\
  (* ---- server side, for every request (method, id, kind, outcome) ---- *)
  (* undecodable params -> -32602, whatever the method *)
  (forall (D : Type) meth idt tg cn (o : houtcome D),
     error_code (server_reply current_table (mkReq meth idt PBadValidation tg cn o)) (-32602))
  /\ (* unknown method -> -32601 *)
  (forall (D : Type) meth idt cn (o : houtcome D),
     error_code (server_reply current_table (mkReq meth idt POk TUnknown cn o)) (-32601))
  /\ (* cancelled (coroutine or thread handler; a plain function cannot be) -> -32800 *)
  (forall (D : Type) meth idt tg k (o : houtcome D), runs tg k -> k <> HSync ->
     error_code (server_reply current_table (mkReq meth idt POk tg true o)) (-32800))
  /\ (* a pygls JSON-RPC exception -> exactly its code, message and data, for ALL THREE kinds *)
  (forall (D : Type) meth idt tg k cn (x : exc D), runs tg k -> (k = HSync \/ cn = false) ->
     Gcode (x_code x) ->
     server_reply current_table (mkReq meth idt POk tg cn (HRaiseRpc x)) =
     SReply (RError (mkErr (x_code x) (x_msg x) (x_data x))))
  /\ (* any other exception -> -32603 carrying the exception text *)
  (forall (D : Type) meth idt tg k cn text (tb : D), runs tg k -> (k = HSync \/ cn = false) ->
     server_reply current_table (mkReq meth idt POk tg cn (HRaiseOther text tb)) =
     SReply (RError (mkErr (-32603) text (Some tb))))
  /\ (* ... an unregistered command is one of those *)
  (forall (D : Type) meth idt cn (o : houtcome D) text tb,
     server_reply current_table (mkReq meth idt POk (TCommandUnknown text tb) cn o) =
     SReply (RError (mkErr (-32603) text (Some tb)))).

Definition C07_statement : Prop := C07_gen (fun _ => True).

(* Open finding wide-own-code: lsprotocol's ResponseError only accepts LSP integers (32 bit), so
   to_response_error raises inside the except-branch for any other code and the request is never
   answered.  The partial statement restricts raised exceptions to such codes; everything on the
   requester side still holds for all of Z. *)
Definition C07_partial_statement : Prop := C07_gen (fun c => int32 c = true).

Lemma meets_code : forall D (r : sres D) c, meets r (ECode c) -> error_code r c.
Proof.
  intros D r c H. destruct r as [[|[c' m d]]| |]; cbn [meets] in H; try contradiction.
  cbn [r_code] in H. subst. exists m, d. reflexivity.
Qed.

Lemma meets_own : forall D (r : sres D) c m d, meets r (EOwn c m d) -> r = SReply (RError (mkErr c m d)).
Proof.
  intros D r c m d H. destruct r as [[|e]| |]; cbn [meets] in H; try contradiction. subst. reflexivity.
Qed.

Lemma spec_handler_live : forall D k cn (o : houtcome D), k = HSync \/ cn = false ->
  spec_handler k cn o = spec_handler HSync false o.
Proof. intros D k cn o [->| ->]; [destruct cn|destruct k]; reflexivity. Qed.

Lemma other_reply : forall D k cn text (tb : D) idt, k = HSync \/ cn = false ->
  execute_request current_table idt k cn (HRaiseOther text tb) =
  SReply (RError (mkErr (-32603) text (Some tb))).
Proof.
  intros D k cn text tb idt Hlive.
  destruct (internal_error_of_code D current_table text tb) as (e & He & _); [vm_compute; reflexivity|].
  destruct Hlive as [-> | ->]; [|destruct k]; cbn [execute_request execute_request_callback reply_of_outcome];
    exact He.
Qed.

Theorem C07_partial : C07_partial_statement.
Proof.
  pose proof table_ok_current as Hok. destruct ctors_ok_current as [Hk Hb].
  pose proof server_classes_ok_current as Hs.
  unfold C07_partial_statement, C07_gen. repeat match goal with |- _ /\ _ => split end.
  - (* requester *)
    intros t' Hp D c m d. exists (chosen_class base_entry current_table c).
    destruct (triple_preserved D base_entry current_table t' c m d Hok Hk Hb Hp) as [H1 H2].
    split; [exact H1|]. split; [exact H2|].
    split; [|split; [|split; [|split]]].
    + destruct (chosen_cases base_entry current_table c) as [E|(A & B & C)]; [left; exact E|right].
      rewrite <- supports_is_claims. tauto.
    + intros e' Hin Hreg Hc. symmetry. apply chosen_registered; try assumption.
      rewrite supports_is_claims. exact Hc.
    + intros Hc.
      destruct (server_range_generic base_entry current_table current_table Hok
                  has_server_range_current (Permutation_refl _)) as (e & E & Hn & Hall).
      rewrite (Hall c Hc). split; [exact Hn|].
      pose proof has_server_range_current as Hr. unfold has_server_range in Hr. rewrite E in Hr.
      repeat (apply andb_true_iff in Hr; destruct Hr as [Hr ?]). exact Hr.
    + intros Hn. apply (server_range_only base_entry current_table c has_server_range_current).
      unfold named_server_error. rewrite Hn. apply str_eqb_refl.
    + intros Hnone. apply outside_is_base. intros e' Hin Hreg.
      rewrite supports_is_claims. apply Hnone; assumption.
  - (* identity *)
    intros t' Hp D x Hin Hreg Hc H32. apply (error_roundtrip D base_entry current_table t'); try assumption.
    rewrite supports_is_claims. exact Hc.
  - exact construct_explicit.
  - intros D e m d x Hsup H. rewrite <- supports_is_claims.
    eapply default_code_supported; eassumption.
  - intros. apply meets_code. apply server_side_generic; [exact Hs|reflexivity|reflexivity].
  - intros. apply meets_code. apply server_side_generic; [exact Hs|reflexivity|reflexivity].
  - intros D meth idt tg k o [-> | ->] Hk'; apply meets_code; apply server_side_generic;
      try exact Hs; unfold server_guard;
      cbn [spec_server q_params q_target q_cancelled q_outcome spec_handler];
      destruct k; try congruence; reflexivity.
  - intros D meth idt tg k cn x [-> | ->] Hlive H32; apply meets_own; apply server_side_generic;
      try exact Hs; unfold server_guard; cbn [spec_server q_params q_target q_cancelled q_outcome];
      rewrite (spec_handler_live D k cn _ Hlive); cbn [spec_handler andb is_sync negb]; try reflexivity;
      exact H32.
  - intros D meth idt tg k cn text tb [-> | ->] Hlive; unfold server_reply;
      cbn [structure_request q_params handle_request q_target q_idtxt q_cancelled q_outcome];
      apply other_reply; assumption.
  - intros D meth idt cn o text tb. unfold server_reply.
    cbn [structure_request q_params handle_request q_target].
    destruct (internal_error_of_code D current_table text tb) as (e & -> & _);
      [vm_compute|]; reflexivity.
Qed.
Print Assumptions C07_partial.

(* wide-own-code: a coroutine handler raising JsonRpcInvalidRequest(code=2^31) is not answered *)
Theorem C07_refuted_wide_code :
  exists (q : request nat) x, spec_server q = Some x /\ server_guard q = false /\
    server_reply current_table q = SNoReply /\ ~ meets (server_reply current_table q) x.
Proof.
  exists (mkReq [97]%N [49]%N POk (TFeature HAsync) false
            (HRaiseRpc (mkExc base_entry 2147483648 [104]%N None))).
  eexists. split; [reflexivity|]. split; [reflexivity|]. split; [reflexivity|].
  vm_compute. exact (fun f => f).
Qed.

Theorem C07_refuted : ~ C07_statement.
Proof.
  intros H. unfold C07_statement, C07_gen in H.
  destruct H as (_ & _ & _ & _ & _ & _ & _ & H & _).
  specialize (H nat [97]%N [49]%N (TFeature HAsync) HAsync false
                (mkExc base_entry 2147483648 [104]%N None) (or_introl eq_refl) (or_intror eq_refl) I).
  vm_compute in H. discriminate.
Qed.
Print Assumptions C07_refuted.

(* The executable references the correspondence run judges the implementation by are the
   functions the clauses describe: spec_class names the class of clause 1 (for every iteration
   order) and is JsonRpcServerError exactly on -32099..-32000, spec_server is the decision table of
   the server clauses. *)
Theorem C07_reference_agrees :
  (forall t' c, Permutation current_table t' ->
     spec_requester current_table base_entry c = Some (chosen_class base_entry t' c)) /\
  (forall (D : Type) (q : request D) x, spec_server q = Some x -> server_guard q = true ->
     meets (server_reply current_table q) x) /\
  (forall (D : Type) meth idt tg cn (o : houtcome D),
     spec_server (mkReq meth idt PBadValidation tg cn o) = Some (ECode (-32602))) /\
  (forall (D : Type) meth idt cn (o : houtcome D),
     spec_server (mkReq meth idt POk TUnknown cn o) = Some (ECode (-32601))) /\
  (forall (D : Type) meth idt k (o : houtcome D), k <> HSync ->
     spec_server (mkReq meth idt POk (TFeature k) true o) = Some (ECode (-32800))) /\
  (forall (D : Type) meth idt k (x : exc D),
     spec_server (mkReq meth idt POk (TFeature k) false (HRaiseRpc x)) =
     Some (EOwn (x_code x) (x_msg x) (x_data x))) /\
  (forall (D : Type) meth idt k text (tb : D),
     spec_server (mkReq meth idt POk (TFeature k) false (HRaiseOther text tb)) =
     Some (ECodeText (-32603) text)).
Proof.
  repeat match goal with |- _ /\ _ => split end.
  - intros. apply spec_requester_chosen;
      [exact table_ok_current|exact has_server_range_current|assumption].
  - intros. apply server_side_generic; [exact server_classes_ok_current|assumption|assumption].
  - reflexivity.
  - reflexivity.
  - intros D meth idt k o Hk. destruct k; [congruence| |]; reflexivity.
  - intros D meth idt k x. destruct k; reflexivity.
  - intros D meth idt k text tb. destruct k; reflexivity.
Qed.
Print Assumptions C07_reference_agrees.

(* ---- the clauses named in DESIGN Appendix B, for the current table ---- *)

Theorem server_range : forall t' c, Permutation current_table t' -> -32099 <= c <= -32000 ->
  e_name (chosen_class base_entry t' c) = n_server_error.
Proof.
  intros t' c Hp Hc.
  destruct (server_range_generic base_entry current_table t' table_ok_current
              has_server_range_current Hp) as (e & _ & Hn & Hall).
  rewrite (Hall c Hc). exact Hn.
Qed.

Theorem server_side_codes : forall (D : Type) (q : request D) x,
  spec_server q = Some x -> server_guard q = true -> meets (server_reply current_table q) x.
Proof. intros. apply server_side_generic; [exact server_classes_ok_current|assumption|assumption]. Qed.

(* a session of requests on one connection: the replies are, in order, the replies to each
   request alone (session_replies_map), hence each meets the reference *)
Theorem C07_session : forall (D : Type) (qs : list (request D)),
  session_replies current_table qs = map (server_reply current_table) qs /\
  (Forall (fun q => server_guard q = true) qs ->
   Forall2 (fun r q => exists x, spec_server q = Some x /\ meets r x) (session_replies current_table qs) qs).
Proof.
  intros D qs. split; [apply session_replies_map|].
  apply session_meets. exact server_classes_ok_current.
Qed.

(* ---- non-vacuity ---- *)

(* a different iteration order exists, and the hypotheses of the identity clause are met *)
Example C07_nonvacuous :
  Permutation current_table (rev current_table) /\ rev current_table <> current_table /\
  (exists e, class_named current_table n_invalid_params = Some e /\ In e current_table /\
             e_reg e = true /\ claims e (-32602) = true /\
             int32 (-32602) = true /\
             exists r, to_response_error (mkExc e (-32602) [104; 105]%N (Some 7%nat)) = Some r /\
                       from_error (rev current_table) base_entry r =
                       COk (mkExc e (-32602) [104; 105]%N (Some 7%nat))) /\
  e_name (chosen_class base_entry (rev current_table) (-32050)) = n_server_error /\
  chosen_class base_entry (rev current_table) (-32100) = base_entry.
Proof.
  split; [apply Permutation_rev|]. split; [vm_compute; discriminate|].
  split; [|split; vm_compute; reflexivity].
  destruct (class_named current_table n_invalid_params) as [e|] eqn:E; [|vm_compute in E; discriminate].
  exists e. destruct (class_named_in _ _ _ E) as [Hin _].
  split; [reflexivity|]. split; [exact Hin|].
  vm_compute in E. injection E as <-. repeat split; try (vm_compute; reflexivity).
  eexists. split; vm_compute; reflexivity.
Qed.

(* code 0 and the empty message keep their identity (the unrepaired constructor replaced them
   by the class defaults, or raised AttributeError and left the future pending) *)
Example C07_code_zero_empty_message :
  from_error current_table base_entry (mkErr 0 [] (@None nat)) = COk (mkExc base_entry 0 [] None) /\
  (exists e, from_error current_table base_entry (mkErr (-32603) [] (@None nat)) = COk (mkExc e (-32603) [] None)
             /\ e_name e = n_internal) /\
  (exists e, from_error current_table base_entry (mkErr (-32000) [] (@None nat)) = COk (mkExc e (-32000) [] None)
             /\ e_name e = n_server_error).
Proof. split; [|split]; [vm_compute; reflexivity| |]; eexists; split; vm_compute; reflexivity. Qed.

(* table_ok is what makes the answer independent of the set's order: a table in which two
   registered classes share a code fails it, and from_error then depends on the order *)
Example table_ok_needed :
  let a := mkEntry [65]%N (Some 7) (Some [97]%N) true SInherited CDefault in
  let b := mkEntry [66]%N (Some 7) (Some [98]%N) true SInherited CDefault in
  table_ok [a; b] = false /\
  from_error [a; b] base_entry (mkErr 7 [] (@None nat)) <> from_error [b; a] base_entry (mkErr 7 [] None) /\
  spec_class [a; b] base_entry 7 = None.
Proof. vm_compute. repeat split; discriminate. Qed.
