(* C11 - Position conversion is exact, total and side-effect free.
   Model: Model/Codec.v (PositionCodec after the fix: commits for clamp / utf-32 width).
   Open findings at this commit: F17 (utf-8 widths, pinned by two baseline tests) and
   F16' (past-EOF result is a unit count used as a character index). *)
From Coq Require Import NArith List Bool.
From Pygls Require Import Base.Unicode Base.PyStr Model.Codec Spec.CodecSpec Proofs.CodecProofs.
Open Scope N_scope.

Definition on_line (lines : list (list N)) (l : N) (body term : list N) : Prop :=
  l < len lines /\ nth (N.to_nat l) lines [] = body ++ term /\
  no_eol body = true /\ is_term term = true.

(* The statement, parameterised by the input classes it is claimed for. *)
Definition C11_gen (Gchar : encoding -> N -> Prop) (Gstr : encoding -> list N -> Prop)
                   (Geof : encoding -> list N -> Prop) : Prop :=
  (* (i) a character's width is its true encoded width, in both places the code computes one *)
  (forall e c, scalar c = true -> Gchar e c ->
     loop_width e c = true_width e c /\ client_num_units e [c] = true_width e c) /\
  (* true widths are the lengths of the actual encodings *)
  (forall c, true_width Utf8 c = len (utf8_enc c) /\ true_width Utf16 c = len (utf16_enc c) /\
             true_width Utf32 c = 1) /\
  (* (ii) valid position (on a character boundary of the line's body): exact, and round trip *)
  (forall e lines l body term pre post,
     on_line lines l body term -> body = pre ++ post -> Gstr e pre ->
     fst (position_from_client_units e lines (l, units e pre)) = (l, len pre) /\
     fst (position_to_client_units e lines (l, len pre)) = (l, units e pre)) /\
  (* (iii) beyond the end of the line: clamped to the end of the body (terminator excluded) *)
  (forall e lines l body term ch,
     on_line lines l body term -> Gstr e body -> units e body <= ch ->
     fst (position_from_client_units e lines (l, ch)) = (l, len body)) /\
  (* (iii) beyond the end of the document: the end of the last line; the empty document: (0,0) *)
  (forall e lines l ch, lines <> [] -> len lines <= l -> Geof e (last_line lines) ->
     fst (position_from_client_units e lines (l, ch)) = (len lines - 1, len (last_line lines))) /\
  (forall e p, fst (position_from_client_units e [] p) = (0, 0)) /\
  (forall e lines l ch, len lines <= l ->
     fst (position_to_client_units e lines (l, ch)) = (len lines, 0)) /\
  (* (iv) no conversion modifies its argument *)
  (forall e lines p, snd (position_from_client_units e lines p) = p /\
                     snd (position_to_client_units e lines p) = p) /\
  (forall e lines r, snd (range_from_client_units e lines r) = r /\
                     snd (range_to_client_units e lines r) = r).

Definition C11_statement : Prop :=
  C11_gen (fun _ _ => True) (fun _ _ => True) (fun _ _ => True).

Definition C11_partial_statement : Prop :=
  C11_gen (fun e c => guard_char e c = true) (fun e s => guard_str e s = true)
          (fun e s => guard_eof e s = true).

Theorem C11_partial : C11_partial_statement.
Proof.
  unfold C11_partial_statement, C11_gen, guard_char, guard_str, guard_eof, on_line.
  repeat split.
  - apply loop_width_exact; assumption.
  - apply cnu_single_exact; assumption.
  - apply true_width_utf8_is_encoded_length.
  - apply true_width_utf16_is_encoded_length.
  - destruct H as (Hl & Hn & Hb & Ht). eapply from_exact; eassumption.
  - destruct H as (Hl & Hn & Hb & Ht). eapply to_exact; eassumption.
  - intros e lines l body term ch (Hl & Hn & Hb & Ht) He Hch. eapply from_clamp_eol; eassumption.
  - intros e lines l ch Hne Hl Hg. rewrite from_clamp_eof by assumption. f_equal.
    destruct e; [apply count_astral_zero_cnu, N.eqb_eq; exact Hg
                |apply count_astral_zero_cnu, N.eqb_eq; exact Hg|reflexivity].
  - apply from_empty.
  - intros e lines l ch Hl. unfold position_to_client_units.
    apply N.leb_le in Hl. rewrite Hl. reflexivity.
  - apply from_arg_unchanged.
  - apply to_arg_unchanged.
  - apply range_from_arg_unchanged.
  - apply range_to_arg_unchanged.
Qed.
Print Assumptions C11_partial.

(* F17: under utf-8 the widths of every non-ASCII character are wrong (e.g. U+00E9) *)
Theorem C11_refuted_utf8 :
  exists c, scalar c = true /\ loop_width Utf8 c <> true_width Utf8 c /\
            client_num_units Utf8 [c] <> true_width Utf8 c.
Proof. exists 0xE9. vm_compute. repeat split; discriminate. Qed.

(* F16': past EOF the unit count of the last line is returned as a character index *)
Theorem C11_refuted_eof :
  exists e lines l ch, lines <> [] /\ len lines <= l /\
    fst (position_from_client_units e lines (l, ch)) <> (len lines - 1, len (last_line lines)).
Proof.
  exists Utf16, [[0x1F60B]], 1, 0. vm_compute. repeat split; discriminate.
Qed.

Theorem C11_refuted : ~ C11_statement.
Proof.
  intros (H & _). destruct (H Utf8 0xE9 eq_refl I) as [H1 _]. vm_compute in H1. discriminate.
Qed.
Print Assumptions C11_refuted.

(* Non-vacuity: the hypotheses are met by a line with an astral character and a CRLF *)
Example C11_nonvacuous :
  on_line [[97; 0x1F60B; 98; 13; 10]; [99]] 0 [97; 0x1F60B; 98] [13; 10] /\
  guard_str Utf16 [97; 0x1F60B] = true /\
  fst (position_from_client_units Utf16 [[97; 0x1F60B; 98; 13; 10]; [99]] (0, units Utf16 [97; 0x1F60B]))
    = (0, 2) /\ units Utf16 [97; 0x1F60B] = 3.
Proof. unfold on_line. vm_compute. repeat split; intros; discriminate. Qed.

(* The executable reference used by the correspondence run (Spec.CodecSpec.spec_from) is the
   function the clauses (ii)/(iii) describe, for every encoding and without any guard. *)
Theorem C11_reference_agrees :
  forall e lines l body term, on_line lines l body term ->
    (forall pre post, body = pre ++ post -> spec_from e lines (l, units e pre) = Some (l, len pre)) /\
    (forall ch, units e body <= ch -> spec_from e lines (l, ch) = Some (l, len body)).
Proof.
  intros e lines l body term (Hl & Hn & Hb & Ht). split.
  - intros pre post Hp. eapply spec_from_valid; eassumption.
  - intros ch Hch. eapply spec_from_clamp; eassumption.
Qed.
Print Assumptions C11_reference_agrees.

(* ======================================================================================
   The consumers of the converted position in TextDocument: offset_at_position and
   word_at_position (Model/DocQuery.v; reference Spec/DocQuerySpec.v over Spec/DocSpec.v).
   Findings that stay in the code: F17 (utf-8 widths), F16' (past the end of the document the
   result is a count of code units) and F31 (offset_at_position adds the length of the preceding
   lines in client code units to a column counted in characters; pinned by
   tests/test_document.py::test_offset_at_position_utf16, which expects 40 for (4,0) = 39
   characters + 1 astral, and 28 for (3,8) = characters).
   ====================================================================================== *)
From Pygls Require Import Model.Doc Spec.DocSpec Proofs.DocProofs Model.DocQuery Spec.DocQuerySpec
                          Proofs.DocQueryProofs.

(* offset_at_position of a valid position (on a character boundary of an LSP line, beyond the
   end of a line = that end, or on the empty last line) is the character offset it denotes *)
Definition C11_offset_gen (G : encoding -> list N -> N * N -> bool) : Prop :=
  forall e s p o, spec_offset e s p = Some o -> G e s p = true -> offset_at_position e s p = o.

Definition C11_offset_statement : Prop := C11_offset_gen (fun _ _ _ => true).

Theorem C11_offset_partial :
  C11_offset_gen (fun e s p => query_guard_widths e s p && offset_guard_units e s p).
Proof.
  intros e s [l ch] o H G. apply andb_true_iff in G. destruct G as [G1 G2].
  unfold spec_offset, spec_off, query_guard_widths, offset_guard_units in *. cbn [fst snd] in *.
  destruct (spec_locate e s l ch 0) as [[o' pre]|] eqn:E; [|discriminate].
  injection H as ->. exact (offset_exact e s l ch o pre E G1 G2).
Qed.
Print Assumptions C11_offset_partial.

(* utf-32: every valid position, no guard; utf-16: whenever no character beyond the BMP precedes
   the position's line (for the end-of-document position: occurs in the text) *)
Theorem C11_offset_utf32 :
  forall s p o, spec_offset Utf32 s p = Some o -> offset_at_position Utf32 s p = o.
Proof.
  intros s p o H. apply (C11_offset_partial Utf32 s p o H).
  unfold query_guard_widths, offset_guard_units, spec_offset, spec_off in *.
  destruct (spec_locate Utf32 s (fst p) (snd p) 0) as [[o' pre]|]; [reflexivity|discriminate].
Qed.
Theorem C11_offset_utf16 :
  forall s p o, spec_offset Utf16 s p = Some o -> offset_guard_units Utf16 s p = true ->
    offset_at_position Utf16 s p = o.
Proof.
  intros s p o H G. apply (C11_offset_partial Utf16 s p o H). rewrite G, andb_true_r.
  unfold query_guard_widths, spec_offset, spec_off in *.
  destruct (spec_locate Utf16 s (fst p) (snd p) 0) as [[o' pre]|]; [reflexivity|discriminate].
Qed.

(* what the code returns, exactly, guard or no guard on the units *)
Theorem C11_offset_returns :
  (forall e p, offset_at_position e [] p = 0) /\
  (* past the end of the document: the length of the text in client code units *)
  (forall e s l ch, s <> [] -> len (lsp_lines s) <= l ->
     offset_at_position e s (l, ch) = client_num_units e s) /\
  (* on a line: the character index on the line + the client units of the text before the line *)
  (forall e s l ch o pre, s <> [] -> spec_locate e s l ch 0 = Some (o, pre) ->
     widths_exact e pre = true ->
     offset_at_position e s (l, ch) = len pre + client_num_units e (take (o - len pre) s)).
Proof.
  repeat split; [apply offset_empty|apply offset_past_eof|apply offset_on_line].
Qed.

(* F31: an astral character on an earlier line shifts the result (utf-16: text "😋\na", (1,0)) *)
Theorem C11_offset_refuted_units :
  exists s p o, spec_offset Utf16 s p = Some o /\ query_guard_widths Utf16 s p = true /\
                offset_at_position Utf16 s p <> o.
Proof. exists [0x1F60B; 10; 97], (1, 0), 2. vm_compute. repeat split. discriminate. Qed.

(* F16': the end-of-document position of "😋\n" is offset 2; the code returns 3 *)
Theorem C11_offset_refuted_eof :
  exists s p o, spec_offset Utf16 s p = Some o /\ offset_at_position Utf16 s p <> o /\
                len s < offset_at_position Utf16 s p.
Proof. exists [0x1F60B; 10], (1, 0), 2. vm_compute. repeat split; discriminate. Qed.

Theorem C11_offset_refuted : ~ C11_offset_statement.
Proof.
  intros H. specialize (H Utf16 [0x1F60B; 10; 97] (1, 0) 2 eq_refl eq_refl).
  vm_compute in H. discriminate.
Qed.
Print Assumptions C11_offset_refuted.

(* word_at_position *)
Definition C11_word_gen (G : encoding -> list N -> N * N -> bool) : Prop :=
  (* the word of the reference: the maximal run of word characters around the character index *)
  (forall e s p w, spec_word e s p = Some w -> G e s p = true -> word_at_position e s p = w) /\
  (* its shape on a line: line = a ++ ws ++ wp ++ b with a ++ ws the part of the line before the
     position; only word characters; maximal on both sides *)
  (forall e s l ch o pre, spec_locate e s l ch 0 = Some (o, pre) -> G e s (l, ch) = true ->
     l < len (lsp_lines s) ->
     exists a ws wp b,
       nth (N.to_nat l) (lsp_lines s) [] = a ++ ws ++ wp ++ b /\ a ++ ws = pre /\
       word_at_position e s (l, ch) = ws ++ wp /\ forallb is_word (ws ++ wp) = true /\
       (a = [] \/ is_word (last a 0) = false) /\ (b = [] \/ is_word (hd 0 b) = false)) /\
  (* a line that does not exist (also the empty last line): "" ; lines[row] is always in range *)
  (forall e s l ch, len (lsp_lines s) <= l -> word_at_position e s (l, ch) = []) /\
  (forall e ls l ch, l < len ls -> fst (fst (position_from_client_units e ls (l, ch))) = l).

Definition C11_word_statement : Prop := C11_word_gen (fun _ _ _ => true).

Theorem C11_word_partial : C11_word_gen query_guard_widths.
Proof.
  unfold C11_word_gen, query_guard_widths. repeat split.
  - intros e s [l ch] w H G. unfold spec_word in H. cbn [fst snd] in *.
    destruct (spec_locate e s l ch 0) as [[o pre]|] eqn:E; [|discriminate].
    injection H as <-. exact (word_exact e s l ch o pre E G).
  - intros e s l ch o pre E G Hl. cbn [fst snd] in G. rewrite E in G.
    exact (word_shape e s l ch o pre E G Hl).
  - apply word_past_eof.
  - apply word_row_in_range.
Qed.
Print Assumptions C11_word_partial.

(* utf-16 and utf-32: no guard *)
Theorem C11_word_utf16_utf32 :
  forall e s p w, e <> Utf8 -> spec_word e s p = Some w -> word_at_position e s p = w.
Proof.
  intros e s p w He H. apply (proj1 C11_word_partial e s p w H).
  unfold query_guard_widths, spec_word in *.
  destruct (spec_locate e s (fst p) (snd p) 0) as [[o pre]|]; [|discriminate].
  destruct e; [congruence|reflexivity|reflexivity].
Qed.
Print Assumptions C11_word_utf16_utf32.

(* F17: utf-8, text "é b", position (0,2) is just after é: no word there; the code answers "b" *)
Theorem C11_word_refuted_utf8 :
  exists s p w, spec_word Utf8 s p = Some w /\ word_at_position Utf8 s p <> w.
Proof. exists [0xE9; 32; 98], (0, 2), []. vm_compute. split; [reflexivity|discriminate]. Qed.

Theorem C11_word_refuted : ~ C11_word_statement.
Proof.
  intros (H & _). specialize (H Utf8 [0xE9; 32; 98] (0, 2) [] eq_refl eq_refl).
  vm_compute in H. discriminate.
Qed.

(* Non-vacuity: "ab_1 😋cd\r\nx" under utf-16: between words, inside a word after an astral
   character, beyond the end of the line, the offset on the second line *)
Example C11_queries_nonvacuous :
  let s := [97; 98; 95; 49; 32; 0x1F60B; 99; 100; 13; 10; 120] in
  spec_word Utf16 s (0, 4) = Some [97; 98; 95; 49] /\ word_at_position Utf16 s (0, 4) = [97; 98; 95; 49] /\
  word_at_position Utf16 s (0, 8) = [99; 100] /\ word_at_position Utf16 s (0, 99) = [99; 100] /\
  word_at_position Utf16 s (0, 5) = [] /\ word_at_position Utf16 s (2, 0) = [] /\
  query_guard_widths Utf16 s (0, 8) = true /\
  spec_offset Utf32 s (1, 1) = Some 11 /\ offset_at_position Utf32 s (1, 1) = 11 /\
  offset_guard_units Utf16 s (0, 8) = true /\ offset_at_position Utf16 s (0, 8) = 7 /\
  offset_guard_units Utf16 s (1, 1) = false.
Proof. vm_compute. repeat split. Qed.
