(* C11 - Position conversion is exact, total and side-effect free.
   Model: Model/Codec.v (PositionCodec after the fix: commits for clamp / utf-32 width).
   Open findings at this commit: F17 (utf-8 widths, pinned by two baseline tests) and
   F16' (past-EOF result is a unit count used as a character index). *)
From Coq Require Import NArith List Bool.
From Pygls Require Import Base.Unicode Base.PyStr Model.Codec Spec.CodecSpec Proofs.CodecProofs.
Open Scope N_scope.

Definition on_line (lines : list (list N)) (l : N) (body term : list N) : Prop :=
  l < len lines /\ nth (N.to_nat l) lines [] = body ++ term /\
  no_eol body = true /\ is_term term = true.

(* The statement, parameterised by the input classes it is claimed for. *)
Definition C11_gen (Gchar : encoding -> N -> Prop) (Gstr : encoding -> list N -> Prop)
                   (Geof : encoding -> list N -> Prop) : Prop :=
  (* (i) a character's width is its true encoded width, in both places the code computes one *)
  (forall e c, scalar c = true -> Gchar e c ->
     loop_width e c = true_width e c /\ client_num_units e [c] = true_width e c) /\
  (* true widths are the lengths of the actual encodings *)
  (forall c, true_width Utf8 c = len (utf8_enc c) /\ true_width Utf16 c = len (utf16_enc c) /\
             true_width Utf32 c = 1) /\
  (* (ii) valid position (on a character boundary of the line's body): exact, and round trip *)
  (forall e lines l body term pre post,
     on_line lines l body term -> body = pre ++ post -> Gstr e pre ->
     fst (position_from_client_units e lines (l, units e pre)) = (l, len pre) /\
     fst (position_to_client_units e lines (l, len pre)) = (l, units e pre)) /\
  (* (iii) beyond the end of the line: clamped to the end of the body (terminator excluded) *)
  (forall e lines l body term ch,
     on_line lines l body term -> Gstr e body -> units e body <= ch ->
     fst (position_from_client_units e lines (l, ch)) = (l, len body)) /\
  (* (iii) beyond the end of the document: the end of the last line; the empty document: (0,0) *)
  (forall e lines l ch, lines <> [] -> len lines <= l -> Geof e (last_line lines) ->
     fst (position_from_client_units e lines (l, ch)) = (len lines - 1, len (last_line lines))) /\
  (forall e p, fst (position_from_client_units e [] p) = (0, 0)) /\
  (forall e lines l ch, len lines <= l ->
     fst (position_to_client_units e lines (l, ch)) = (len lines, 0)) /\
  (* (iv) no conversion modifies its argument *)
  (forall e lines p, snd (position_from_client_units e lines p) = p /\
                     snd (position_to_client_units e lines p) = p) /\
  (forall e lines r, snd (range_from_client_units e lines r) = r /\
                     snd (range_to_client_units e lines r) = r).

Definition C11_statement : Prop :=
  C11_gen (fun _ _ => True) (fun _ _ => True) (fun _ _ => True).

Definition C11_partial_statement : Prop :=
  C11_gen (fun e c => guard_char e c = true) (fun e s => guard_str e s = true)
          (fun e s => guard_eof e s = true).

Theorem C11_partial : C11_partial_statement.
Proof.
  unfold C11_partial_statement, C11_gen, guard_char, guard_str, guard_eof, on_line.
  repeat split.
  - apply loop_width_exact; assumption.
  - apply cnu_single_exact; assumption.
  - apply true_width_utf8_is_encoded_length.
  - apply true_width_utf16_is_encoded_length.
  - destruct H as (Hl & Hn & Hb & Ht). eapply from_exact; eassumption.
  - destruct H as (Hl & Hn & Hb & Ht). eapply to_exact; eassumption.
  - intros e lines l body term ch (Hl & Hn & Hb & Ht) He Hch. eapply from_clamp_eol; eassumption.
  - intros e lines l ch Hne Hl Hg. rewrite from_clamp_eof by assumption. f_equal.
    destruct e; [apply count_astral_zero_cnu, N.eqb_eq; exact Hg
                |apply count_astral_zero_cnu, N.eqb_eq; exact Hg|reflexivity].
  - apply from_empty.
  - intros e lines l ch Hl. unfold position_to_client_units.
    apply N.leb_le in Hl. rewrite Hl. reflexivity.
  - apply from_arg_unchanged.
  - apply to_arg_unchanged.
  - apply range_from_arg_unchanged.
  - apply range_to_arg_unchanged.
Qed.
Print Assumptions C11_partial.

(* F17: under utf-8 the widths of every non-ASCII character are wrong (e.g. U+00E9) *)
Theorem C11_refuted_utf8 :
  exists c, scalar c = true /\ loop_width Utf8 c <> true_width Utf8 c /\
            client_num_units Utf8 [c] <> true_width Utf8 c.
Proof. exists 0xE9. vm_compute. repeat split; discriminate. Qed.

(* F16': past EOF the unit count of the last line is returned as a character index *)
Theorem C11_refuted_eof :
  exists e lines l ch, lines <> [] /\ len lines <= l /\
    fst (position_from_client_units e lines (l, ch)) <> (len lines - 1, len (last_line lines)).
Proof.
  exists Utf16, [[0x1F60B]], 1, 0. vm_compute. repeat split; discriminate.
Qed.

Theorem C11_refuted : ~ C11_statement.
Proof.
  intros (H & _). destruct (H Utf8 0xE9 eq_refl I) as [H1 _]. vm_compute in H1. discriminate.
Qed.
Print Assumptions C11_refuted.

(* Non-vacuity: the hypotheses are met by a line with an astral character and a CRLF *)
Example C11_nonvacuous :
  on_line [[97; 0x1F60B; 98; 13; 10]; [99]] 0 [97; 0x1F60B; 98] [13; 10] /\
  guard_str Utf16 [97; 0x1F60B] = true /\
  fst (position_from_client_units Utf16 [[97; 0x1F60B; 98; 13; 10]; [99]] (0, units Utf16 [97; 0x1F60B]))
    = (0, 2) /\ units Utf16 [97; 0x1F60B] = 3.
Proof. unfold on_line. vm_compute. repeat split; intros; discriminate. Qed.

(* The executable reference used by the correspondence run (Spec.CodecSpec.spec_from) is the
   function the clauses (ii)/(iii) describe, for every encoding and without any guard. *)
Theorem C11_reference_agrees :
  forall e lines l body term, on_line lines l body term ->
    (forall pre post, body = pre ++ post -> spec_from e lines (l, units e pre) = Some (l, len pre)) /\
    (forall ch, units e body <= ch -> spec_from e lines (l, ch) = Some (l, len body)).
Proof.
  intros e lines l body term (Hl & Hn & Hb & Ht). split.
  - intros pre post Hp. eapply spec_from_valid; eassumption.
  - intros ch Hch. eapply spec_from_clamp; eassumption.
Qed.
Print Assumptions C11_reference_agrees.
