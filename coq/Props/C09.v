(* C09 - Shutdown closes the door; exit reports whether it was closed.
   Model: Model/Endpoint.v (lsp_shutdown over a snapshot = fix_C09_1, the gate in `recv`, lsp_exit,
   write_step / exit_cb for an awaitable close) and Model/ExitWrappers.v (start_io / _start_io_sync /
   start_tcp after fix_C09_2).  Reference: Spec/ShutdownSpec.v (`x_step`: flag and exit status as
   functions of the frames received).  Proofs: Proofs/C09Proofs.v.

   Clauses, for every configuration (writer kind, hook, failing writer) and every event list unless
   a hypothesis restricts it:
   (1) the shutdown request sets the flag and is answered `Result null`, as the last frame handed to
       the transport in that event (working transport);
   (2) cancel() is called on every future in flight at that moment.  Per kind (`cancel_requested`):
       asyncio task not done -> must_cancel set (an unstarted coroutine then finishes cancelled
       without ever logging a Start, a suspended one gets CancelledError at its next step:
       `flagged_task_step`; over whole histories `cancelled_unstarted_never_starts`: whatever comes next,
       stepping that task never logs anything); queued pool work item -> CANCELLED, never starts, and its own callback
       answers -32800 inside the shutdown event (`queued_job_answered_cancelled`); running or
       finished work item, finished task -> unchanged; future of an outgoing request -> cancelled;
   (3) each request with a live handler at that moment is still answered exactly once at
       quiescence, its reply being produced before `exit` is processed (the histories of class G
       contain no `exit`; with a synchronous close a later `exit` leaves what was written as it is:
       `exit_keeps_replies`);
   (4) the gate: once the flag is set a frame other than an effective `exit` changes neither the
       handler log, nor the task / job tables, nor the in-flight table (it can only be reported or,
       if undecodable, answered with an error); over whole histories every handler ENTERED after
       the flag was set was admitted before (a coroutine not yet started / a work item still queued
       in the state the shutdown event left: notification handlers and the user feature chained to
       `shutdown` - request handlers in that state are the cancelled ones of (2)) or belongs to an
       `exit` notification;
   (5) exit status: whenever the process exits its status is the one the reference decides: 0 iff a
       shutdown request had been accepted when the first `exit` notification was handled, else 1;
       with a synchronous close (stdio, TCP) it exits in that very event; with an awaitable close
       draining the write queue delivers it; start_io, _start_io_sync and start_tcp all hand that
       status to the interpreter, after JsonRPCServer.shutdown() has run.

   Open finding F18 (row 18, stays in the code, owned by C01): a thread handler answering through an
   awaitable writer loses its reply - a request RUNNING in the pool at shutdown is then never
   answered.  Clause (3) is therefore proved for the histories outside that class (`C09_partial`);
   `C09_refuted_thread_awaitable` is the kernel-checked witness.  Clauses (1) (2) (4) (5) hold for
   every history. *)
From Coq Require Import ZArith NArith List Bool.
From Pygls Require Import Base.Assoc Model.Endpoint Model.ExitWrappers Spec.EndpointSpec Spec.ShutdownSpec
  Proofs.EndpointInv Proofs.C01Proofs Proofs.C09Proofs.
Import ListNotations.

Definition shutdown_request (i : id) (u : option behav) : frame := FReq true i POk (RShutdown u).

(* (1) *)
Definition C09_reply_null : Prop :=
  forall c s i u, exit s = None -> shutdown s = false -> c_wfail c = None -> closed s = false ->
    let s' := step c s (Recv (shutdown_request i u)) in
    shutdown s' = true /\
    match c_writer c with
    | WBlocking => exists pre, out s' = out s ++ pre ++ [OResp i (PResult VNull)]
    | WAwaitable => exists pre, wq s' = wq s ++ pre ++ [WFrame (OResp i (PResult VNull))]
    end.

(* (2) *)
Definition C09_cancel : Prop :=
  (forall c s i u r, exit s = None -> shutdown s = false -> In r (values (futs s)) ->
     cancel_requested s (step c s (Recv (shutdown_request i u))) r) /\
  (forall c s i u j jb k, exit s = None -> shutdown s = false -> c_wfail c = None -> closed s = false ->
     In (FJob j) (values (futs s)) -> nth_error (jobs s) j = Some jb -> j_st jb = JQueued -> j_cb jb = CReq k ->
     In (OResp k (PError code_cancelled)) (handed (step c s (Recv (shutdown_request i u))))) /\
  (forall t s tk st l, nth_error (tasks s) t = Some tk -> t_st tk = TLive st l true ->
     (st = false -> hlog (task_step t s) = hlog s /\
                    exists tk', nth_error (tasks (task_step t s)) t = Some tk' /\ t_st tk' = TDoneCb RCancelled) /\
     (st = true -> exists r, hlog (task_step t s) = hlog s ++ mkH (t_who tk) (t_part tk) HCancel Loop :: r)) /\
  (forall j s jb, nth_error (jobs s) j = Some jb -> j_st jb = JCancelled -> job_start j s = s) /\
  (* whole histories: a request coroutine that shutdown found unstarted is never entered *)
  (forall c s i u t tk l mc, exit s = None -> shutdown s = false -> In (FTask t) (values (futs s)) ->
     nth_error (tasks s) t = Some tk -> t_st tk = TLive false l mc ->
     dead_at t (step c s (Recv (shutdown_request i u)))) /\
  (forall c evs s t, dead_at t s ->
     dead_at t (fold_left (step c) evs s) /\
     hlog (step c (fold_left (step c) evs s) (TaskStep t)) = hlog (fold_left (step c) evs s)).

(* (3), for the histories of class G.  Like every clause of C01 / C08 that promises an ANSWER it is stated on
   the domain of the model, `handler_codes_int32` (Spec/EndpointSpec.v): a handler that raises a JSON-RPC
   exception whose code is outside int32 gets no reply from the real endpoint (C07 finding
   `wide-own-code`) whereas Model/Endpoint.v answers it; the generators produce int32 codes only
   (the boundary values 2^31-1 and -2^31 included). *)
Definition C09_pending (G : cfg -> list ev -> Prop) : Prop :=
  forall c pre f post, let evs := pre ++ Recv f :: post in
    shutdown_frame f = true -> handler_codes_int32 evs = true ->
    no_wfail c = true -> existsb is_exit_frame evs = false -> G c evs ->
    quiescent (run c evs) = true ->
    (forall k, replies k (out (run c evs)) = count_id k (expected evs)) /\
    (forall k, pending_request k (run c pre) = true -> In k (expected evs)) /\
    (NoDup (req_ids evs) -> forall k, pending_request k (run c pre) = true -> replies k (out (run c evs)) = 1).

(* (4) *)
Definition C09_gate : Prop :=
  (forall c s f, shutdown s = true -> exit_frame f = false ->
     let s' := recv c f s in
     shutdown s' = true /\ hlog s' = hlog s /\ tasks s' = tasks s /\ jobs s' = jobs s /\ outg s' = outg s /\
     futs s' = futs s /\ closed s' = closed s /\ exit s' = exit s) /\
  (forall c evs1 evs2, shutdown (run c evs1) = true ->
     shutdown (run c (evs1 ++ evs2)) = true /\
     exists new, hlog (run c (evs1 ++ evs2)) = hlog (run c evs1) ++ new /\
       forall wp, In wp (starts new) -> admitted (run c evs1) evs2 wp).

(* (5) *)
Definition C09_exit : Prop :=
  (forall c evs rc, exit (run c evs) = Some rc ->
     exit_ref evs = Some rc /\ rc = (if shut_ref evs then 0%Z else 1%Z)) /\
  (forall c evs, c_writer c = WBlocking -> exit (run c evs) = exit_ref evs) /\
  (forall c evs rc, exit_ref evs = Some rc ->
     exists k, exit (run c (evs ++ repeat WriteStep k ++ [ExitCb])) = Some rc) /\
  (forall c evs, exit_ref evs = None -> shutdown (run c evs) = shut_ref evs) /\
  (forall w c evs rc, repaired w = true -> exit (run c evs) = Some rc ->
     status w c evs = Some rc /\ w_released (wrapper_run w (loop_end (run c evs))) = true /\
     (rc = 0%Z <-> shut_ref evs = true) /\ (rc = 1%Z <-> shut_ref evs = false)).

Definition C09_statement_for (G : cfg -> list ev -> Prop) : Prop :=
  C09_reply_null /\ C09_cancel /\ C09_pending G /\ C09_gate /\ C09_exit.

Definition C09_statement : Prop := C09_statement_for (fun _ _ => True).
Definition outside_f18 (c : cfg) (evs : list ev) : Prop := f18_class c evs = false.
Definition C09_partial_statement : Prop := C09_statement_for outside_f18.

Theorem C09_reply_null_holds : C09_reply_null.
Proof. exact shutdown_reply_null. Qed.

Theorem C09_cancel_holds : C09_cancel.
Proof.
  split; [exact shutdown_requests_cancel|]. split; [exact queued_job_answered_cancelled|].
  split; [exact flagged_task_step|]. split; [exact cancelled_job_never_starts|].
  split; [exact shutdown_kills_unstarted|exact cancelled_unstarted_never_starts].
Qed.

Theorem C09_pending_holds : C09_pending outside_f18.
Proof.
  intros c pre f post evs SF HC H1 H2 H3 Q.
  assert (G : guard c evs = true) by (unfold guard; rewrite H1, H2, H3; reflexivity).
  exact (pending_still_answered_once c pre f post SF HC G Q).
Qed.

Theorem C09_gate_holds : C09_gate.
Proof.
  split.
  - intros c s f SH EF s'. pose proof (gate_recv c s f SH EF) as ((C1 & C2 & _) & A1 & A2 & A3 & A4 & A5).
    pose proof (gate_recv_futs c s f SH EF) as A6. unfold s'. repeat split; congruence.
  - exact gate_after_shutdown.
Qed.

Theorem C09_exit_holds : C09_exit.
Proof.
  split; [|split; [exact exit_blocking|split; [exact exit_delivered|split; [exact flag_is_reference|]]]].
  - intros c evs rc E. pose proof (exit_sound c evs rc E) as R. split; [exact R|apply x_status; exact R].
  - intros w c evs rc R E. destruct (exit_status w c evs rc R E) as (A & B & C). split; [exact A|]. split; [exact B|].
    rewrite C. destruct (shut_ref evs); split; split; intro X; try reflexivity; discriminate.
Qed.

Theorem C09_partial : C09_partial_statement.
Proof.
  split; [exact C09_reply_null_holds|]. split; [exact C09_cancel_holds|]. split; [exact C09_pending_holds|].
  split; [exact C09_gate_holds|exact C09_exit_holds].
Qed.
Print Assumptions C09_partial.

(* F18: a thread request RUNNING at shutdown, awaitable writer: never answered *)
Definition f18_cfg : cfg := mkCfg WAwaitable HookQuiet None.
Definition f18_pre : list ev :=
  [Recv (FReq true (IInt 1) POk (RUser (mkB (HThread false) (ORet 5%Z) Propagate))); JobStart 0].
Definition f18_post : list ev := [JobFinish 0; WriteStep].

Theorem C09_refuted_thread_awaitable :
  let evs := f18_pre ++ Recv (shutdown_request (IInt 2) None) :: f18_post in
  handler_codes_int32 evs = true /\
  no_wfail f18_cfg = true /\ existsb is_exit_frame evs = false /\ quiescent (run f18_cfg evs) = true /\
  pending_request (IInt 1) (run f18_cfg f18_pre) = true /\ NoDup (req_ids evs) /\
  replies (IInt 1) (out (run f18_cfg evs)) = 0.
Proof.
  vm_compute. repeat split. repeat (constructor; [cbn; intuition discriminate|]). constructor.
Qed.

Theorem C09_refuted : ~ C09_statement.
Proof.
  intros (_ & _ & H3 & _).
  destruct (H3 f18_cfg f18_pre (shutdown_request (IInt 2) None) f18_post eq_refl eq_refl eq_refl eq_refl I eq_refl) as (_ & _ & H).
  assert (ND : NoDup (req_ids (f18_pre ++ Recv (shutdown_request (IInt 2) None) :: f18_post))).
  { vm_compute. repeat (constructor; [cbn; intuition discriminate|]). constructor. }
  specialize (H ND (IInt 1) eq_refl). vm_compute in H. discriminate.
Qed.
Print Assumptions C09_refuted.

(* The code before fix_C09_2 (`except (KeyboardInterrupt, SystemExit): pass` in the two stdio
   wrappers): the status decided by lsp_exit never reaches the interpreter *)
Theorem C09_pinned_stdio_loses_status :
  let c := mkCfg WBlocking HookDefault None in
  let evs := [Recv (FNotif true 0 POk (NExit None))] in
  exit_ref evs = Some 1%Z /\ exit (run c evs) = Some 1%Z /\
  status StartIoAsync c evs = Some 1%Z /\ status StartIoSync c evs = Some 1%Z /\ status StartTcp c evs = Some 1%Z /\
  status StartIoAsyncPinned c evs = Some 0%Z /\ status StartIoSyncPinned c evs = Some 0%Z.
Proof. vm_compute. repeat split. Qed.

(* Non-vacuity: a suspended coroutine, a coroutine not yet started, a running and a queued work
   item, an outgoing request and an unstarted notification handler are in flight when shutdown
   arrives; a request and a notification follow it; then everything is drained and exit comes. *)
Definition ex_cfg : cfg := mkCfg WBlocking HookDefault None.
Definition bA (n : nat) (v : Z) (r : creact) := mkB (HAsync n) (ORet v) r.
Definition bT (v : Z) := mkB (HThread false) (ORet v) Propagate.
Definition ex_pre : list ev :=
  [Recv (FReq true (IInt 1) POk (RUser (bA 2 11%Z Propagate))); TaskStep 0;
   Recv (FReq true (IInt 2) POk (RUser (bA 1 12%Z Propagate)));
   Recv (FReq true (IInt 3) POk (RUser (bT 13%Z))); JobStart 0;
   Recv (FReq true (IInt 4) POk (RUser (bT 14%Z)));
   UserSend (IStr [111%N]);
   Recv (FNotif true 7 POk (NUser (bA 0 0%Z Propagate)))].
Definition ex_post : list ev :=
  [Recv (FReq true (IInt 6) POk (RUser (mkB HSync (ORet 1%Z) Propagate)));
   Recv (FNotif true 8 POk (NUser (mkB HSync (ORet 1%Z) Propagate)));
   TaskStep 0; TaskStep 1; TaskStep 2; JobStart 1; JobFinish 0; LoopCb 0; LoopCb 1; LoopCb 2].
Definition ex_evs : list ev := ex_pre ++ Recv (shutdown_request (IInt 5) None) :: ex_post.

Example C09_nonvacuous :
  handler_codes_int32 ex_evs = true /\ no_wfail ex_cfg = true /\ existsb is_exit_frame ex_evs = false /\ outside_f18 ex_cfg ex_evs /\
  NoDup (req_ids ex_evs) /\ quiescent (run ex_cfg ex_evs) = true /\
  values (futs (run ex_cfg ex_pre)) = [FTask 0; FTask 1; FJob 0; FJob 1; FOut 0] /\
  map (fun k => pending_request (IInt k) (run ex_cfg ex_pre)) [1%Z; 2%Z; 3%Z; 4%Z] = [true; true; true; true] /\
  filter (fun f => match f with OResp _ _ => true | _ => false end) (out (run ex_cfg ex_evs)) =
    [OResp (IInt 4) (PError code_cancelled); OResp (IInt 5) (PResult VNull); OResp (IInt 3) (PResult (VInt 13%Z));
     OResp (IInt 1) (PError code_cancelled); OResp (IInt 2) (PError code_cancelled)] /\
  (* after the shutdown event only the admitted notification handler starts *)
  starts (skipn (length (hlog (run ex_cfg (ex_pre ++ [Recv (shutdown_request (IInt 5) None)])))) (hlog (run ex_cfg ex_evs)))
    = [(WNot 7, PUser)] /\
  outg (run ex_cfg ex_evs) = [OCancelled] /\
  (* then exit: status 0; without the shutdown request: status 1 *)
  exit (run ex_cfg (ex_evs ++ [Recv (FNotif true 9 POk (NExit None))])) = Some 0%Z /\
  status StartIoAsync ex_cfg (ex_evs ++ [Recv (FNotif true 9 POk (NExit None))]) = Some 0%Z /\
  status StartTcp ex_cfg (ex_pre ++ [Recv (FNotif true 9 POk (NExit None))]) = Some 1%Z.
Proof.
  unfold outside_f18. vm_compute. repeat split.
  repeat (constructor; [cbn; intuition discriminate|]). constructor.
Qed.

(* An OUTSTANDING OUTGOING request at shutdown: cancel() is called on its future (clause (2)), but nobody
   pops its entry of the in-flight table - only the response would, and a response that arrives after
   the flag is set is dropped by the gate like any other frame that is not `exit` (clause (4),
   `gate_recv` / `gate_recv_futs`: "no request or notification other than exit reaches any handler",
   here applied to a response: _handle_response is a handler too).  The entry therefore stays until the
   process exits; the response still consumes its `_result_types` entry (that happens while the frame is
   deserialised, before the gate).  The real endpoint does the same (corpus/C09, last sched case). *)
Example C09_outgoing_entry_remains :
  let c := mkCfg WBlocking HookDefault None in
  let o := IStr [111%N] in
  let pre := [UserSend o; Recv (shutdown_request (IInt 1) None)] in
  let evs := pre ++ [Recv (FResp true o false POk)] in
  map fst (futs (run c pre)) = [o] /\ outg (run c pre) = [OCancelled] /\ map fst (rtypes (run c pre)) = [o] /\
  map fst (futs (run c evs)) = [o] /\ outg (run c evs) = [OCancelled] /\ rtypes (run c evs) = [] /\
  out (run c evs) = out (run c pre) /\ hlog (run c evs) = hlog (run c pre) /\ errs (run c evs) = errs (run c pre) /\
  quiescent (run c evs) = true.
Proof. vm_compute. repeat split. Qed.

(* awaitable close: the status is decided when `exit` is handled, not when the process exits *)
Example C09_awaitable_first_exit_wins :
  let c := mkCfg WAwaitable HookQuiet None in
  let evs := [Recv (FNotif true 1 POk (NExit None)); Recv (shutdown_request (IInt 1) None);
              Recv (FNotif true 2 POk (NExit None)); WriteStep; ExitCb] in
  exit_ref evs = Some 1%Z /\ exit (run c evs) = Some 1%Z /\ shutdown (run c evs) = true.
Proof. vm_compute. repeat split. Qed.

(* The executable reference used by the correspondence run is the function the clauses speak of:
   the flag is raised by the first accepted shutdown request and by nothing else, the status is
   decided once, by the first `exit` notification that reaches its handler, from the flag at that
   moment; and the model agrees with it for every configuration. *)
Theorem C09_reference_agrees :
  (forall evs e, exit_ref (evs ++ [e]) =
     match exit_ref evs with
     | Some rc => Some rc
     | None => match e with
               | Recv f => if exit_frame f then Some (if shut_ref evs then 0%Z else 1%Z) else None
               | _ => None
               end
     end) /\
  (forall evs e, shut_ref (evs ++ [e]) =
     match exit_ref evs with
     | Some _ => shut_ref evs
     | None => shut_ref evs || match e with Recv f => shutdown_frame f | _ => false end
     end) /\
  (forall c evs, (forall rc, exit (run c evs) = Some rc -> exit_ref evs = Some rc) /\
                 (exit_ref evs = None -> shutdown (run c evs) = shut_ref evs)).
Proof.
  split; [|split].
  - intros evs e. unfold exit_ref, shut_ref, x_run. rewrite fold_left_app. cbn [fold_left].
    set (x := fold_left x_step evs x_init). unfold x_step. destruct (x_exit x) eqn:XE; [exact XE|].
    destruct e as [f| | | | | | |]; try exact XE.
    destruct f as [|v i ps m|v tag ps m|v i iserr ps]; cbn [exit_frame]; try exact XE.
    + destruct v; [|exact XE]. destruct ps; try exact XE. reflexivity.
    + destruct v; [|exact XE]. destruct ps; try exact XE. destruct m; try exact XE. reflexivity.
  - intros evs e. unfold exit_ref, shut_ref, x_run. rewrite fold_left_app. cbn [fold_left].
    set (x := fold_left x_step evs x_init). unfold x_step. destruct (x_exit x) eqn:XE; [reflexivity|].
    destruct e as [f| | | | | | |]; try (rewrite orb_false_r; reflexivity).
    destruct f as [|v i ps m|v tag ps m|v i iserr ps]; cbn [shutdown_frame]; try (rewrite orb_false_r; reflexivity).
    + destruct v; [|rewrite orb_false_r; reflexivity]. destruct ps; try (rewrite orb_false_r; reflexivity). reflexivity.
    + destruct v; [|rewrite orb_false_r; reflexivity]. destruct ps; try (rewrite orb_false_r; reflexivity).
      destruct m; cbn [x_shut]; rewrite orb_false_r; reflexivity.
  - intros c evs. split; [intros rc E; eapply exit_sound; exact E|apply flag_is_reference].
Qed.
Print Assumptions C09_reference_agrees.
