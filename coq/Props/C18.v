(* C18 - Paths and file URIs convert back and forth losslessly.
   Model: Model/Uris.v (pygls/uris.py, POSIX branch, after the repair of the bare "//host"
   ValueError, DESIGN section 6 row 2).  Reference: Spec/UrisSpec.v (norm, RFC 3986 split,
   strict percent-decoding, canonical encoding).
   Open finding at this commit: F22 (a path with an EMPTY authority, "//" or "///...", loses it). *)
From Coq Require Import NArith List Bool.
From Pygls Require Import Base.Unicode Model.Uris Spec.UrisSpec Proofs.UrisProofs.
Open Scope N_scope.

(* The statement, parameterised by the class of absolute paths it is claimed for. *)
Definition C18_gen (G : list N -> Prop) : Prop :=
  (* (i) quote/unquote: for every string of scalar values quote succeeds, its result is ASCII and
     consists of unreserved characters, "/", "%" (hex digits are unreserved), and unquote inverts it *)
  (forall s, forallb scalar s = true ->
     exists q, quote s = Ret q /\ unquote q = s /\ ascii_str q = true /\
               forallb (fun c => unreserved c || (c =? 47) || (c =? 37)) q = true) /\
  (* (ii) every absolute path (any length, any scalar values) *)
  (forall p, abs_path p = true -> G p ->
     exists u,
       (* a URI is produced, and converting it back gives the path up to the documented normalisations *)
       from_fs_path (Some p) = Ret (Some u) /\
       to_fs_path (Some u) = Ret (Some (norm p)) /\
       (* the URI is pure ASCII: unreserved characters, "/", ":", "%" only *)
       ascii_str u = true /\ forallb uri_char u = true /\
       (* under RFC 3986 it splits into scheme file, the authority and exactly that path (their
          percent-decodings are the UTF-8 of the host and of the path part), no query, no fragment *)
       (exists a q, rfc3986_split u = mk_parts (Some s_file_scheme) (Some a) q None None /\
                    pct_decode a = Some (utf8_enc_all (norm_host p)) /\
                    pct_decode q = Some (utf8_enc_all (norm_path p))) /\
       (* URI -> path -> URI is the identity on URIs produced this way *)
       from_fs_path (Some (norm p)) = Ret (Some u)) /\
  (* (iii) a URI with a non-file scheme gives None and does not raise; so does a missing argument *)
  (forall u, plain_uri u = true -> scheme_is_file u = false -> to_fs_path (Some u) = Ret None) /\
  to_fs_path None = Ret None /\ from_fs_path None = Ret None.

Definition C18_statement : Prop := C18_gen (fun _ => True).

(* what is proved: everything, for every absolute path whose authority is not empty *)
Definition C18_partial_statement : Prop := C18_gen (fun p => empty_authority p = false).

Theorem C18_partial : C18_partial_statement.
Proof.
  unfold C18_partial_statement, C18_gen. split; [|split; [|split; [exact nonfile_none|exact none_none]]].
  - intros s Hs. destruct (unquote_quote s Hs) as (q & Hq & Hu). exists q.
    destruct (quote_ascii_unreserved s q Hq) as [Hc Ha]. repeat split; assumption.
  - intros p Ha Ge.
    assert (G : guard p = true) by (unfold guard; rewrite Ha, Ge; reflexivity).
    exists (spec_uri p). destruct (spec_uri_chars p Ha) as [Hc Hasc].
    split; [apply from_fs_path_spec, G|].
    split; [apply to_fs_path_spec, G|].
    split; [exact Hasc|]. split; [exact Hc|].
    split; [apply rfc_split_of_output, Ha|].
    rewrite (uri_roundtrip p G). apply from_fs_path_spec, G.
Qed.
Print Assumptions C18_partial.

(* F22: "///x" -> "file:///x" -> "/x": the empty authority is lost *)
Theorem C18_refuted_empty_authority :
  exists p u, abs_path p = true /\ from_fs_path (Some p) = Ret (Some u) /\
              to_fs_path (Some u) <> Ret (Some (norm p)).
Proof. exists [47; 47; 47; 120], [102; 105; 108; 101; 58; 47; 47; 47; 120]. vm_compute. repeat split; discriminate. Qed.

(* F22, second shape: "////" -> "file://" (not even the path survives) -> "" *)
Theorem C18_refuted_empty_authority_4 :
  from_fs_path (Some [47; 47; 47; 47]) = Ret (Some [102; 105; 108; 101; 58; 47; 47]) /\
  to_fs_path (Some [102; 105; 108; 101; 58; 47; 47]) = Ret (Some []) /\
  norm [47; 47; 47; 47] = [47; 47; 47; 47].
Proof. vm_compute. repeat split. Qed.

Theorem C18_refuted : ~ C18_statement.
Proof.
  intros (_ & H & _). destruct (H [47; 47; 47; 120] eq_refl I) as (u & Hf & Ht & _).
  vm_compute in Hf. injection Hf as <-. vm_compute in Ht. discriminate.
Qed.
Print Assumptions C18_refuted.

(* the guard excludes exactly that class: "//" alone or a path that starts with "///" *)
Theorem C18_guard_class p : abs_path p = true ->
  (empty_authority p = true <->
   p = [47; 47] \/ exists r, p = 47 :: 47 :: 47 :: r).
Proof.
  intros _. unfold empty_authority, unc_parts. destruct p as [|a [|b r]].
  - split; [discriminate|intros [E|(r & E)]; discriminate].
  - split; [discriminate|intros [E|(r & E)]; discriminate].
  - destruct ((a =? 47) && (b =? 47)) eqn:E.
    + apply andb_true_iff in E. destruct E as [Ea Eb]. apply N.eqb_eq in Ea, Eb. subst a b.
      destruct r as [|c r]; [split; [left; reflexivity|reflexivity]|].
      cbn [upto_slash]. destruct (c =? 47) eqn:Ec.
      * apply N.eqb_eq in Ec. subst c. split; [right; exists r; reflexivity|reflexivity].
      * destruct (upto_slash r) as [h t]. split; [discriminate|].
        intros [E|(r' & E)]; [discriminate|]. injection E as -> _. discriminate.
    + split; [discriminate|]. intros [E'|(r' & E')]; injection E' as -> ->; discriminate.
Qed.

(* Non-vacuity: "//h/C:/a b%<e-acute>" has an authority, a drive letter and characters that must be
   encoded; the guard holds and the three conversions give what the statement says *)
Example C18_nonvacuous :
  let p := [47; 47; 104; 47; 67; 58; 47; 97; 32; 98; 37; 233] in
  abs_path p = true /\ empty_authority p = false /\
  from_fs_path (Some p) =
    Ret (Some [102;105;108;101;58;47;47;104;47;99;58;47;97;37;50;48;98;37;50;53;37;67;51;37;65;57]) /\
  norm p = [47; 47; 104; 47; 99; 58; 47; 97; 32; 98; 37; 233] /\
  norm [47; 67; 58; 47; 120] = [99; 58; 47; 120] /\
  norm [47; 47; 104; 111; 115; 116] = [47; 47; 104; 111; 115; 116; 47] /\
  plain_uri [104; 116; 116; 112; 58; 47; 47; 104; 47; 120] = true /\
  scheme_is_file [104; 116; 116; 112; 58; 47; 47; 104; 47; 120] = false.
Proof. vm_compute. repeat split. Qed.

(* Repaired defect (DESIGN section 6 row 2): a bare "//host" now yields "file://host/" *)
Example C18_bare_host :
  from_fs_path (Some [47; 47; 104; 111; 115; 116]) =
  Ret (Some [102; 105; 108; 101; 58; 47; 47; 104; 111; 115; 116; 47]).
Proof. vm_compute. reflexivity. Qed.

(* Outside the statement ("http://[" is not a URI: brackets only delimit IP literals), recorded:
   urllib rejects an unbalanced bracket in the authority with ValueError whatever the scheme *)
Example C18_bracket_raises :
  to_fs_path (Some [104; 116; 116; 112; 58; 47; 47; 91]) = Raise ValueError /\
  plain_uri [104; 116; 116; 112; 58; 47; 47; 91] = false.
Proof. vm_compute. split; reflexivity. Qed.

(* The executable reference of the correspondence run: for a path case the expected observation
   is (spec_uri p, norm p, spec_uri p); it satisfies the clauses of (ii) for EVERY absolute path
   (also outside the guard), and under the guard it is what the model computes.  For a URI case
   the expected observation None is clause (iii) verbatim. *)
Theorem C18_reference_agrees : forall p, abs_path p = true ->
  spec_roundtrip p = (spec_uri p, norm p) /\
  ascii_str (spec_uri p) = true /\ forallb uri_char (spec_uri p) = true /\
  (exists a q, rfc3986_split (spec_uri p) = mk_parts (Some s_file_scheme) (Some a) q None None /\
               pct_decode a = Some (utf8_enc_all (norm_host p)) /\
               pct_decode q = Some (utf8_enc_all (norm_path p))) /\
  (guard p = true ->
     from_fs_path (Some p) = Ret (Some (spec_uri p)) /\
     to_fs_path (Some (spec_uri p)) = Ret (Some (norm p)) /\
     from_fs_path (Some (norm p)) = Ret (Some (spec_uri p))).
Proof.
  intros p Ha. destruct (spec_uri_chars p Ha) as [Hc Hasc].
  split; [reflexivity|]. split; [exact Hasc|]. split; [exact Hc|].
  split; [apply rfc_split_of_output, Ha|].
  intros G. split; [apply from_fs_path_spec, G|]. split; [apply to_fs_path_spec, G|].
  rewrite (uri_roundtrip p G). apply from_fs_path_spec, G.
Qed.
Print Assumptions C18_reference_agrees.

(* =====================================================================================
   Extension: uri_with, the IS_WIN branches (model parameter is_win; everything above is the
   is_win = false instance), urlparse / urlunparse / uri_scheme.  Proofs: Proofs/UrisExt.v.
   Open finding candidate: F29 (uri_with drops the authority of a UNC path it is given).
   ===================================================================================== *)
From Pygls Require Import Proofs.UrisExt.

(* the authority a URI should have after its path has been replaced by the filesystem path fp *)
Definition uri_with_host (p fp : list N) : list N :=
  match unc_parts (rooted fp) with Some _ => norm_host (rooted fp) | None => norm_host p end.

(* uri_with on a URI produced from a path p: replace the path by fp and optionally the authority,
   the query and the fragment.  The result is the reference URI; re-parsed, the replaced
   components are the requested ones (the path up to the documented normalisation) and the
   components not named (scheme, authority unless given, empty params) are unchanged. *)
Definition C18_uri_with_gen (G : list N -> Prop) : Prop :=
  forall p fp n q f,
    guard p = true -> forallb scalar fp = true ->
    opt_scalar n = true -> no_slash (opt_or n []) = true -> opt_scalar q = true -> opt_scalar f = true ->
    G fp ->
    uri_with (spec_uri p) None n (Some fp) None q f = Ret (spec_uri_with p fp n q f) /\
    urlparse (spec_uri_with p fp n q f) =
      Ret (s_file, opt_or n (uri_with_host p fp), norm_path (rooted fp), [], opt_or q [], opt_or f []).

Definition C18_uri_with_statement : Prop := C18_uri_with_gen (fun _ => True).
Definition C18_uri_with_partial_statement : Prop :=
  C18_uri_with_gen (fun fp => path_has_authority fp = false).

Theorem C18_uri_with_partial : C18_uri_with_partial_statement.
Proof.
  intros p fp n q f G Hfp Hn Hns Hq Hf Hpa.
  assert (W : with_guard p fp n q f = true)
    by (unfold with_guard; rewrite G, Hfp, Hpa, Hn, Hns, Hq, Hf; reflexivity).
  destruct (uri_with_spec p fp n q f W) as [E1 E2]. split; [exact E1|]. rewrite E2.
  destruct (no_authority_parts fp Hpa) as (_ & _ & EP). rewrite EP.
  unfold uri_with_host. unfold path_has_authority in Hpa.
  destruct (unc_parts (rooted fp)); [discriminate|reflexivity].
Qed.
Print Assumptions C18_uri_with_partial.

(* F29: uri_with("file:///a", path="//host/x") is "file:///x": the host of the new path is dropped *)
Theorem C18_refuted_uri_with_authority :
  uri_with [102;105;108;101;58;47;47;47;97] None None (Some [47;47;104;111;115;116;47;120]) None None None
    = Ret [102;105;108;101;58;47;47;47;120] /\
  spec_uri_with [47;97] [47;47;104;111;115;116;47;120] None None None
    = [102;105;108;101;58;47;47;104;111;115;116;47;120] /\
  from_fs_path (Some [47;47;104;111;115;116;47;120]) = Ret (Some [102;105;108;101;58;47;47;104;111;115;116;47;120]).
Proof. vm_compute. repeat split. Qed.

Theorem C18_uri_with_refuted : ~ C18_uri_with_statement.
Proof.
  intros H.
  destruct (H [47;97] [47;47;104;111;115;116;47;120] None None None eq_refl eq_refl eq_refl eq_refl eq_refl eq_refl I)
    as [E _].
  vm_compute in E. discriminate.
Qed.

(* The rest of the extension holds without exception. *)
Definition C18_ext_statement : Prop :=
  (* uri_with(u, path = to_fs_path(u)) = u for u produced by from_fs_path; the path is mandatory *)
  (forall p, guard p = true ->
     uri_with (spec_uri p) None None (Some (norm p)) None None None = Ret (spec_uri p)) /\
  (forall p s n pa q f, abs_path p = true ->
     uri_with (spec_uri p) s n None pa q f = Raise PlainException) /\
  (* is_win = false is the POSIX model *)
  (forall p, from_fs_path_gen false p = from_fs_path p) /\
  (forall u, to_fs_path_gen false u = to_fs_path u) /\
  (* Windows: both separators are read, the URI is that of the slashed path, backslashes come back;
     c:\far\boo <-> file:///c:/far/boo; the URI is stable *)
  (forall p, win_guard p = true ->
     from_fs_path_gen true (Some p) = Ret (Some (spec_uri (win_slashed p))) /\
     to_fs_path_gen true (Some (spec_uri (win_slashed p))) = Ret (Some (win_norm p)) /\
     from_fs_path_gen true (Some (win_norm p)) = Ret (Some (spec_uri (win_slashed p)))) /\
  (forall u v, to_fs_path (Some u) = Ret (Some v) ->
     to_fs_path_gen true (Some u) = Ret (Some (to_backslash v))) /\
  (* urlunparse (urlparse u) = u and uri_scheme u = "file" for u produced by from_fs_path *)
  (forall p, guard p = true ->
     bind (urlparse (spec_uri p)) (fun '(a, b, c, d, e, f) => urlunparse a b c d e f) = Ret (spec_uri p)) /\
  (forall p, abs_path p = true -> uri_scheme (Some (spec_uri p)) = Ret (Some s_file)) /\
  (* scheme extraction lower-cases (RFC 3986 section 3.1: schemes are case-insensitive) *)
  (forall pre rest, plain_uri (pre ++ 58 :: rest) = true ->
     match pre with c0 :: _ => is_alpha c0 | [] => false end = true -> forallb scheme_char pre = true ->
     uri_scheme (Some (pre ++ 58 :: rest)) = Ret (Some (map lower pre))).

Theorem C18_ext : C18_ext_statement.
Proof.
  exact (conj uri_with_identity (conj uri_with_needs_path (conj from_fs_path_gen_posix
        (conj to_fs_path_gen_posix (conj win_roundtrip (conj win_to_is_posix_backslashed
        (conj unparse_parse (conj uri_scheme_of_output uri_scheme_lowercases)))))))).
Qed.
Print Assumptions C18_ext.

(* The examples pinned by tests/test_uris.py (uri_with; Windows from / to), on the model *)
Example C18_ext_pinned :
  (* uri_with("file:///D:/hello%20world.py", path="D:/hello universe.py") = "file:///d:/hello%20universe.py" *)
  uri_with [102;105;108;101;58;47;47;47;68;58;47;104;101;108;108;111;37;50;48;119;111;114;108;100;46;112;121]
           None None (Some [68;58;47;104;101;108;108;111;32;117;110;105;118;101;114;115;101;46;112;121]) None None None
    = Ret [102;105;108;101;58;47;47;47;100;58;47;104;101;108;108;111;37;50;48;117;110;105;118;101;114;115;101;46;112;121] /\
  (* Windows: "C:\far\space ?boo" -> "file:///c:/far/space%20%3Fboo" -> "c:\far\space ?boo" *)
  from_fs_path_gen true (Some [67;58;92;102;97;114;92;115;112;97;99;101;32;63;98;111;111])
    = Ret (Some [102;105;108;101;58;47;47;47;99;58;47;102;97;114;47;115;112;97;99;101;37;50;48;37;51;70;98;111;111]) /\
  to_fs_path_gen true (Some [102;105;108;101;58;47;47;47;67;58;47;102;97;114;47;115;112;97;99;101;37;50;48;37;51;70;98;111;111])
    = Ret (Some [99;58;92;102;97;114;92;115;112;97;99;101;32;63;98;111;111]) /\
  win_guard [67;58;92;102;97;114;92;115;112;97;99;101;32;63;98;111;111] = true /\
  win_norm [67;58;92;102;97;114;92;115;112;97;99;101;32;63;98;111;111] = [99;58;92;102;97;114;92;115;112;97;99;101;32;63;98;111;111] /\
  (* UNC: "\\host\share\x" <-> "file://host/share/x" *)
  from_fs_path_gen true (Some [92;92;104;111;115;116;92;115;104;97;114;101;92;120])
    = Ret (Some [102;105;108;101;58;47;47;104;111;115;116;47;115;104;97;114;101;47;120]) /\
  win_norm [92;92;104;111;115;116;92;115;104;97;114;101;92;120] = [92;92;104;111;115;116;92;115;104;97;114;101;92;120] /\
  (* the scheme is lower-cased *)
  uri_scheme (Some [70;73;76;69;58;47;47;47;120]) = Ret (Some [102;105;108;101]) /\
  with_guard [47;97] [68;58;47;120] (Some [104]) (Some [113;32]) None = true.
Proof. vm_compute. repeat split. Qed.

(* The expected scheme used by the correspondence run (Spec.spec_scheme: the RFC split's scheme, if
   it is a valid scheme name, in lower case) is what uri_scheme returns on every plain URI. *)
Theorem C18_scheme_reference_agrees : forall u s, plain_uri u = true -> spec_scheme u = Some s ->
  uri_scheme (Some u) = Ret (Some s).
Proof. exact spec_scheme_agrees. Qed.
