(* C18 - Paths and file URIs convert back and forth losslessly.
   Model: Model/Uris.v (pygls/uris.py, POSIX branch, after the repair of the bare "//host"
   ValueError, DESIGN section 6 row 2).  Reference: Spec/UrisSpec.v (norm, RFC 3986 split,
   strict percent-decoding, canonical encoding).
   Open finding at this commit: F22 (a path with an EMPTY authority, "//" or "///...", loses it). *)
From Coq Require Import NArith List Bool.
From Pygls Require Import Base.Unicode Model.Uris Spec.UrisSpec Proofs.UrisProofs.
Open Scope N_scope.

(* The statement, parameterised by the class of absolute paths it is claimed for. *)
Definition C18_gen (G : list N -> Prop) : Prop :=
  (* (i) quote/unquote: for every string of scalar values quote succeeds, its result is ASCII and
     consists of unreserved characters, "/", "%" (hex digits are unreserved), and unquote inverts it *)
  (forall s, forallb scalar s = true ->
     exists q, quote s = Ret q /\ unquote q = s /\ ascii_str q = true /\
               forallb (fun c => unreserved c || (c =? 47) || (c =? 37)) q = true) /\
  (* (ii) every absolute path (any length, any scalar values) *)
  (forall p, abs_path p = true -> G p ->
     exists u,
       (* a URI is produced, and converting it back gives the path up to the documented normalisations *)
       from_fs_path (Some p) = Ret (Some u) /\
       to_fs_path (Some u) = Ret (Some (norm p)) /\
       (* the URI is pure ASCII: unreserved characters, "/", ":", "%" only *)
       ascii_str u = true /\ forallb uri_char u = true /\
       (* under RFC 3986 it splits into scheme file, the authority and exactly that path (their
          percent-decodings are the UTF-8 of the host and of the path part), no query, no fragment *)
       (exists a q, rfc3986_split u = mk_parts (Some s_file_scheme) (Some a) q None None /\
                    pct_decode a = Some (utf8_enc_all (norm_host p)) /\
                    pct_decode q = Some (utf8_enc_all (norm_path p))) /\
       (* URI -> path -> URI is the identity on URIs produced this way *)
       from_fs_path (Some (norm p)) = Ret (Some u)) /\
  (* (iii) a URI with a non-file scheme gives None and does not raise; so does a missing argument *)
  (forall u, plain_uri u = true -> scheme_is_file u = false -> to_fs_path (Some u) = Ret None) /\
  to_fs_path None = Ret None /\ from_fs_path None = Ret None.

Definition C18_statement : Prop := C18_gen (fun _ => True).

(* what is proved: everything, for every absolute path whose authority is not empty *)
Definition C18_partial_statement : Prop := C18_gen (fun p => empty_authority p = false).

Theorem C18_partial : C18_partial_statement.
Proof.
  unfold C18_partial_statement, C18_gen. split; [|split; [|split; [exact nonfile_none|exact none_none]]].
  - intros s Hs. destruct (unquote_quote s Hs) as (q & Hq & Hu). exists q.
    destruct (quote_ascii_unreserved s q Hq) as [Hc Ha]. repeat split; assumption.
  - intros p Ha Ge.
    assert (G : guard p = true) by (unfold guard; rewrite Ha, Ge; reflexivity).
    exists (spec_uri p). destruct (spec_uri_chars p Ha) as [Hc Hasc].
    split; [apply from_fs_path_spec, G|].
    split; [apply to_fs_path_spec, G|].
    split; [exact Hasc|]. split; [exact Hc|].
    split; [apply rfc_split_of_output, Ha|].
    rewrite (uri_roundtrip p G). apply from_fs_path_spec, G.
Qed.
Print Assumptions C18_partial.

(* F22: "///x" -> "file:///x" -> "/x": the empty authority is lost *)
Theorem C18_refuted_empty_authority :
  exists p u, abs_path p = true /\ from_fs_path (Some p) = Ret (Some u) /\
              to_fs_path (Some u) <> Ret (Some (norm p)).
Proof. exists [47; 47; 47; 120], [102; 105; 108; 101; 58; 47; 47; 47; 120]. vm_compute. repeat split; discriminate. Qed.

(* F22, second shape: "////" -> "file://" (not even the path survives) -> "" *)
Theorem C18_refuted_empty_authority_4 :
  from_fs_path (Some [47; 47; 47; 47]) = Ret (Some [102; 105; 108; 101; 58; 47; 47]) /\
  to_fs_path (Some [102; 105; 108; 101; 58; 47; 47]) = Ret (Some []) /\
  norm [47; 47; 47; 47] = [47; 47; 47; 47].
Proof. vm_compute. repeat split. Qed.

Theorem C18_refuted : ~ C18_statement.
Proof.
  intros (_ & H & _). destruct (H [47; 47; 47; 120] eq_refl I) as (u & Hf & Ht & _).
  vm_compute in Hf. injection Hf as <-. vm_compute in Ht. discriminate.
Qed.
Print Assumptions C18_refuted.

(* the guard excludes exactly that class: "//" alone or a path that starts with "///" *)
Theorem C18_guard_class p : abs_path p = true ->
  (empty_authority p = true <->
   p = [47; 47] \/ exists r, p = 47 :: 47 :: 47 :: r).
Proof.
  intros _. unfold empty_authority, unc_parts. destruct p as [|a [|b r]].
  - split; [discriminate|intros [E|(r & E)]; discriminate].
  - split; [discriminate|intros [E|(r & E)]; discriminate].
  - destruct ((a =? 47) && (b =? 47)) eqn:E.
    + apply andb_true_iff in E. destruct E as [Ea Eb]. apply N.eqb_eq in Ea, Eb. subst a b.
      destruct r as [|c r]; [split; [left; reflexivity|reflexivity]|].
      cbn [upto_slash]. destruct (c =? 47) eqn:Ec.
      * apply N.eqb_eq in Ec. subst c. split; [right; exists r; reflexivity|reflexivity].
      * destruct (upto_slash r) as [h t]. split; [discriminate|].
        intros [E|(r' & E)]; [discriminate|]. injection E as -> _. discriminate.
    + split; [discriminate|]. intros [E'|(r' & E')]; injection E' as -> ->; discriminate.
Qed.

(* Non-vacuity: "//h/C:/a b%<e-acute>" has an authority, a drive letter and characters that must be
   encoded; the guard holds and the three conversions give what the statement says *)
Example C18_nonvacuous :
  let p := [47; 47; 104; 47; 67; 58; 47; 97; 32; 98; 37; 233] in
  abs_path p = true /\ empty_authority p = false /\
  from_fs_path (Some p) =
    Ret (Some [102;105;108;101;58;47;47;104;47;99;58;47;97;37;50;48;98;37;50;53;37;67;51;37;65;57]) /\
  norm p = [47; 47; 104; 47; 99; 58; 47; 97; 32; 98; 37; 233] /\
  norm [47; 67; 58; 47; 120] = [99; 58; 47; 120] /\
  norm [47; 47; 104; 111; 115; 116] = [47; 47; 104; 111; 115; 116; 47] /\
  plain_uri [104; 116; 116; 112; 58; 47; 47; 104; 47; 120] = true /\
  scheme_is_file [104; 116; 116; 112; 58; 47; 47; 104; 47; 120] = false.
Proof. vm_compute. repeat split. Qed.

(* Repaired defect (DESIGN section 6 row 2): a bare "//host" now yields "file://host/" *)
Example C18_bare_host :
  from_fs_path (Some [47; 47; 104; 111; 115; 116]) =
  Ret (Some [102; 105; 108; 101; 58; 47; 47; 104; 111; 115; 116; 47]).
Proof. vm_compute. reflexivity. Qed.

(* Outside the statement ("http://[" is not a URI: brackets only delimit IP literals), recorded:
   urllib rejects an unbalanced bracket in the authority with ValueError whatever the scheme *)
Example C18_bracket_raises :
  to_fs_path (Some [104; 116; 116; 112; 58; 47; 47; 91]) = Raise ValueError /\
  plain_uri [104; 116; 116; 112; 58; 47; 47; 91] = false.
Proof. vm_compute. split; reflexivity. Qed.

(* The executable reference of the correspondence run: for a path case the expected observation
   is (spec_uri p, norm p, spec_uri p); it satisfies the clauses of (ii) for EVERY absolute path
   (also outside the guard), and under the guard it is what the model computes.  For a URI case
   the expected observation None is clause (iii) verbatim. *)
Theorem C18_reference_agrees : forall p, abs_path p = true ->
  spec_roundtrip p = (spec_uri p, norm p) /\
  ascii_str (spec_uri p) = true /\ forallb uri_char (spec_uri p) = true /\
  (exists a q, rfc3986_split (spec_uri p) = mk_parts (Some s_file_scheme) (Some a) q None None /\
               pct_decode a = Some (utf8_enc_all (norm_host p)) /\
               pct_decode q = Some (utf8_enc_all (norm_path p))) /\
  (guard p = true ->
     from_fs_path (Some p) = Ret (Some (spec_uri p)) /\
     to_fs_path (Some (spec_uri p)) = Ret (Some (norm p)) /\
     from_fs_path (Some (norm p)) = Ret (Some (spec_uri p))).
Proof.
  intros p Ha. destruct (spec_uri_chars p Ha) as [Hc Hasc].
  split; [reflexivity|]. split; [exact Hasc|]. split; [exact Hc|].
  split; [apply rfc_split_of_output, Ha|].
  intros G. split; [apply from_fs_path_spec, G|]. split; [apply to_fs_path_spec, G|].
  rewrite (uri_roundtrip p G). apply from_fs_path_spec, G.
Qed.
Print Assumptions C18_reference_agrees.
