(* C06 - A bad message is contained and does not disturb its neighbours.

   Models: Model/Framing.v (the three read loops), Model/Endpoint.v (the endpoint after the repairs of
   DESIGN section 6 rows 6, 19, 28: the read loops call the protected hook, failures of async / thread
   handlers, other-version messages and responses to unknown ids are reported), Model/Contain.v (the
   glue: delivery of bodies, which handler the seven call sites pass).  Reference: Spec/ContainSpec.v.

   Vocabulary.  A schedule is a list of marked events; a marked event is the arrival of a frame that
   is to be contained.  `B : who -> bool` names the marked requests (by id) and notifications (by tag).
   `contained B s f` says what may be marked: garbage (undecodable UTF-8, truncated JSON, array, scalar,
   null, object without `jsonrpc`), any message of another version, any request or notification whose
   params do not deserialise, a response to an id nobody is waiting for (unknown or duplicate, result
   or error), and ANY request / notification owned by B except shutdown / exit / $/cancelRequest -
   raising sync / async / thread handlers are the catalogue's instances, but the handler may as well
   succeed: non-interference does not depend on the message being bad.
   `core_of B s` ignores `errs`, the hook's window/showMessage output, the write counter and whatever
   belongs to B (own replies, handler log, tasks, jobs, in-flight entries, queued writes);
   `erase c B evs` is evs without the marked frames and without the steps of B's tasks / jobs /
   writes, indices renumbered; `obs` is the unfiltered observation. *)
From Coq Require Import ZArith NArith List Bool.
From Pygls Require Import Base.Assoc Base.Bytes Model.Endpoint Spec.EndpointSpec Spec.ContainSpec
  Proofs.C06Sim5 Proofs.C06Proofs.
From Pygls Require Model.Framing Spec.FramingSpec Model.Contain.
Import ListNotations.

Definition C06_statement : Prop :=
  (* (i) framing: a frame with an ARBITRARY non-empty body, at any position of a stream of conforming
         frames, for the three readers: every body is delivered exactly, in order; without the frame
         the others are delivered identically; the loop ends normally in both *)
  (forall k ms1 b ms2,
     Forall (FramingSpec.conforming k) ms1 -> FramingSpec.conforming k b -> Forall (FramingSpec.conforming k) ms2 ->
     Framing.loop_whole k Framing.AtEOF (FramingSpec.frames (ms1 ++ b :: ms2)) =
       (FramingSpec.bodies_of ms1 ++ Framing.Body (snd b) :: FramingSpec.bodies_of ms2, Framing.Done Framing.EndedNormally) /\
     Framing.loop_whole k Framing.AtEOF (FramingSpec.frames (ms1 ++ ms2)) =
       (FramingSpec.bodies_of ms1 ++ FramingSpec.bodies_of ms2, Framing.Done Framing.EndedNormally)) /\
  (* (ii) non-interference, any number of marked frames at any positions, any interleaving: the run
          with them, ignoring what is theirs, is the run without them - in particular `exit` (the only
          way the model's loop stops) is the same: the loop is alive in one iff it is in the other *)
  (forall c B mevs, cfg_ok c = true -> wf c B mevs = true ->
     core_of B (run c (unmark mevs)) = obs (run c (erase c B mevs))) /\
  (* (ii') literally, for a bad frame that owns nothing (garbage, other version, undecodable notification,
           response to an unknown id), between ARBITRARY histories *)
  (forall c evs1 f evs2, cfg_ok c = true -> contained nobody (run c evs1) f = true ->
     core_of nobody (run c (evs1 ++ Recv f :: evs2)) = obs (run c (evs1 ++ evs2))) /\
  (* (iii) each bad message adds exactly one entry to the log of hook calls, of the stated source class:
           at once (`immediate_src`), or - async / thread handlers - when the done-callback runs *)
  (forall c s e src, owed_report s e = Some src -> owed_guard c s e = true ->
     errs (step c s e) = errs s ++ [src]) /\
  (* (iv) a hook that raises is a hook that does nothing, whatever the schedule; and every call site of
          the read loops passes the protected handler, whose call returns for every hook *)
  (forall c evs, c_hook c = HookRaises -> run c evs = run (quiet_of c) evs) /\
  (forall cs k, Contain.handler_call (Contain.passes cs) k = true).

Theorem C06 : C06_statement.
Proof.
  unfold C06_statement.
  split; [exact Fr.neighbours_unchanged_framing|].
  split; [exact noninterference|].
  split; [exact neighbours_unchanged|].
  split; [exact owed_sound|].
  split; [exact hook_raise_contained|exact sites_protected].
Qed.
Print Assumptions C06.

(* ---------------------------------------------------------------- the class that stays open (finding F30)
   The full reading of the property text lets EVERY message of another JSON-RPC version be contained.
   `contained` admits an other-version RESPONSE only for an id nobody is waiting for; when it names an
   outstanding request the faithful model - like the code - pops the request's result type in
   structure_message before the version gate drops the message: the genuine response is then rejected
   and the future stays pending.  C06 above is therefore `C06_partial`: the statement under the
   executable guard `contained` (inside `wf`), which excludes exactly that class (`vresp_known`). *)
Definition contained_full (B : who -> bool) (s : st) (f : frame) : bool := contained B s f || other_version f.

Definition C06_full_statement : Prop :=
  forall c evs1 f evs2, cfg_ok c = true -> contained_full nobody (run c evs1) f = true ->
    core_of nobody (run c (evs1 ++ Recv f :: evs2)) = obs (run c (evs1 ++ evs2)).

Definition f30_cfg : cfg := mkCfg WBlocking HookQuiet None.
Definition f30_id : id := IStr [111;49]%N.

Theorem C06_refuted_version_response :
  let evs1 := [UserSend f30_id] in
  let bad := FResp false f30_id true POk in
  let evs2 := [Recv (FResp true f30_id false POk)] in
  cfg_ok f30_cfg = true /\ contained_full nobody (run f30_cfg evs1) bad = true /\
  vresp_known (run f30_cfg evs1) (true, Recv bad) = true /\
  (* with the bad frame: the genuine response is reported as a failure and the future stays pending *)
  errs (run f30_cfg (evs1 ++ Recv bad :: evs2)) = [EJsonRpc; EJsonRpc] /\
  map fst (futs (run f30_cfg (evs1 ++ Recv bad :: evs2))) = [f30_id] /\
  (* without it: resolved, nothing reported *)
  errs (run f30_cfg (evs1 ++ evs2)) = [] /\ futs (run f30_cfg (evs1 ++ evs2)) = [].
Proof. vm_compute. repeat split. Qed.

Theorem C06_refuted : ~ C06_full_statement.
Proof.
  intro H.
  specialize (H f30_cfg [UserSend f30_id] (FResp false f30_id true POk) [Recv (FResp true f30_id false POk)] eq_refl eq_refl).
  vm_compute in H. discriminate.
Qed.
Print Assumptions C06_refuted.

Definition C06_partial := C06.

(* the guard excludes nothing else of the full statement: an other-version frame that is not a
   response to a waited-for id is contained *)
Lemma contained_full_split : forall B s f, contained_full B s f = true ->
  contained B s f = true \/ vresp_known s (true, Recv f) = true.
Proof.
  intros B s f H. unfold contained_full in H. apply orb_true_iff in H. destruct H as [H|H]; [left; exact H|].
  destruct f as [|v i ps m|v tag ps m|v i iserr ps]; cbn [other_version] in H; try discriminate.
  - destruct v; [discriminate|]. destruct ps; try discriminate. left. reflexivity.
  - destruct v; [discriminate|]. destruct ps; try discriminate. left. reflexivity.
  - destruct v; [discriminate|]. cbn [contained vresp_known]. destruct (unknown_id s i); [left|right]; reflexivity.
Qed.

(* the named obligations of DESIGN Appendix B *)
Definition body_consumed_whatever := Fr.body_consumed_whatever.
Definition bad_step_core := C06Sim4.recv_l.              (* R s s' -> R (recv c bad s) s' *)
Definition step_core_congruence := C06Sim5.step_sim.     (* one event, on the left only or on both sides *)
Definition one_report_each := owed_sound.

(* bytes to endpoint state: (i) and (ii') composed *)
Definition C06_stream := stream_contained.
Print Assumptions C06_stream.

(* loop termination: `exit` is part of the observation *)
Corollary alive_unchanged : forall c B mevs, cfg_ok c = true -> wf c B mevs = true ->
  exit (run c (unmark mevs)) = exit (run c (erase c B mevs)).
Proof. intros c B mevs C W. exact (f_equal k_exit (noninterference c B mevs C W)). Qed.

(* The model has ONE constructor for "the handler raises" (`ORaise`; `ORaiseRpc code` for a JSON-RPC
   error raised on purpose, which keeps its code): Model/Endpoint.v does not look at the class, the
   arguments or the text of the exception.  Clauses (ii)-(iv) therefore SAY that containment does not
   depend on what is raised; that the real code agrees is carried by the tie (harness/c06.py `EXC`):
   every raising member, the chained ones included, is run over 29 exception shapes - no arguments /
   bare assert, several / int / dict / bytes arguments, non-ASCII and multi-line text, the
   ConnectionError family, OSError, TimeoutError, KeyError, IndexError, AttributeError, TypeError,
   ValueError, StopIteration / StopAsyncIteration, an exception whose __str__ raises, __notes__,
   ExceptionGroup, IncompleteReadError, UnicodeDecodeError, RecursionError, MemoryError, PyglsError -
   and six JsonRpcException classes.  Outside "raises" by design: BaseExceptions that are not
   Exceptions (SystemExit - pygls' own exit path -, KeyboardInterrupt, GeneratorExit,
   asyncio.CancelledError); what the code does with them is probed and recorded in the evidence, not
   judged (finding candidates F31, F32 in notes/findings_C06.json). *)

(* ---------------------------------------------------------------- the catalogue and its reports *)
Definition b_raise (k : kind) : behav := mkB k ORaise Propagate.
Definition b_rpc (k : kind) : behav := mkB k (ORaiseRpc (-32001)) Propagate.
Definition rq (m : rmethod) : frame := FReq true (IInt 1000) POk m.
Definition nt (m : nmethod) : frame := FNotif true 500 POk m.

Example catalogue_reports :
  map immediate_src
    [ FGarbage;
      FReq false (IInt 1000) POk (RUser (mkB HSync (ORet 1) Propagate)); FNotif false 500 POk NUnknown;
      FResp false (IStr [122;122]%N) true POk;
      FReq true (IInt 1000) PBad RUnknown; FReq true (IInt 1000) PFail RUnknown;
      FNotif true 500 PBad NUnknown; FNotif true 500 PFail NUnknown;
      FResp true (IInt 901) false POk; FResp true (IStr [122;122]%N) true POk; FResp true (IInt 901) true PBad;
      rq (RUser (b_raise HSync)); rq (RUser (b_rpc HSync)); rq (RUser (b_raise (HThread true)));
      rq RUnknown; rq (RCommand None None); rq (RBuiltin true None);
      nt (NUser (b_raise HSync)); nt (NUser (b_rpc (HThread true))); nt (NBuiltin true None) ]
  = [ Some EJsonRpc; Some EJsonRpc; Some EJsonRpc; Some EJsonRpc; Some EJsonRpc; Some EJsonRpc; Some EJsonRpc;
      Some EJsonRpc; Some EJsonRpc; Some EJsonRpc; Some EJsonRpc;
      Some EFeatureRequest; Some EFeatureRequest; Some EFeatureRequest; Some EFeatureRequest; Some EFeatureRequest;
      Some EFeatureRequest;
      Some EFeatureNotification; Some EFeatureNotification; Some EFeatureNotification ] /\
  (* async / thread (not early) raising handlers and an unknown-method NOTIFICATION owe nothing at once *)
  map immediate_src [ rq (RUser (b_raise (HAsync 2))); rq (RUser (b_rpc (HThread false)));
                      nt (NUser (b_raise (HAsync 0))); nt (NUser (b_raise (HThread false))); nt NUnknown ]
  = [None; None; None; None; None].
Proof. split; reflexivity. Qed.

(* ---------------------------------------------------------------- non-vacuity *)
(* an async request in flight across: an async request that raises (marked, its own task, reply and
   report), garbage, a thread notification that raises (marked), an undecodable request (marked);
   a cancel and a shutdown among the good messages; raising hook *)
Definition ex_cfg : cfg := mkCfg WBlocking HookRaises None.
Definition ex_B : who -> bool := in_set [WReq (IInt 1000); WNot 500; WReq (IStr [98;49]%N)].
Definition ex_mevs : list (bool * ev) :=
  [ (false, Recv (FReq true (IInt 1) POk (RUser (mkB (HAsync 2) (ORet 7) Propagate))));
    (true,  Recv (FReq true (IInt 1000) POk (RUser (b_raise (HAsync 1)))));
    (false, TaskStep 0); (false, TaskStep 1);
    (true,  Recv FGarbage);
    (true,  Recv (FNotif true 500 POk (NUser (b_rpc (HThread false)))));
    (false, JobStart 0); (false, TaskStep 1);
    (false, Recv (FReq true (IInt 2) POk (RUser (mkB (HThread false) (ORet 5) Propagate))));
    (false, LoopCb 1); (false, TaskStep 0); (false, JobFinish 0); (false, JobStart 1);
    (true,  Recv (FReq true (IStr [98;49]%N) PBad RUnknown));
    (false, Recv (FNotif true 3 POk (NCancel (IInt 1))));
    (false, JobFinish 1); (false, TaskStep 0); (false, LoopCb 0);
    (false, Recv (FReq true (IInt 3) POk (RShutdown None))) ].

Example C06_nonvacuous :
  cfg_ok ex_cfg = true /\ wf ex_cfg ex_B ex_mevs = true /\
  erase ex_cfg ex_B ex_mevs =
    [ Recv (FReq true (IInt 1) POk (RUser (mkB (HAsync 2) (ORet 7) Propagate)));
      TaskStep 0;
      Recv (FReq true (IInt 2) POk (RUser (mkB (HThread false) (ORet 5) Propagate)));
      TaskStep 0; JobStart 0;
      Recv (FNotif true 3 POk (NCancel (IInt 1)));
      JobFinish 0; TaskStep 0; LoopCb 0;
      Recv (FReq true (IInt 3) POk (RShutdown None)) ] /\
  errs (run ex_cfg (unmark ex_mevs)) = [EJsonRpc; EFeatureRequest; EFeatureNotification; EJsonRpc] /\
  errs (run ex_cfg (erase ex_cfg ex_B ex_mevs)) = [] /\
  filter (vis ex_B) (out (run ex_cfg (unmark ex_mevs))) =
    [OResp (IInt 2) (PResult (VInt 5)); OResp (IInt 1) (PError code_cancelled); OResp (IInt 3) (PResult VNull)] /\
  exit (run ex_cfg (unmark ex_mevs)) = None.
Proof. vm_compute. repeat split. Qed.

(* the hypotheses of (ii') and (iii) are satisfiable: a duplicate of an answered response *)
Example C06_nonvacuous_duplicate :
  let evs1 := [UserSend (IInt 900); Recv (FResp true (IInt 900) true POk)] in
  contained nobody (run ex_cfg evs1) (FResp true (IInt 900) true POk) = true /\
  owed_report (run ex_cfg evs1) (Recv (FResp true (IInt 900) true POk)) = Some EJsonRpc /\
  owed_guard ex_cfg (run ex_cfg evs1) (Recv (FResp true (IInt 900) true POk)) = true.
Proof. vm_compute. repeat split. Qed.

(* ---------------------------------------------------------------- what lies outside, pinned *)
(* (a) Clause (ii) excludes the pair (awaitable writer, default hook): the hook's showMessage queues
   behind the awaitable writes, so the SAME schedule flushes one frame less; nothing is lost - one
   more WriteStep restores the equality.  (iii) and (iv) hold there. *)
Example C06_outside_awaitable_default :
  let c := mkCfg WAwaitable HookDefault None in
  let good := Recv (FReq true (IInt 1) POk (RUser (mkB HSync (ORet 5) Propagate))) in
  cfg_ok c = false /\
  core_of nobody (run c [Recv FGarbage; good; WriteStep]) <> obs (run c [good; WriteStep]) /\
  core_of nobody (run c [Recv FGarbage; good; WriteStep; WriteStep]) = obs (run c [good; WriteStep]).
Proof. split; [reflexivity|]. split; [intro H; vm_compute in H; discriminate|vm_compute; reflexivity]. Qed.

(* (b) A header LINE is not "a frame whose body is ...": a header line longer than the StreamReader's
   limit (or a Content-Length of more than 4300 digits) raises ValueError out of the loop (C02's
   `C02_outside_limit`); the frames behind it are not delivered.  The blocking readers have no limit. *)
Example C06_outside_header_limit :
  let good := (FramingSpec.LCl, [123;125]%N) in
  Framing.loop_whole (Framing.Stream 20) Framing.AtEOF
    (FramingSpec.frames [good; (FramingSpec.LClCt (repeat 120%N 30), [123;125]%N); good])
    = ([Framing.Body [123;125]%N], Framing.Done (Framing.Raised Framing.ELimit)) /\
  Framing.loop_whole Framing.Sync Framing.AtEOF
    (FramingSpec.frames [good; (FramingSpec.LClCt (repeat 120%N 30), [123;125]%N); good])
    = ([Framing.Body [123;125]%N; Framing.Body [123;125]%N; Framing.Body [123;125]%N], Framing.Done Framing.EndedNormally).
Proof. split; vm_compute; reflexivity. Qed.

(* (c) the code before repair row 6 handed the bare hook to the loops: its call does not return *)
Example C06_pinned_bare_handler : Contain.handler_call Contain.HBare HookRaises = false.
Proof. reflexivity. Qed.

(* (d) an unknown-method NOTIFICATION is not a failure: no report, nothing changes *)
Example C06_unknown_notification : forall c s, exit s = None -> shutdown s = false ->
  step c s (Recv (FNotif true 1 POk NUnknown)) = s.
Proof. intros c s E S. unfold step. rewrite E. cbn [recv negb]. rewrite S. reflexivity. Qed.
