(* C13 - Typed payloads survive the wire for every LSP method.
   Model: Model/Registry.v (structure_message, handle_message, _dict_to_object, notify,
   send_request, _send_response, the helper-name rule); the lsprotocol/cattrs converter is the
   parameter `structure` of every clause (an oracle: exercised by the correspondence run, not
   proved).  Tables: Gen/MethodRegistry.v and Gen/Helpers.v, regenerated on every run.
   Open findings at this commit (DESIGN section 6 row 23, all reproduced on the implementation):
     F23a  a top-level member `type_name` of a generic payload is swallowed / rejected
     F23b  any nested object with a `jsonrpc` member is structured as a message
     F23c  array-valued generic payloads keep dict leaves
     F23d  (new) for registry methods the class, hence the route, follows the registry's kind of
           the method, not the id member. *)
From Coq Require Import NArith ZArith List Bool String.
From Pygls Require Import Base.JsonVal Model.Registry Spec.RegistrySpec Proofs.RegistryProofs
                          Gen.MethodRegistry Gen.Helpers.
Open Scope N_scope.

(* r is a message object of class t *)
Definition is_message {obj} (r : smres obj) (t : mtype) : Prop :=
  (exists c fields, r = SMGeneric c fields /\ t = TGeneric c) \/ (exists o, r = SMTyped t o).

(* The statement, parameterised by the input classes it is claimed for. *)
Definition C13_gen (Gconsistent : mtype -> list (list N * pval) -> Prop)
                   (Gnested : json -> Prop) (Ggeneric : json -> Prop) : Prop :=
  (* (i) classification: the JSON-RPC 2.0 reading of the three members ... *)
  (forall i m e k, spec_kind i m e = Some k -> classify i m e = k) /\
  (* ... and it is where handle_message sends the object, whatever else the object contains *)
  (forall obj structure reg st data st' (r : smres obj) t,
     structure_message obj structure reg st data = (st', r) -> is_message r t ->
     Gconsistent t data ->
     handle_branch (shape_of t)
     = classify (amem k_id data) (amem k_method data) (amem k_error data)) /\
  (* ... by the PRESENCE of the id member, never by its value (0, "", null, "0", 2^53, ...) *)
  (forall (v : pval) data,
     classify (amem k_id (aset k_id v data)) (amem k_method (aset k_id v data))
              (amem k_error (aset k_id v data))
     = classify true (amem k_method data) (amem k_error data)) /\
  (* (ii) registry methods: the handler gets structure(METHOD_TO_TYPES[m][0], wire JSON) ... *)
  (forall obj structure reg st kvs data m r (o : obj),
     Gnested (JObj kvs) ->
     embed (JObj kvs) = PDict data ->
     aget k_jsonrpc data = Some (PStr s_version) -> amem k_error data = false ->
     aget k_method data = Some (PStr m) -> find_method reg m = Some r ->
     m_request r = amem k_id data ->
     structure (m_msg_type r) (embed (JObj kvs)) = SOk o ->
     receive obj structure reg st (JObj kvs) =
       (st, if m_request r
            then ORequest (match aget k_id data with Some i => i | None => PNull end)
                          (MTyped (TRegistryMsg r) o)
            else ONotification (MTyped (TRegistryMsg r) o))) /\
  (* ... at its place in a stream of frames, whatever frames (good, rejected, undecodable) precede it *)
  (forall obj structure reg st pre post kvs data m r (o : obj),
     Gnested (JObj kvs) ->
     embed (JObj kvs) = PDict data ->
     aget k_jsonrpc data = Some (PStr s_version) -> amem k_error data = false ->
     aget k_method data = Some (PStr m) -> find_method reg m = Some r ->
     m_request r = amem k_id data ->
     structure (m_msg_type r) (embed (JObj kvs)) = SOk o ->
     nth_error (receive_stream obj structure reg st (pre ++ FJson (JObj kvs) :: post)) (length pre)
     = Some (if m_request r
             then ORequest (match aget k_id data with Some i => i | None => PNull end)
                           (MTyped (TRegistryMsg r) o)
             else ONotification (MTyped (TRegistryMsg r) o))) /\
  (* ... also when pygls has a built-in handler for the method: the user's feature is called once,
     after the built-in, with that same object (built-ins do not write to params) *)
  (forall obj bst (builtin : list N -> obj -> bst -> bst) hb m p s,
     snd (call_user_feature obj bst builtin hb true m p s)
     = (if hb then [CBuiltin m p] else []) ++ [CUser m p]) /\
  (* ... and the reply to a request is structured with the result type of the REQUESTED method,
     whatever was sent or received under other ids in between *)
  (forall obj structure reg st m i st1 has_id m' ty evs data,
     valid_id i = true -> send_request reg st m i = (st1, Sent has_id m' ty) ->
     forallb (other_id i) evs = true ->
     amem k_jsonrpc data = true -> aget k_id data = Some i ->
     amem k_error data = false -> aget k_method data = None ->
     snd (structure_message obj structure reg (fold_left (ev_step obj structure reg) evs st1) data) =
       run_structure obj structure
         (match get_result_type reg m with Some t => TRegistryRes t | None => TGeneric GResponse end)
         data) /\
  (* (iii) unknown methods: every path of identifier-named members (and array indices) to a
     scalar of the payload leads, by attribute access / indexing, to that scalar in the object
     _dict_to_object builds - at every depth *)
  (forall payload, wf_json payload = true -> Ggeneric payload ->
     exists o, dict_to_object (embed payload) = SOk o /\
               forall p leaf, In (p, leaf) (spec_leaves payload) -> pget o p = Some (embed leaf)) /\
  (* ... and that object is what the handler of an unknown method is given for the wire params *)
  (forall obj structure reg st kvs data m pv o,
     Gnested (JObj kvs) ->
     embed (JObj kvs) = PDict data ->
     aget k_jsonrpc data = Some (PStr s_version) -> amem k_error data = false ->
     aget k_method data = Some (PStr m) -> find_method reg m = None ->
     aget k_params data = Some pv -> dict_to_object pv = SOk o ->
     forallb (fun k => mem_str k [k_id; k_method; k_jsonrpc; k_params]) (akeys data) = true ->
     receive obj structure reg st (JObj kvs) =
       (st, match aget k_id data with
            | Some i => ORequest i (MGeneric GRequest
                          [(k_id, i); (k_method, PStr m); (k_jsonrpc, PStr s_version); (k_params, o)])
            | None => ONotification (MGeneric GNotification
                          [(k_method, PStr m); (k_jsonrpc, PStr s_version); (k_params, o)])
            end)) /\
  (* (iv) finite, about the regenerated tables: every helper stands for a registry method of its
     side with the right entry point and the prescribed name; every method has its helpers;
     the _async variant of a helper names the same method *)
  (forall h, In h helper_table -> helper_sound method_registry h) /\
  (forall m s, In m method_registry -> dir_ok s (m_dir m) = true ->
     method_has_helpers helper_table s m) /\
  (forall h, In h helper_table -> h_kind h = HSendRequestAsync ->
     exists h', In h' helper_table /\ h_side h' = h_side h /\ h_method h' = h_method h /\
                h_kind h' = HSendRequest /\ h_name h = h_name h' ++ s_async).

Definition C13_statement : Prop :=
  C13_gen (fun _ _ => True) (fun _ => True) (fun _ => True).

Definition C13_partial_statement : Prop :=
  C13_gen consistent (fun w => nested_jsonrpc w = false) (fun p => generic_guard p = true).

(* the regenerated instance: re-checked by the kernel on every run *)
Theorem helpers_ok_current : helpers_ok method_registry helper_table = true.
Proof. vm_compute. reflexivity. Qed.

Theorem C13_partial : C13_partial_statement.
Proof.
  unfold C13_partial_statement, C13_gen.
  destruct (helpers_ok_sound _ _ helpers_ok_current) as (A & B & C).
  repeat split.
  - exact classify_agrees_jsonrpc.
  - intros. eapply route_is_classify; eassumption.
  - exact id_presence_not_value.
  - intros. eapply handler_gets_structure; eassumption.
  - intros. eapply stream_frame_delivered; eassumption.
  - intros. apply user_feature_gets_params.
  - intros. eapply reply_structured_as_requested; eassumption.
  - intros. apply generic_leaves_reachable; assumption.
  - intros. eapply generic_handler_gets_object; eassumption.
  - exact A.
  - exact B.
  - exact C.
Qed.
Print Assumptions C13_partial.

(* ---------- refutation witnesses (each is the finding, replayed on the model) ---------- *)
Definition S (x : string) : list N := lit x.
Definition jobj (l : list (string * json)) : json := JObj (map (fun kv => (lit (fst kv), snd kv)) l).

(* F23a: {"type_name": "Foo", "a": 1}: the member type_name is not there any more *)
Definition w_type_name : json := jobj [("type_name", JStr (S "Foo")); ("a", JNum 1)]%string.
Theorem C13_refuted_type_name :
  wf_json w_type_name = true /\
  In ([Key (S "type_name")], JStr (S "Foo")) (spec_leaves w_type_name) /\
  exists o, dict_to_object (embed w_type_name) = SOk o /\ pget o [Key (S "type_name")] = None.
Proof. split; [reflexivity|split; [vm_compute; auto|]]. eexists. split; vm_compute; reflexivity. Qed.

(* F23c: [{"a": 1}]: the dict inside the array has no attribute a *)
Definition w_array : json := JArr [jobj [("a", JNum 1)]%string].
Theorem C13_refuted_array_params :
  wf_json w_array = true /\ In ([Idx 0; Key (S "a")], JNum 1) (spec_leaves w_array) /\
  exists o, dict_to_object (embed w_array) = SOk o /\ pget o [Idx 0; Key (S "a")] = None.
Proof. split; [reflexivity|split; [vm_compute; auto|]]. eexists. split; vm_compute; reflexivity. Qed.

(* a one-row registry and the identity converter are enough for the next two *)
Definition row_config : mrow :=
  mk_mrow (S "workspace/didChangeConfiguration") false ClientToServer
          (S "DidChangeConfigurationNotification") None (Some (S "DidChangeConfigurationParams")).
Definition row_did_open : mrow :=
  mk_mrow (S "textDocument/didOpen") false ClientToServer
          (S "DidOpenTextDocumentNotification") None (Some (S "DidOpenTextDocumentParams")).
Definition id_structure (ty : list N) (v : pval) : sres pval := SOk v.

(* F23b: the settings of workspace/didChangeConfiguration have a member "jsonrpc": what the
   converter (hence the handler) is given is NOT the wire JSON - settings is a message object *)
Definition w_nested : json :=
  jobj [("jsonrpc", JStr (S "2.0")); ("method", JStr (S "workspace/didChangeConfiguration"));
        ("params", jobj [("settings", jobj [("jsonrpc", JStr (S "2.0")); ("method", JStr (S "m"))])])]%string.
Theorem C13_refuted_nested_jsonrpc :
  nested_jsonrpc w_nested = true /\
  snd (receive pval id_structure [row_config] st0 w_nested)
  <> ONotification (MTyped (TRegistryMsg row_config) (embed w_nested)) /\
  (* for an unknown method the whole frame is rejected *)
  snd (receive pval id_structure [] st0
         (jobj [("jsonrpc", JStr (S "2.0")); ("method", JStr (S "x/unknown"));
                ("params", jobj [("s", jobj [("jsonrpc", JStr (S "2.0")); ("method", JStr (S "m"))])])]%string))
  = ORejected (-32603) [].
Proof. split; [reflexivity|split; [vm_compute; intro H; discriminate H|vm_compute; reflexivity]]. Qed.

(* F23d: {"jsonrpc": "2.0", "id": 1, "method": "textDocument/didOpen"} has id and method - a
   request by its members - and is handled as a notification (never answered) *)
Definition d_mismatch : list (list N * pval) :=
  [(k_jsonrpc, PStr s_version); (k_id, PNum 1); (k_method, PStr (S "textDocument/didOpen"))].
Theorem C13_refuted_kind_mismatch :
  exists st' o,
    structure_message pval id_structure [row_did_open] st0 d_mismatch
    = (st', SMTyped (TRegistryMsg row_did_open) o) /\
    classify (amem k_id d_mismatch) (amem k_method d_mismatch) (amem k_error d_mismatch) = KRequest /\
    handle_branch (shape_of (TRegistryMsg row_did_open)) = KNotification.
Proof. eexists. eexists. split; [vm_compute; reflexivity|split; reflexivity]. Qed.

Theorem C13_refuted : ~ C13_statement.
Proof.
  intros (_ & _ & _ & _ & _ & _ & _ & H & _).
  destruct (H w_type_name eq_refl I) as (o & Ho & Hl).
  specialize (Hl [Key (S "type_name")] (JStr (S "Foo"))).
  assert (In ([Key (S "type_name")], JStr (S "Foo")) (spec_leaves w_type_name)) as Hin
    by (vm_compute; auto).
  specialize (Hl Hin). vm_compute in Ho. inversion Ho; subst. vm_compute in Hl. discriminate.
Qed.
Print Assumptions C13_refuted.

(* ---------- the references used by the correspondence run are the ones the clauses describe ---- *)
(* spec_trip (from the NAME of a helper: what the specification prescribes) and model_trip (from
   what the row says the helper calls) agree for every helper of the current table; spec_leaves
   lists real paths of good names to scalars (and (iii) above is stated over spec_leaves) *)
Theorem C13_reference_agrees :
  (forall h i, In h helper_table -> valid_id i = true ->
     model_trip method_registry h i = spec_trip method_registry (h_side h) (h_name h)) /\
  (* ... also after any history of other operations of the requester between the request and its
     reply: $/cancelRequest for the pending id, further requests, notifications, stray frames *)
  (forall obj structure h i evs, In h helper_table -> valid_id i = true ->
     forallb (other_id i) evs = true ->
     model_trip_after obj structure method_registry h i evs
     = spec_trip method_registry (h_side h) (h_name h)) /\
  (forall j, wf_json j = true -> forall p leaf, In (p, leaf) (spec_leaves j) ->
     jget j p = Some leaf /\ forallb good_step p = true /\ is_scalar leaf = true).
Proof.
  assert (T : forall h i, In h helper_table -> valid_id i = true ->
     model_trip method_registry h i = spec_trip method_registry (h_side h) (h_name h)).
  2:{ split; [exact T|split; [|exact spec_leaves_sound]].
      intros. rewrite trip_after_history by assumption. apply T; assumption. }
  intros h i Hin Hv. pose proof helpers_ok_current as H. unfold helpers_ok in H.
  apply andb_true_iff in H as [H _]. apply andb_true_iff in H as [H _].
  apply andb_true_iff in H as [H _]. apply andb_true_iff in H as [Hreg Hok].
  rewrite forallb_forall in Hok. apply trip_reference_agrees; auto.
Qed.
Print Assumptions C13_reference_agrees.

(* ---------- non-vacuity ---------- *)
(* a payload inside the guard with nested objects, an array and members that need renaming;
   a registry request whose hypotheses in (ii) are met; a helper of the table *)
Definition w_ok : json :=
  jobj [("a", jobj [("b", JArr [JNum 1; jobj [("c", JStr (S "x")); ("class", JNum 2)]])]); ("_u", JNull)]%string.
Example C13_nonvacuous :
  wf_json w_ok = true /\ generic_guard w_ok = true /\
  In ([Key (S "a"); Key (S "b"); Idx 1; Key (S "c")], JStr (S "x")) (spec_leaves w_ok) /\
  (exists r, find_method method_registry (S "textDocument/hover") = Some r /\ m_request r = true /\
             m_res_type r = Some (S "HoverResponse")) /\
  (exists h, In h helper_table /\ h_name h = S "text_document_hover_async" /\
             h_kind h = HSendRequestAsync /\ h_side h = Client) /\
  spec_kind true true false = Some KRequest /\ spec_kind true true true = Some KErrorResponse.
Proof.
  split; [reflexivity|split; [reflexivity|split; [vm_compute; auto|split; [|split]]]].
  - eexists. split; [vm_compute; reflexivity|split; reflexivity].
  - assert (E : existsb (fun h => str_eqb (h_name h) (S "text_document_hover_async")
                                  && hkind_eqb (h_kind h) HSendRequestAsync
                                  && side_eqb (h_side h) Client) helper_table = true)
      by (vm_compute; reflexivity).
    apply existsb_exists in E as (h & Hin & E).
    apply andb_true_iff in E as [E E3]. apply andb_true_iff in E as [E1 E2].
    exists h. repeat split; [exact Hin|apply str_eqb_eq; exact E1|apply hkind_eqb_eq; exact E2|
                             apply side_eqb_eq; exact E3].
  - split; reflexivity.
Qed.

(* falsy ids are ids: a reply under id 0 / "" resolves the request sent under that id, a request
   under id 0 is a request (and a reply under "0" does not answer the request sent under 0) *)
Example C13_falsy_ids :
  (forall i, In i [PNum 0; PStr []; PStr (S "0"); PNum 9007199254740992] ->
     snd (receive pval id_structure [] (fst (send_request [] st0 (S "x/sent") i))
            (JObj [(k_jsonrpc, JStr s_version); (k_id, match i with PNum z => JNum z | PStr s => JStr s | _ => JNull end);
                   (k_result, JNum 1)]))
     = OResult i (MGeneric GResponse [(k_id, i); (k_jsonrpc, PStr s_version); (k_result, PNum 1)]) true) /\
  snd (receive pval id_structure [] st0
         (JObj [(k_jsonrpc, JStr s_version); (k_id, JNum 0); (k_method, JStr (S "x/unknown"))]))
  = ORequest (PNum 0) (MGeneric GRequest [(k_id, PNum 0); (k_method, PStr (S "x/unknown"));
                                          (k_jsonrpc, PStr s_version); (k_params, PNull)]) /\
  snd (receive pval id_structure [] (fst (send_request [] st0 (S "x/sent") (PNum 0)))
         (JObj [(k_jsonrpc, JStr s_version); (k_id, JStr (S "0")); (k_result, JNum 1)]))
  = ORejected (-32603) [].
Proof.
  split; [|split; vm_compute; reflexivity].
  intros i [<-|[<-|[<-|[<-|[]]]]]; vm_compute; reflexivity.
Qed.
