(* C04 - Document text tracks the client's edits exactly.
   Model: Model/Doc.v (TextDocument.lines/_apply_*_change/apply_change, Workspace.update_text_document,
   the didChange handler after fix 814a81b) over Model/Codec.v (PositionCodec, after fixes 14/15/16).
   Reference: Spec/DocSpec.v (offsets computed on the text itself: lines end at LF, CRLF, CR only,
   true code-unit widths, a `character` beyond the end of its line means that end; splice;
   whole-document change; Full / None).
   Open finding at this commit: F17 (utf-8 widths) for the text clause under utf-8.
   utf-16 and utf-32: text clause proved without any guard; version clause: no guard at all. *)
From Coq Require Import ZArith NArith List Bool.
From Pygls Require Import Base.Unicode Base.PyStr Model.Codec Spec.CodecSpec Model.Doc Spec.DocSpec
                          Proofs.DocProofs.
Open Scope N_scope.

(* A session on one document: didOpen (text, v0), then the notifications ns = [(version, changes)].
   gt: the class of histories the text clause is claimed for. *)
Definition C04_gen (gt : encoding -> sync_kind -> list N -> list (Z * list change) -> bool) : Prop :=
  forall e k text v0 ns,
    valid_history e k text ns = true ->
    (gt e k text ns = true ->
       source (run e k text v0 ns) = spec_text e k text ns) /\
    d_version (run e k text v0 ns) = Some (spec_version v0 ns).

Definition C04_statement : Prop := C04_gen (fun _ _ _ _ => true).

Definition C04_partial_statement : Prop := C04_gen guard_history.

Theorem C04_partial : C04_partial_statement.
Proof.
  intros e k text v0 ns Hv. split.
  - intros Hg. exact (proj1 (history_fold ns (open_doc e k text v0) Hv Hg)).
  - apply history_version. reflexivity.
Qed.
Print Assumptions C04_partial.

(* the F17 guard is vacuous for utf-16 and utf-32 *)
Lemma guard_history_not_utf8 e k text ns : e <> Utf8 -> guard_history e k text ns = true.
Proof.
  intros He. unfold guard_history. generalize (all_changes ns) as cs. intros cs. revert text.
  induction cs as [|c cs IH]; intros text; [reflexivity|].
  cbn [hist_ok]. rewrite IH, andb_true_r.
  unfold guard_change. destruct k; try reflexivity. destruct c; try reflexivity.
  destruct e; [congruence|reflexivity|reflexivity].
Qed.

(* utf-16 and utf-32: every valid history, no guard on the text *)
Theorem C04_utf16_utf32 :
  forall e k text v0 ns, e <> Utf8 -> valid_history e k text ns = true ->
    source (run e k text v0 ns) = spec_text e k text ns.
Proof.
  intros e k text v0 ns He Hv.
  exact (proj1 (C04_partial e k text v0 ns Hv) (guard_history_not_utf8 e k text ns He)).
Qed.
Print Assumptions C04_utf16_utf32.

(* Full: the text is that of the last change (whatever its shape); None: the text never changes.
   For every encoding and every history, valid or not. *)
Theorem C04_full_none :
  forall e text v0 ns,
    source (run e SyncFull text v0 ns) = change_text (last (all_changes ns) (Whole text)) /\
    source (run e SyncNone text v0 ns) = text.
Proof.
  intros e text v0 ns.
  assert (HvF : valid_history e SyncFull text ns = true).
  { unfold valid_history. generalize (all_changes ns), text.
    induction l as [|c cs IH]; intros t; [reflexivity|]. cbn [hist_ok]. rewrite IH. reflexivity. }
  assert (HvN : valid_history e SyncNone text ns = true).
  { unfold valid_history. generalize (all_changes ns), text.
    induction l as [|c cs IH]; intros t; [reflexivity|]. cbn [hist_ok]. rewrite IH. reflexivity. }
  assert (HgF : guard_history e SyncFull text ns = true).
  { unfold guard_history. generalize (all_changes ns), text.
    induction l as [|c cs IH]; intros t; [reflexivity|]. cbn [hist_ok]. rewrite IH. reflexivity. }
  assert (HgN : guard_history e SyncNone text ns = true).
  { unfold guard_history. generalize (all_changes ns), text.
    induction l as [|c cs IH]; intros t; [reflexivity|]. cbn [hist_ok]. rewrite IH. reflexivity. }
  split.
  - rewrite (proj1 (C04_partial e SyncFull text v0 ns HvF) HgF).
    unfold spec_text, spec_changes. generalize (all_changes ns), text.
    induction l as [|c cs IH]; intros t; [reflexivity|].
    cbn [fold_left spec_apply]. rewrite IH. destruct cs as [|c0 cs]; [reflexivity|].
    change (last (c :: c0 :: cs) (Whole t)) with (last (c0 :: cs) (Whole t)).
    f_equal. clear. revert c0. induction cs as [|c1 cs IH]; intros c0; [reflexivity|].
    change (last (c0 :: c1 :: cs) ?d) with (last (c1 :: cs) d). apply IH.
  - rewrite (proj1 (C04_partial e SyncNone text v0 ns HvN) HgN).
    unfold spec_text, spec_changes. generalize (all_changes ns).
    induction l as [|c cs IH]; [reflexivity|]. exact IH.
Qed.
Print Assumptions C04_full_none.

(* the reported version is the last one sent, for every history (valid or not, with or without
   content changes) *)
Theorem C04_version :
  forall e k text v0 ns, d_version (run e k text v0 ns) = Some (spec_version v0 ns).
Proof. intros. apply history_version. reflexivity. Qed.
Print Assumptions C04_version.

(* F17: under utf-8 an insertion after U+00E9 lands one character too far *)
Theorem C04_refuted_utf8 :
  exists text v0 ns, valid_history Utf8 SyncIncremental text ns = true /\
    source (run Utf8 SyncIncremental text v0 ns) <> spec_text Utf8 SyncIncremental text ns.
Proof.
  exists [0xE9; 97], 1%Z, [(2%Z, [Partial ((0, 2), (0, 2)) [88]])].
  vm_compute. split; [reflexivity|discriminate].
Qed.

Theorem C04_refuted : ~ C04_statement.
Proof.
  intros H.
  destruct (H Utf8 SyncIncremental [0xE9; 97] 1%Z [(2%Z, [Partial ((0, 2), (0, 2)) [88]])] eq_refl) as [H1 _].
  specialize (H1 eq_refl). vm_compute in H1. discriminate.
Qed.
Print Assumptions C04_refuted.

(* Non-vacuity: a history over a text with an astral character, CRLF and a form feed: a multi-line
   replacement, an insertion at the end-of-document position, a notification without changes, and
   a deletion whose end lies beyond the end of its line (clamped) *)
Example C04_nonvacuous :
  let text := [97; 0x1F60B; 13; 10; 98; 12; 99; 10] in
  let ns := [(2%Z, [Partial ((0, 3), (1, 1)) [88; 10; 89]]); (3%Z, [Partial ((2, 0), (2, 0)) [90]]);
             (4%Z, []); (5%Z, [Partial ((1, 1), (1, 99)) []])] in
  valid_history Utf16 SyncIncremental text ns = true /\
  guard_history Utf16 SyncIncremental text ns = true /\
  source (run Utf16 SyncIncremental text 1 ns) = [97; 0x1F60B; 88; 10; 89; 10; 90] /\
  d_version (run Utf16 SyncIncremental text 1 (firstn 3 ns)) = Some 4%Z /\
  d_version (run Utf16 SyncIncremental text 1 ns) = Some 5%Z.
Proof. vm_compute. repeat split. Qed.

(* The executable reference used by the correspondence run (Spec.DocSpec.spec_off / spec_apply) is
   the function the statement describes.  A position (l, ch) denotes offset o of the text s when
   it lies on LSP line l (lines = lsp_lines s: split at LF, CRLF, CR only; concat = s) and
   - ch is the length in true code units of a prefix `pre` of that line's body (so: on a character
     boundary, at most the length of the line without its terminator), or
   - ch is greater than the length in units of the whole body (`pre` = body): "if the character
     value is greater than the line length it defaults back to the line length",
   and o counts the characters before the end of `pre`; or when l is the empty last line of a text
   that is empty or ends with a terminator (the end of the document, whatever ch). *)
Definition lsp_position (e : encoding) (s : list N) (l ch o : N) : Prop :=
  (exists A pre post term C,
      lsp_lines s = A ++ (pre ++ post ++ term) :: C /\ len A = l /\
      no_eol (pre ++ post) = true /\ is_term term = true /\
      (ch = units e pre \/ (post = [] /\ units e pre < ch)) /\ o = len (concat A) + len pre)
  \/ (l = len (lsp_lines s) /\ o = len s /\ ends_eol s = true).

Theorem C04_reference_agrees :
  (forall e s l ch o, spec_off e s (l, ch) = Some o <-> lsp_position e s l ch o) /\
  (forall s, concat (lsp_lines s) = s) /\
  (* a valid range is ordered, and its change is the splice at the two offsets *)
  (forall e s r new, valid_range e s r = true ->
     exists a b, spec_off e s (fst r) = Some a /\ spec_off e s (snd r) = Some b /\ a <= b /\
                 spec_edit e s r new = take a s ++ new ++ drop b s) /\
  (* a change without a range replaces the text; Full: every change does; None: none does *)
  (forall e s t, spec_apply e SyncIncremental s (Whole t) = t) /\
  (forall e s c, spec_apply e SyncFull s c = change_text c) /\
  (forall e s c, spec_apply e SyncNone s c = s).
Proof.
  repeat split.
  - unfold spec_off. cbn [fst snd]. intros H.
    destruct (spec_locate e s l ch 0) as [[o' pre]|] eqn:E; [|discriminate].
    injection H as ->. apply spec_locate_located in E.
    destruct E as [(A & post & term & C & H1 & H2 & H3 & H4 & H5 & H6)|(H1 & H3 & H4 & H5)].
    + left. exists A, pre, post, term, C. rewrite N.add_0_l in H6. auto 10.
    + right. rewrite N.add_0_l in H4. auto.
  - unfold spec_off. cbn [fst snd].
    intros [(A & pre & post & term & C & H1 & H2 & H3 & H4 & [H5|[H5 H7]] & H6)|(H1 & H2 & H4)].
    + subst l ch. rewrite (spec_locate_complete e s A pre post term C 0 H1 H3).
      rewrite N.add_0_l. congruence.
    + subst l post. rewrite app_nil_r in H3. cbn [app] in H1.
      rewrite (spec_locate_complete_clamp e s A pre term C ch 0 H1 H3 H4 H7).
      rewrite N.add_0_l. congruence.
    + subst l. rewrite (spec_locate_eof e s ch 0 H4). rewrite N.add_0_l. congruence.
  - apply concat_lsp_lines.
  - destruct r as [[l1 c1] [l2 c2]]. unfold valid_range, spec_edit, spec_off in *. cbn [fst snd] in *.
    destruct (spec_locate e s l1 c1 0) as [[a p1]|] eqn:E1; [|discriminate].
    destruct (spec_locate e s l2 c2 0) as [[b p2]|] eqn:E2; [|discriminate].
    exists a, b. repeat split.
    exact (spec_locate_mono e s l1 c1 l2 c2 0 a p1 b p2 H E1 E2).
Qed.
Print Assumptions C04_reference_agrees.

(* Queries are stateless: the model's TextDocument queries (Model/DocQuery.v, Model/Codec.v) are
   functions of (encoding, current text, position) and of nothing else - no earlier query or edit
   can influence them - so after every valid history they answer what a fresh document holding the
   reference text answers.  This is the clause the correspondence run checks between the
   notifications (a cache that is not invalidated on some path of the real code breaks it). *)
From Pygls Require Import Model.DocQuery.
Theorem C04_queries_stateless :
  forall e k text v0 ns, valid_history e k text ns = true -> guard_history e k text ns = true ->
    let d := run e k text v0 ns in let t := spec_text e k text ns in
    lines d = lsp_lines t /\
    (forall p, offset_at_position e (source d) p = offset_at_position e t p) /\
    (forall p, word_at_position e (source d) p = word_at_position e t p) /\
    (forall p, position_from_client_units e (lines d) p = position_from_client_units e (lsp_lines t) p) /\
    (forall p, position_to_client_units e (lines d) p = position_to_client_units e (lsp_lines t) p).
Proof.
  intros e k text v0 ns Hv Hg d t. unfold lines. subst d t.
  rewrite (proj1 (C04_partial e k text v0 ns Hv) Hg). repeat split.
Qed.
Print Assumptions C04_queries_stateless.
