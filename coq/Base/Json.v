(* JSON values and json.dumps(value) exactly as CPython produces it with the DEFAULT arguments that
   pygls uses in JsonRPCProtocol._send_data: item separator ", ", key separator ": ",
   ensure_ascii=True (json.encoder.py_encode_basestring_ascii / its C twin):
     "  ->  \"      \  ->  \\      LF -> \n   CR -> \r   TAB -> \t   BS -> \b   FF -> \f
     every other character outside U+0020..U+007E (C0 controls, DEL, everything >= U+0080,
     lone surrogates included) -> \uXXXX with lowercase hex, astral characters as a
     surrogate pair \uD8xx\uDCxx.
   Integers are Z (Python ints are unbounded); floats are outside the model.
   Definitions only; the facts are in Proofs/JsonProofs.v. *)
From Coq Require Export ZArith NArith List Bool.
From Coq Require Strings.String Strings.Ascii.
From Pygls Require Export Base.Unicode.
Open Scope N_scope.

Inductive json :=
| JNull
| JBool (b : bool)
| JInt (z : Z)
| JStr (s : list N)
| JArr (l : list json)
| JObj (l : list (list N * json)).     (* dict: insertion ordered, str keys *)

(* Text constants, written as strings and turned into code-point lists once. *)
Module Lit.
  Import Coq.Strings.String.
  Definition lit (s : string) : list N := map Ascii.N_of_ascii (list_ascii_of_string s).
  Definition null := Eval vm_compute in lit "null".
  Definition true_ := Eval vm_compute in lit "true".
  Definition false_ := Eval vm_compute in lit "false".
  Definition item_sep := Eval vm_compute in lit ", ".
  Definition key_sep := Eval vm_compute in lit ": ".
End Lit.

(* ---- str(int) ---- *)
(* decimal digits, most significant first; fuel = bit size + 1 is always enough *)
Fixpoint digits_aux (fuel : nat) (n : N) (acc : list N) : list N :=
  match fuel with
  | O => acc
  | S f => if n <? 10 then (48 + n) :: acc
           else digits_aux f (n / 10) ((48 + n mod 10) :: acc)
  end.
Definition digits (n : N) : list N := digits_aux (S (N.to_nat (N.size n))) n [].

Definition dec_z (z : Z) : list N :=
  match z with
  | Z0 => [48]
  | Zpos p => digits (Npos p)
  | Zneg p => 45 :: digits (Npos p)
  end.

(* ---- string escaping, ensure_ascii=True ---- *)
Definition hex_digit (d : N) : N := if d <? 10 then 48 + d else 87 + d.   (* 0-9 a-f *)

(* '\\u{0:04x}'.format(c), c < 0x10000 *)
Definition u_escape (c : N) : list N :=
  [92; 117; hex_digit (c / 4096); hex_digit ((c / 256) mod 16);
   hex_digit ((c / 16) mod 16); hex_digit (c mod 16)].

Definition esc_char (c : N) : list N :=
  if c =? 34 then [92; 34]
  else if c =? 92 then [92; 92]
  else if c =? 10 then [92; 110]
  else if c =? 13 then [92; 114]
  else if c =? 9 then [92; 116]
  else if c =? 12 then [92; 102]
  else if c =? 8 then [92; 98]
  else if (32 <=? c) && (c <=? 126) then [c]
  else if c <? 0x10000 then u_escape c
  else (* n = c - 0x10000; s1 = 0xd800 | ((n >> 10) & 0x3ff); s2 = 0xdc00 | (n & 0x3ff) *)
    let n := c - 0x10000 in
    u_escape (0xD800 + (n / 1024) mod 1024) ++ u_escape (0xDC00 + n mod 1024).

Definition escape (s : list N) : list N := flat_map esc_char s.
Definition quote (s : list N) : list N := 34 :: escape s ++ [34].

(* separator.join(parts) *)
Fixpoint join (sep : list N) (parts : list (list N)) : list N :=
  match parts with
  | [] => []
  | [p] => p
  | p :: r => p ++ sep ++ join sep r
  end.

(* ---- json.dumps ---- *)
Fixpoint dumps (j : json) : list N :=
  match j with
  | JNull => Lit.null
  | JBool true => Lit.true_
  | JBool false => Lit.false_
  | JInt z => dec_z z
  | JStr s => quote s
  | JArr l => 91 :: join Lit.item_sep (map dumps l) ++ [93]
  | JObj l => 123 :: join Lit.item_sep
                       (map (fun kv => quote (fst kv) ++ Lit.key_sep ++ dumps (snd kv)) l) ++ [125]
  end.

(* ---- descriptions of outgoing JSON-RPC messages: the INPUT data shared by model and spec ---- *)
(* A payload handed to pygls: a JSON tree (JNull = Python None), or None = a Python object that
   json.dumps(..., default=_serialize_message) cannot serialise. *)
Notation payload := (option json) (only parsing).

(* lsprotocol ResponseError(code, message, data); e_data = JNull stands for data=None *)
Record rerror := { e_code : Z; e_message : list N; e_data : json }.

Inductive send :=
| SResponse (id : json) (result : payload)                   (* _send_response(id, result) *)
| SError (id : json) (e : rerror)                            (* _send_response(id, None, error) *)
| SNotify (method : list N) (params : payload)               (* notify(method, params) *)
| SRequest (id : json) (method : list N) (params : payload)  (* send_request(method, params, msg_id=id) *)
| SRaw (d : payload).                                        (* _send_data(value), a plain value *)

(* ---- a session of one protocol object: the transport may be installed late and replaced ----
   W = whatever describes a writer (the model uses its writer kinds). *)
Inductive sop (W : Type) :=
| OSetWriter (w : W) (include_headers : bool)     (* protocol.set_writer(writer, include_headers) *)
| OSend (s : send).
Arguments OSetWriter {W} _ _.
Arguments OSend {W} _.
