(* C13: a small JSON value type, strings as lists of code points, association lists with
   Python-dict semantics, and the Python value domain that pygls' deserialisation produces.
   Definitions only (facts are in Proofs/RegistryProofs.v).  Self-contained: stdlib only. *)
From Coq Require Export NArith ZArith List Bool.
From Coq Require Import Ascii String.
Export ListNotations.
Open Scope N_scope.

(* ---------- strings ---------- *)
Definition lit (x : string) : list N := map N_of_ascii (list_ascii_of_string x).

Fixpoint str_eqb (a b : list N) : bool :=
  match a, b with
  | [], [] => true
  | x :: a', y :: b' => (x =? y) && str_eqb a' b'
  | _, _ => false
  end.

Fixpoint mem_str (k : list N) (l : list (list N)) : bool :=
  match l with [] => false | x :: r => str_eqb k x || mem_str k r end.

(* ---------- association lists, insertion ordered (a Python dict with str keys) ---------- *)
Section Assoc.
  Context {V : Type}.
  Fixpoint aget (k : list N) (l : list (list N * V)) : option V :=
    match l with [] => None | (k', v) :: r => if str_eqb k k' then Some v else aget k r end.
  Definition amem (k : list N) (l : list (list N * V)) : bool :=
    match aget k l with Some _ => true | None => false end.
  (* d[k] = v : in place when the key exists, appended otherwise *)
  Fixpoint aset (k : list N) (v : V) (l : list (list N * V)) : list (list N * V) :=
    match l with
    | [] => [(k, v)]
    | (k', v') :: r => if str_eqb k k' then (k', v) :: r else (k', v') :: aset k v r
    end.
  Fixpoint adel (k : list N) (l : list (list N * V)) : list (list N * V) :=
    match l with
    | [] => []
    | (k', v') :: r => if str_eqb k k' then r else (k', v') :: adel k r
    end.
  (* dict(pairs): what json.loads builds from the members of an object, duplicates included *)
  Definition py_dict (l : list (list N * V)) : list (list N * V) :=
    fold_left (fun d kv => aset (fst kv) (snd kv) d) l [].
  Definition akeys (l : list (list N * V)) : list (list N) := map fst l.
End Assoc.

(* ---------- JSON as it is on the wire ---------- *)
Inductive json :=
| JNull
| JBool (b : bool)
| JNum (z : Z)
| JFlt (repr : list N)            (* a float: opaque, identified by its repr *)
| JStr (s : list N)
| JArr (l : list json)
| JObj (kvs : list (list N * json)).

(* ---------- Python values that reach pygls' handlers ---------- *)
Inductive gclass := GRequest | GNotification | GResponse.   (* the three generic message classes *)

Inductive pval :=
| PNull
| PBool (b : bool)
| PNum (z : Z)
| PFlt (repr : list N)
| PStr (s : list N)
| PList (l : list pval)
| PDict (kvs : list (list N * pval))                          (* a plain dict: no attribute access *)
| PTuple (tname : list N) (fields : list (list N * pval))     (* namedtuple instance *)
| PMsg (cls : gclass) (fields : list (list N * pval)).        (* JsonRPC{Request,Notification,Response}Message *)

(* json.loads without hooks; objects become dicts (duplicate members: last value, first position) *)
Fixpoint embed (j : json) : pval :=
  match j with
  | JNull => PNull
  | JBool b => PBool b
  | JNum z => PNum z
  | JFlt r => PFlt r
  | JStr s => PStr s
  | JArr l => PList (map embed l)
  | JObj kvs => PDict (py_dict (map (fun kv => (fst kv, embed (snd kv))) kvs))
  end.

(* equality of ids (ints and strings, as LSP has them; other values never match) *)
Definition id_eqb (a b : pval) : bool :=
  match a, b with
  | PNum x, PNum y => Z.eqb x y
  | PStr x, PStr y => str_eqb x y
  | _, _ => false
  end.

(* paths into a value: object member by name, array element by index *)
Inductive step := Key (k : list N) | Idx (i : nat).

Definition jget1 (j : json) (s : step) : option json :=
  match j, s with
  | JObj kvs, Key k => aget k kvs
  | JArr l, Idx i => nth_error l i
  | _, _ => None
  end.
Fixpoint jget (j : json) (p : list step) : option json :=
  match p with
  | [] => Some j
  | s :: r => match jget1 j s with Some j' => jget j' r | None => None end
  end.

(* getattr(obj, k) / obj[i] on what the handler holds: attribute access works on namedtuples only *)
Definition pget1 (v : pval) (s : step) : option pval :=
  match v, s with
  | PTuple _ fs, Key k => aget k fs
  | PList l, Idx i => nth_error l i
  | _, _ => None
  end.
Fixpoint pget (v : pval) (p : list step) : option pval :=
  match p with
  | [] => Some v
  | s :: r => match pget1 v s with Some v' => pget v' r | None => None end
  end.

(* objects have pairwise distinct member names, at every depth *)
Fixpoint nodup_strs (l : list (list N)) : bool :=
  match l with [] => true | x :: r => negb (mem_str x r) && nodup_strs r end.
Fixpoint wf_json (j : json) : bool :=
  match j with
  | JArr l => forallb wf_json l
  | JObj kvs => nodup_strs (map fst kvs) && forallb (fun kv => wf_json (snd kv)) kvs
  | _ => true
  end.
