(* More lemmas about Base/Assoc.v (kept apart so that Assoc.vo and its dependents are not rebuilt). *)
From Coq Require Import List Bool.
From Pygls Require Import Base.Assoc.
Import ListNotations.

Section AssocFacts.
  Context {K V : Type}.
  Variable eqb : K -> K -> bool.
  Hypothesis eqb_spec : forall a b, eqb a b = true <-> a = b.

  Lemma in_set : forall k v k' v' (l : list (K * V)),
    In (k', v') (set eqb k v l) -> (k' = k /\ v' = v) \/ In (k', v') l.
  Proof.
    intros k v k' v' l. induction l as [|[k2 v2] r IH]; cbn [set In].
    - intros [H|[]]. inversion H. left. split; reflexivity.
    - destruct (eqb k k2) eqn:E; cbn [In].
      + apply eqb_spec in E. subst k2. intros [H|H].
        * inversion H. left. split; reflexivity.
        * right. right. exact H.
      + intros [H|H]; [right; left; exact H|]. destruct (IH H) as [H1|H1]; [left; exact H1|right; right; exact H1].
  Qed.

  Lemma in_remove : forall k k' v' (l : list (K * V)), In (k', v') (remove eqb k l) -> In (k', v') l.
  Proof.
    intros k k' v' l. induction l as [|[k2 v2] r IH]; cbn [remove In]; [tauto|].
    destruct (eqb k k2); cbn [In]; [intro H; right; exact H|].
    intros [H|H]; [left; exact H|right; apply IH; exact H].
  Qed.

  Lemma in_remove_neq : forall k k' v' (l : list (K * V)), NoDup (keys l) ->
    In (k', v') (remove eqb k l) -> k' <> k.
  Proof.
    intros k k' v' l ND H E. subst k'.
    apply (notin_remove eqb eqb_spec k l ND). unfold keys. apply in_map_iff. exists (k, v'). split; [reflexivity|exact H].
  Qed.

  Lemma get_in : forall k v (l : list (K * V)), get eqb k l = Some v -> In (k, v) l.
  Proof.
    intros k v l. induction l as [|[k2 v2] r IH]; cbn [get In]; [discriminate|].
    destruct (eqb k k2) eqn:E.
    - apply eqb_spec in E. subst k2. intro H. inversion H. left. reflexivity.
    - intro H. right. apply IH. exact H.
  Qed.

  Lemma in_get : forall k v (l : list (K * V)), NoDup (keys l) -> In (k, v) l -> get eqb k l = Some v.
  Proof.
    intros k v l. induction l as [|[k2 v2] r IH]; cbn [get In keys map fst]; [tauto|].
    intros ND [H|H].
    - inversion H. subst. rewrite (proj2 (eqb_spec k k) eq_refl). reflexivity.
    - inversion ND as [|? ? Hni ND']; subst. destruct (eqb k k2) eqn:E.
      + apply eqb_spec in E. subst k2. exfalso. apply Hni. unfold keys. apply in_map_iff. exists (k, v). split; [reflexivity|exact H].
      + apply IH; assumption.
  Qed.

  Lemma in_remove_other : forall k k' v' (l : list (K * V)), k' <> k -> In (k', v') l -> In (k', v') (remove eqb k l).
  Proof.
    intros k k' v' l Hn. induction l as [|[k2 v2] r IH]; cbn [remove In]; [tauto|].
    destruct (eqb k k2) eqn:E; cbn [In].
    - apply eqb_spec in E. subst k2. intros [H|H]; [inversion H; congruence|exact H].
    - intros [H|H]; [left; exact H|right; apply IH; exact H].
  Qed.
End AssocFacts.
