(* PyMini: a deep embedding of the small Python subset used by the pure core of pygls
   (position_codec.py, parts of exceptions.py and uris.py) with a big-step interpreter.

   harness/gen_ast.py translates the SOURCE TEXT of those functions (Python's `ast`) into terms of
   this language (coq/Gen/Ast*.v, regenerated on every run, fail-closed on anything outside the
   tables below); coq/Proofs/Ast*Equiv.v proves `run (translated f) inputs = Ok (hand_model_f inputs)`.
   What the theorems then mean rests on this file: it is the (hand-written, unverified) statement
   of what the Python constructs do.  It is kept in direct style and close to the language
   reference so that it can be audited; primitives on strings are the definitions of Base/PyStr.v,
   i.e. the same ones the hand models use.

   Values are immutable (no aliasing, no object identity): the translator accepts attribute
   assignment only on `self` inside `__init__`.  Integers are Z, a str is a list of code points.
   Definitions only; facts are in Base/PyMiniFacts.v. *)
From Coq Require Import ZArith NArith List Bool String Ascii.
From Pygls Require Export Base.PyStr.
Import ListNotations.
Open Scope string_scope.
Open Scope Z_scope.

(* ------------------------------------------------------------------------------------ *)
(* values                                                                                *)

(* ExcUser: an exception class of pygls (by name); ExcAny only occurs in handlers: `except Exception` *)
Inductive exn := IndexError | TypeError | ValueError | AttributeError | KeyError | ExcOther
               | ExcUser (name : string) | ExcAny.

Inductive val :=
| VInt (z : Z)
| VBool (b : bool)
| VStr (s : list N)
| VNone
| VList (l : list val)
| VTuple (l : list val)
| VObj (cls : string) (fields : list (string * val))   (* instance: class name, attributes *)
| VGlobal (path : list string).                        (* module / class / builtin, by dotted path *)

Inductive res (A : Type) := Ok (a : A) | Raise (k : exn) | Stuck (why : string).
Arguments Ok {A} a.
Arguments Raise {A} k.
Arguments Stuck {A} why.
(* Stuck = outside the modelled subset (unbound name, unsupported operand types, unknown callee,
   out of fuel).  No equivalence theorem can hold for a program that gets stuck. *)

Notation envT := (list (string * val)) (only parsing).

Fixpoint get (x : string) (env : envT) : option val :=
  match env with
  | [] => None
  | (y, v) :: r => if String.eqb x y then Some v else get x r
  end.
(* assignment shadows; the newest binding wins *)
Definition set (x : string) (v : val) (env : envT) : envT := (x, v) :: env.

Fixpoint mem_str (x : string) (l : list string) : bool :=
  match l with [] => false | y :: r => if String.eqb x y then true else mem_str x r end.

Fixpoint path_eqb (a b : list string) : bool :=
  match a, b with
  | [], [] => true
  | x :: a', y :: b' => if String.eqb x y then path_eqb a' b' else false
  | _, _ => false
  end.

Fixpoint snoc (p : list string) (m : string) : list string :=
  match p with [] => [m] | x :: r => x :: snoc r m end.

(* ------------------------------------------------------------------------------------ *)
(* the data model: truth, equality, arithmetic                                           *)

Definition b2z (b : bool) : Z := if b then 1 else 0.

(* bool is a subclass of int *)
Definition as_int (v : val) : option Z :=
  match v with VInt z => Some z | VBool b => Some (b2z b) | _ => None end.

Definition truthy (v : val) : bool :=
  match v with
  | VInt z => negb (z =? 0)
  | VBool b => b
  | VStr s => match s with [] => false | _ => true end
  | VNone => false
  | VList l => match l with [] => false | _ => true end
  | VTuple l => match l with [] => false | _ => true end
  | VObj _ _ => true
  | VGlobal _ => true
  end.

Fixpoint str_eqb (a b : list N) : bool :=
  match a, b with
  | [], [] => true
  | x :: a', y :: b' => N.eqb x y && str_eqb a' b'
  | _, _ => false
  end.

(* `==`.  int/bool numerically, str by code points, None, sequences and instances structurally
   (attrs classes such as Position compare field by field).  A str-valued enum member IS its
   value here (lsprotocol's enums derive from str), see global_const. *)
Fixpoint py_eq (a b : val) : bool :=
  match a, b with
  | VInt x, VInt y => x =? y
  | VInt x, VBool y => x =? b2z y
  | VBool x, VInt y => b2z x =? y
  | VBool x, VBool y => Bool.eqb x y
  | VStr s, VStr t => str_eqb s t
  | VNone, VNone => true
  | VList l, VList m =>
      (fix go (l m : list val) : bool :=
         match l, m with
         | [], [] => true
         | x :: l', y :: m' => py_eq x y && go l' m'
         | _, _ => false
         end) l m
  | VTuple l, VTuple m =>
      (fix go (l m : list val) : bool :=
         match l, m with
         | [], [] => true
         | x :: l', y :: m' => py_eq x y && go l' m'
         | _, _ => false
         end) l m
  | VObj c f, VObj d g =>
      String.eqb c d &&
      (fix go (f g : list (string * val)) : bool :=
         match f, g with
         | [], [] => true
         | (k, x) :: f', (k', y) :: g' => String.eqb k k' && py_eq x y && go f' g'
         | _, _ => false
         end) f g
  | VGlobal p, VGlobal q => path_eqb p q
  | _, _ => false
  end.

Inductive binop := Add | Sub | Mult.
Inductive cmpop := Eq | NotEq | Lt | LtE | Gt | GtE | Is | IsNot | CmpIn | CmpNotIn.

(* a dict is VObj "dict" [("items", VList [VTuple [k; v]; ..])], insertion ordered; keys compare with == *)
Fixpoint dict_get (k : val) (items : list val) : option val :=
  match items with
  | [] => None
  | VTuple [k'; v] :: r => if py_eq k' k then Some v else dict_get k r
  | _ :: r => dict_get k r
  end.
Definition dict_mem (k : val) (items : list val) : bool :=
  match dict_get k items with Some _ => true | None => false end.
(* d[k] = v: an existing entry keeps its key and its place *)
Fixpoint dict_upd (k v : val) (items : list val) : list val :=
  match items with
  | [] => []
  | VTuple [k'; v'] :: r => (if py_eq k' k then VTuple [k'; v] else VTuple [k'; v']) :: dict_upd k v r
  | x :: r => x :: dict_upd k v r
  end.
Definition dict_set (k v : val) (items : list val) : list val :=
  if dict_mem k items then dict_upd k v items else (items ++ [VTuple [k; v]])%list.
(* d.pop(k, default) without the value: every entry with that key goes (a dict has at most one) *)
Fixpoint dict_del (k : val) (items : list val) : list val :=
  match items with
  | [] => []
  | VTuple [k'; v] :: r => if py_eq k' k then dict_del k r else VTuple [k'; v] :: dict_del k r
  | x :: r => x :: dict_del k r
  end.
Definition mk_dict (items : list val) : val := VObj "dict" [("items", VList items)].
Definition dict_items (v : val) : option (list val) :=
  match v with
  | VObj cls [(f, VList items)] => if String.eqb cls "dict" && String.eqb f "items" then Some items else None
  | _ => None
  end.

(* a set: VObj "set" [("elems", VList elements)]; only membership is given a meaning *)
Definition mk_set (elems : list val) : val := VObj "set" [("elems", VList elems)].
Definition set_elems (v : val) : option (list val) :=
  match v with
  | VObj cls [(f, VList elems)] => if String.eqb cls "set" && String.eqb f "elems" then Some elems else None
  | _ => None
  end.

Definition py_binop (op : binop) (a b : val) : res val :=
  match op, a, b with
  | Add, VStr s, VStr t => Ok (VStr (s ++ t)%list)
  | _, VStr _, _ | _, _, VStr _ => Stuck "binop on str"
  | _, _, _ =>
    match as_int a, as_int b with
    | Some x, Some y =>
      Ok (VInt (match op with Add => x + y | Sub => x - y | Mult => x * y end))
    | _, _ => Stuck "binop operands"
    end
  end.

Definition is_none (v : val) : bool := match v with VNone => true | _ => false end.

Definition py_compare (op : cmpop) (a b : val) : res val :=
  match op with
  | CmpIn | CmpNotIn =>
    match dict_items b with
    | Some items => Ok (VBool (match op with CmpIn => dict_mem a items | _ => negb (dict_mem a items) end))
    | None =>
      match set_elems b with
      | Some elems => Ok (VBool (match op with CmpIn => existsb (py_eq a) elems | _ => negb (existsb (py_eq a) elems) end))
      | None => Stuck "in / not in: only on a dict or a set"
      end
    end
  | Eq => Ok (VBool (py_eq a b))
  | NotEq => Ok (VBool (negb (py_eq a b)))
  | Is | IsNot =>
    (* identity is modelled against the singleton None only *)
    if is_none a || is_none b then
      Ok (VBool (match op with Is => is_none a && is_none b | _ => negb (is_none a && is_none b) end))
    else
      (* ... and against the singletons True / False: `x is False` holds for the bool False only *)
      match a, b with
      | VBool x, VBool y => Ok (VBool (match op with Is => Bool.eqb x y | _ => negb (Bool.eqb x y) end))
      | VBool _, (VInt _ | VStr _ | VList _ | VTuple _ | VObj _ _)
      | (VInt _ | VStr _ | VList _ | VTuple _ | VObj _ _), VBool _ =>
        Ok (VBool (match op with Is => false | _ => true end))
      | _, _ => Stuck "is / is not between objects"
      end
  | _ =>
    match as_int a, as_int b with
    | Some x, Some y =>
      Ok (VBool (match op with Lt => x <? y | LtE => x <=? y | Gt => y <? x | _ => y <=? x end))
    | _, _ =>
      (* `<` between int and None / str raises TypeError; str < str is not modelled *)
      match a, b with
      | VStr _, VStr _ => Stuck "ordering of str"
      | VInt _, _ | VBool _, _ | _, VInt _ | _, VBool _ => Raise TypeError
      | _, _ => Stuck "ordering operands"
      end
    end
  end.

(* ------------------------------------------------------------------------------------ *)
(* sequences: indexing and slicing                                                       *)

(* s[i] : a valid index is -n <= i < n *)
Definition norm_index (n : N) (z : Z) : option N :=
  let i := if z <? 0 then z + Z.of_N n else z in
  if (0 <=? i) && (i <? Z.of_N n) then Some (Z.to_N i) else None.

Definition py_subscript (v i : val) : res val :=
  match v, i with
  | VList l, VInt z =>
    match norm_index (len l) z with
    | Some k => Ok (nth (N.to_nat k) l VNone)
    | None => Raise IndexError
    end
  | VTuple l, VInt z =>
    match norm_index (len l) z with
    | Some k => Ok (nth (N.to_nat k) l VNone)
    | None => Raise IndexError
    end
  | VStr s, VInt z =>
    match norm_index (len s) z with
    | Some k => Ok (VStr [nth (N.to_nat k) s 0%N])
    | None => Raise IndexError
    end
  | VObj cls [(f, VList items)], k =>
    if String.eqb cls "dict" && String.eqb f "items" then
      match dict_get k items with Some x => Ok x | None => Raise KeyError end
    else Stuck "subscript operands"
  | _, _ => Stuck "subscript operands"
  end.

(* a slice bound: negative counts from the end; take/drop saturate *)
Definition clamp_idx (n : N) (z : Z) : N :=
  if z <? 0 then Z.to_N (Z.of_N n + z) else Z.to_N z.

Definition slice_list {A} (s : list A) (lo hi : option Z) : list A :=
  match lo, hi with
  | None, None => s
  | None, Some h => take (clamp_idx (len s) h) s
  | Some l, None => drop (clamp_idx (len s) l) s
  | Some l, Some h => take (clamp_idx (len s) h - clamp_idx (len s) l)%N (drop (clamp_idx (len s) l) s)
  end.

Definition bound_of (v : option val) : res (option Z) :=
  match v with
  | None => Ok None
  | Some VNone => Ok None
  | Some (VInt z) => Ok (Some z)
  | Some _ => Raise TypeError
  end.

Definition py_slice (v : val) (lo hi : option val) : res val :=
  match bound_of lo, bound_of hi with
  | Ok l, Ok h =>
    match v with
    | VStr s => Ok (VStr (slice_list s l h))
    | VList s => Ok (VList (slice_list s l h))
    | VTuple s => Ok (VTuple (slice_list s l h))
    | _ => Stuck "slice of non-sequence"
    end
  | Raise k, _ | _, Raise k => Raise k
  | Stuck w, _ | _, Stuck w => Stuck w
  end.

(* ------------------------------------------------------------------------------------ *)
(* attribute access, the fixed tables of globals                                         *)

(* module-level constants the translated code reads.  gen_ast.py asserts by reflection, on every
   run, that the imported objects have exactly these values. *)
Definition s_utf8 : list N := [117; 116; 102; 45; 56]%N.           (* "utf-8"  *)
Definition s_utf16 : list N := [117; 116; 102; 45; 49; 54]%N.      (* "utf-16" *)
Definition s_utf32 : list N := [117; 116; 102; 45; 51; 50]%N.      (* "utf-32" *)

(* pygls.constants *)
Definition c_execute_in_thread : list N :=
  [101; 120; 101; 99; 117; 116; 101; 95; 105; 110; 95; 116; 104; 114; 101; 97; 100]%N.    (* "execute_in_thread" *)
Definition c_command : list N := [99; 111; 109; 109; 97; 110; 100]%N.                      (* "command" *)
Definition c_feature : list N := [102; 101; 97; 116; 117; 114; 101]%N.                     (* "feature" *)
Definition c_reg_name : list N := [114; 101; 103; 95; 110; 97; 109; 101]%N.                (* "reg_name" *)
Definition c_reg_type : list N := [114; 101; 103; 95; 116; 121; 112; 101]%N.               (* "reg_type" *)
Definition c_ls : list N := [108; 115]%N.                                                  (* "ls" *)

Definition s_progress : list N := [36; 47; 112; 114; 111; 103; 114; 101; 115; 115]%N.        (* "$/progress" *)
Definition s_progress_create : list N :=                       (* "window/workDoneProgress/create" *)
  [119; 105; 110; 100; 111; 119; 47; 119; 111; 114; 107; 68; 111; 110; 101; 80; 114; 111; 103; 114; 101; 115; 115;
   47; 99; 114; 101; 97; 116; 101]%N.

Definition global_const (p : list string) : option val :=
  if path_eqb p ["types"; "PositionEncodingKind"; "Utf8"] then Some (VStr s_utf8)
  else if path_eqb p ["types"; "PositionEncodingKind"; "Utf16"] then Some (VStr s_utf16)
  else if path_eqb p ["types"; "PositionEncodingKind"; "Utf32"] then Some (VStr s_utf32)
  else if path_eqb p ["IS_WIN"] then Some (VBool false)      (* POSIX; the Windows branch is not covered *)
  else if path_eqb p ["ATTR_EXECUTE_IN_THREAD"] then Some (VStr c_execute_in_thread)
  else if path_eqb p ["ATTR_COMMAND_TYPE"] then Some (VStr c_command)
  else if path_eqb p ["ATTR_FEATURE_TYPE"] then Some (VStr c_feature)
  else if path_eqb p ["ATTR_REGISTERED_NAME"] then Some (VStr c_reg_name)
  else if path_eqb p ["ATTR_REGISTERED_TYPE"] then Some (VStr c_reg_type)
  else if path_eqb p ["PARAM_LS"] then Some (VStr c_ls)
  else if path_eqb p ["PROGRESS"] then Some (VStr s_progress)
  else if path_eqb p ["WINDOW_WORK_DONE_PROGRESS_CREATE"] then Some (VStr s_progress_create)
  else None.

(* record constructors: class name and fields in positional order (lsprotocol attrs classes;
   gen_ast.py asserts the field order by reflection) *)
Definition ctor_table (p : list string) : option (string * list string) :=
  if path_eqb p ["types"; "Position"] then Some ("Position", ["line"; "character"])
  else if path_eqb p ["ResponseError"] then Some ("ResponseError", ["code"; "message"; "data"])
  else if path_eqb p ["types"; "Range"] then Some ("Range", ["start"; "end"])
  else if path_eqb p ["ProgressParams"] then Some ("ProgressParams", ["token"; "value"])
  else if path_eqb p ["WorkDoneProgressCreateParams"] then Some ("WorkDoneProgressCreateParams", ["token"])
  else if path_eqb p ["Future"] then Some ("Future", [])      (* a new pending future; identity is not modelled *)
  else if path_eqb p ["TextDocument"] then
    Some ("TextDocument", ["uri"; "source"; "version"; "language_id"; "local"; "sync_kind"; "position_codec"])
  else if path_eqb p ["PositionCodec"] then Some ("PositionCodec", ["encoding"])
  (* option classes of capabilities.py: the leading fields (gen_ast.py asserts that they are a prefix of the
     attrs fields and that the remaining ones default to None) *)
  else if path_eqb p ["types"; "SignatureHelpOptions"] then Some ("SignatureHelpOptions", [])
  else if path_eqb p ["types"; "RenameOptions"] then Some ("RenameOptions", ["prepare_provider"])
  else if path_eqb p ["types"; "ExecuteCommandOptions"] then Some ("ExecuteCommandOptions", ["commands"])
  else if path_eqb p ["types"; "TextDocumentSyncOptions"] then
    Some ("TextDocumentSyncOptions", ["open_close"; "change"; "will_save"; "will_save_wait_until"; "save"])
  else None.

Definition py_getattr (v : val) (a : string) : res val :=
  match v with
  | VObj _ fields =>
    match get a fields with Some x => Ok x | None => Raise AttributeError end
  | VGlobal p =>
    match global_const (snoc p a) with Some c => Ok c | None => Ok (VGlobal (snoc p a)) end
  | _ => Stuck "attribute of a non-object"
  end.

(* ------------------------------------------------------------------------------------ *)
(* builtins and str methods (fixed table; anything else is Stuck)                        *)

Definition builtin (g : string) (args : list val) : option (res val) :=
  if String.eqb g "len" then
    Some (match args with
          | [VStr s] => Ok (VInt (Z.of_N (len s)))
          | [VList l] => Ok (VInt (Z.of_N (len l)))
          | [VTuple l] => Ok (VInt (Z.of_N (len l)))
          | [VInt _] | [VBool _] | [VNone] => Raise TypeError
          | _ => Stuck "len"
          end)
  else if String.eqb g "ord" then
    Some (match args with
          | [VStr [c]] => Ok (VInt (Z.of_N c))
          | [VStr _] | [VInt _] | [VBool _] | [VNone] => Raise TypeError
          | _ => Stuck "ord"
          end)
  else if String.eqb g "min" then
    Some (match args with
          | [VInt a; VInt b] => Ok (VInt (Z.min a b))
          | _ => Stuck "min"
          end)
  else if String.eqb g "isinstance" then
    (* isinstance(obj, types.C) for the attrs classes of lsprotocol that have no subclasses among
       themselves (gen_ast.py asserts that): the class name of the instance is C *)
    Some (match args with
          | [VObj cls _; VGlobal [m; c]] => if String.eqb m "types" then Ok (VBool (String.eqb cls c)) else Stuck "isinstance"
          | [VInt _; VGlobal [m; c]] | [VBool _; VGlobal [m; c]] | [VStr _; VGlobal [m; c]] | [VNone; VGlobal [m; c]] =>
            if String.eqb m "types" then Ok (VBool false) else Stuck "isinstance"
          | _ => Stuck "isinstance"
          end)
  else if String.eqb g "max" then
    Some (match args with
          | [VInt a; VInt b] => Ok (VInt (Z.max a b))
          | _ => Stuck "max"
          end)
  else None.

(* s.find(t, start) for a one-character t: index of the first occurrence at or after start, or -1 *)
Fixpoint find_char (c : N) (s : list N) (i : Z) : Z :=
  match s with
  | [] => -1
  | d :: r => if N.eqb c d then i else find_char c r (i + 1)
  end.

Definition is_prefix1 (c : N) (s : list N) : bool :=
  match s with d :: _ => N.eqb c d | [] => false end.

(* str.lower() on one character: only the ASCII case is given a meaning *)
Definition lower1 (c : N) : N := if (65 <=? c)%N && (c <=? 90)%N then (c + 32)%N else c.

(* str.strip() without arguments: str.isspace of one character (CPython: _Py_ascii_whitespace and
   _PyUnicode_IsWhitespace), from both ends - the same definitions as in Model/Features.v *)
Definition py_isspace (c : N) : bool :=
  (((9 <=? c) && (c <=? 13)) || ((28 <=? c) && (c <=? 32)) || (c =? 133) || (c =? 160)
   || (c =? 5760) || ((8192 <=? c) && (c <=? 8202)) || (c =? 8232) || (c =? 8233)
   || (c =? 8239) || (c =? 8287) || (c =? 12288))%N.
Fixpoint py_lstrip (s : list N) : list N :=
  match s with
  | [] => []
  | c :: r => if py_isspace c then py_lstrip r else s
  end.
Definition py_strip (s : list N) : list N := rev (py_lstrip (rev (py_lstrip s))).

Definition str_method (m : string) (s : list N) (args : list val) : res val :=
  if String.eqb m "replace" then
    match args with
    | [VStr [13%N; 10%N]; VStr [10%N]] => Ok (VStr (replace_crlf s))
    | _ => Stuck "str.replace: only (CRLF, LF)"
    end
  else if String.eqb m "rstrip" then
    match args with
    | [VStr [13%N; 10%N]] => Ok (VStr (rstrip_eol s))
    | _ => Stuck "str.rstrip: only (CRLF)"
    end
  else if String.eqb m "startswith" then
    match args with
    | [VStr [c]] => Ok (VBool (is_prefix1 c s))
    | _ => Stuck "str.startswith: only a one-character prefix"
    end
  else if String.eqb m "find" then
    match args with
    | [VStr [c]; VInt start] =>
      if start <? 0 then Stuck "str.find: negative start"
      else Ok (VInt (find_char c (drop (Z.to_N start) s) start))
    | _ => Stuck "str.find: only (one character, start)"
    end
  else if String.eqb m "lower" then
    match args, s with
    | [], [c] => if (c <? 128)%N then Ok (VStr [lower1 c]) else Stuck "str.lower: non-ASCII"
    | _, _ => Stuck "str.lower: only on one character"
    end
  else if String.eqb m "strip" then
    match args with
    | [] => Ok (VStr (py_strip s))
    | _ => Stuck "str.strip: only without arguments"
    end
  else if String.eqb m "encode" then
    (* str.encode("utf-8"): strict (a surrogate code point raises UnicodeEncodeError); bytes are
       VObj "bytes" [("data", VStr <byte values>)] *)
    match args with
    | [VStr enc] =>
      if str_eqb enc [117; 116; 102; 45; 56]%N then
        if forallb (fun c => negb (is_surrogate c)) s
        then Ok (VObj "bytes" [("data", VStr (utf8_enc_all s))])
        else Raise (ExcUser "UnicodeEncodeError")
      else Stuck "str.encode: only utf-8"
    | _ => Stuck "str.encode: only (encoding)"
    end
  else Stuck "unknown str method".

(* sum(elt for x in s) over the characters of a str: left to right from 0 *)
Fixpoint sum_chars (f : N -> res val) (s : list N) (acc : Z) : res val :=
  match s with
  | [] => Ok (VInt acc)
  | c :: r =>
    match f c with
    | Ok v => match as_int v with
              | Some z => sum_chars f r (acc + z)
              | None => Raise TypeError
              end
    | Raise k => Raise k
    | Stuck w => Stuck w
    end
  end.

(* ------------------------------------------------------------------------------------ *)
(* syntax                                                                                *)

Inductive expr :=
| EName (x : string)                 (* a local: parameter or assigned in the function *)
| EGlobal (g : string)               (* any other name: builtin, imported module, class, module function *)
| EInt (z : Z)
| EBool (b : bool)
| EStr (s : list N)
| ENone
| EAttr (e : expr) (a : string)
| EBinOp (op : binop) (a b : expr)
| ENeg (e : expr)
| ENot (e : expr)
| EAnd (a b : expr)
| EOr (a b : expr)
| ECompare (op : cmpop) (a b : expr)
| EIfExp (c a b : expr)
| ECall (f : expr) (args : list expr) (kwargs : list (string * expr))
| ESubscript (e i : expr)
| ESlice (e : expr) (lo hi : option expr)
| ETuple (es : list expr)
| ESumGen (elt : expr) (x : string) (iter : expr)     (* sum(elt for x in iter) *)
| EGetattr (e : expr) (a : string) (d : option expr)  (* getattr(e, "a") / getattr(e, "a", d) *)
| EFString (parts : list expr)       (* f"..{e}.." without conversions / format specs; parts must be str *)
| EProp (e : expr) (name : string)   (* e.name where name is a translated @property of e's class *)
| EDict (items : list (expr * expr))                     (* {k: v, ..} *)
| EList (items : list (bool * expr))                     (* [a, *b, ..]: true = starred *)
| EPathAttr (x : string) (a : string)                    (* x.a where the local x aliases an object inside self *)
| EIndexDict (x : string) (a k : string)                 (* {e.k: e for e in x.a}, the values being aliases *)
| EClosure (q : list string) (captured : list string).
    (* the function object of a nested `def`, lambda-lifted to the translated function q whose
       leading parameters are the captured variables *)

Inductive stmt :=
| SAssign (x : string) (e : expr)
| SAugAssign (x : string) (op : binop) (e : expr)
| SSetAttr (x : string) (a : string) (e : expr)       (* x.a = e *)
| SUnpack (xs : list string) (e : expr)               (* x1, .., xn = e *)
| SIf (c : expr) (a b : list stmt)
| SWhile (c : expr) (body : list stmt)
| SReturn (e : option expr)
| SBreak
| SContinue
| SPass
| SExpr (e : expr)
| SRaise (k : exn) (args : list expr)
| STry (body : list stmt) (handlers : list (list exn * list stmt))
| SSuperInit (base : string) (args : list expr) (kwargs : list (string * expr))
    (* `super().__init__(..)` as a statement of an __init__ whose class has the single base `base` *)
| SReturnSelf                                            (* `return` / `return None` in a procedure *)
| SSelfCall (m : string) (args : list expr) (kwargs : list (string * expr))
    (* `self.m(..)` as a statement, m a procedure: self is rebound to what the call leaves *)
| SMutCall (x : string) (m : string) (args : list expr)  (* `x.m(..)` as a statement, x a local holding a builtin mutable object *)
| SForEnum (xi xv : string) (iter : expr) (body : list stmt)    (* for xi, xv in enumerate(iter) *)
| SSelfItemSet (field : string) (key value : expr)              (* self.field[key] = value, a dict *)
| SSelfFieldCall (field m : string) (args : list expr)          (* self.field.m(..) as a statement: a builtin mutable object *)
| SSelfEffect (target : option string) (field m : string) (args : list expr) (kwargs : list (string * expr))
              (awaited : bool)
    (* [target =] [await] self.field.m(..) where self.field is outside the translated code: recorded *)
| SCallbackEffect (f a k : expr)                                (* f( *a, **k ) as a statement, f a callable from outside: recorded *)
| SReturnState (e : option expr)                                (* `return e` in a method whose run yields (value, self) *)
| SSuspend (x : string)                                         (* the coroutine suspends in `x = await ..`: yields (Suspended x, self) *)
| SFor (x : string) (iter : expr) (body : list stmt)            (* for x in <list / tuple> *)
| SSelfItemDel (field : string) (key : expr)                    (* del self.field[key]: KeyError when absent *)
| SSelfItemCall (field : string) (key : expr) (m : string) (args : list expr)
    (* self.field[key].m(..) as a statement, m a procedure of the item's class: the item is replaced by
       what the call leaves; KeyError when absent *)
| SSelfItemSetAttr (field : string) (key : expr) (a : string) (value : expr)
| SAlias (x : string) (field : string) (key : expr)      (* x = self.field[key]: x aliases the item; KeyError when absent *)
| SPathSet (x : string) (a : string) (value : expr)      (* x.a = value, x an alias: written through self *)
| STryAs (body : list stmt) (handlers : list (list exn * string * list stmt))
    (* try: body  except (K1, ..) as x: handler ..: x is bound to a token naming the exception *)
| SSelfSubSet (a f : string) (value : expr)               (* self.a.f = value: self.a an instance this object owns *)
| SGlobalEffect (target : option string) (g : string) (args : list expr).
    (* [target =] g(..) where g is a function outside the translation that changes its arguments (objects
       with identity): recorded in self."$log" like SSelfEffect *)
    (* self.field[key].a = value; KeyError when absent *)

(* KProcedure: a method that never returns a value (Python: None) and may assign attributes of self;
   here a call of it yields the self it leaves (values are immutable), and it is only ever called as
   the statement SSelfCall *)
(* KStateful: a method that returns a value AND changes self / performs recorded calls: a call of it
   yields the pair (value, self) *)
Inductive fkind := KFunction | KMethod | KClassMethod | KProcedure | KStateful.

Record fundef := mkFun {
  fqual : list string;                        (* [function] or [class; method] *)
  fkind_of : fkind;
  fparams : list (string * option expr);      (* name, default (a constant) *)
  fbody : list stmt }.

Notation program := (list fundef) (only parsing).

(* a call of a translated function: qualified name, receiver (for `obj.m(..)` / `Cls.m(..)`),
   positional and keyword arguments *)
Notation callT := (list string -> option val -> list val -> list (string * val) -> res val) (only parsing).

(* ------------------------------------------------------------------------------------ *)
(* expressions                                                                           *)

(* validators of the record constructors: lsprotocol checks ResponseError.code as an LSP integer
   (-2^31 .. 2^31-1) and raises ValueError otherwise (asserted by reflection in gen_ast.py) *)
Definition ctor_check (cls : string) (fields : list (string * val)) : res val :=
  if String.eqb cls "ResponseError" then
    match get "code" fields with
    | Some (VInt c) =>
      if (-2147483648 <=? c) && (c <=? 2147483647) then Ok (VObj cls fields) else Raise ValueError
    | _ => Stuck "ResponseError.code is not an int"
    end
  else Ok (VObj cls fields).

(* defaults of the record constructors (a field without one is required) *)
Definition ctor_default (cls f : string) : option val :=
  if String.eqb cls "TextDocument" then
    (* TextDocument(uri, source=None, version=None, language_id=None, local=True,
                    sync_kind=TextDocumentSyncKind.Incremental, position_codec=None): the record of the
       constructor's arguments (what TextDocument.__init__ makes of them is text_document.py's) *)
    if String.eqb f "source" || String.eqb f "version" || String.eqb f "language_id" || String.eqb f "position_codec"
    then Some VNone
    else if String.eqb f "local" then Some (VBool true)
    else if String.eqb f "sync_kind" then Some (VGlobal ["TextDocumentSyncKind"; "Incremental"])
    else None
  else if String.eqb cls "TextDocumentSyncOptions" || String.eqb cls "RenameOptions" then Some VNone
  else None.

(* the value `except .. as x` binds: an opaque token naming the kind of the exception *)
Definition exn_name (k : exn) : string :=
  match k with
  | IndexError => "IndexError" | TypeError => "TypeError" | ValueError => "ValueError"
  | AttributeError => "AttributeError" | KeyError => "KeyError" | ExcOther => "Exception"
  | ExcUser n => n | ExcAny => "Exception"
  end.
Definition exc_val (k : exn) : val := VObj "$exception" [("kind", VGlobal [exn_name k])].

Definition construct (cls : string) (fields : list string) (args : list val) (kw : list (string * val))
  : res val :=
  (fix go (fs : list string) (args : list val) (acc : list (string * val)) : res val :=
     match fs with
     | [] => match args with
             | [] => if forallb (fun k => mem_str (fst k) fields) kw
                     then ctor_check cls (rev acc) else Raise TypeError
             | _ => Raise TypeError
             end
     | f :: fs' =>
       match args with
       | a :: args' => if mem_str f (map fst kw) then Raise TypeError else go fs' args' ((f, a) :: acc)
       | [] => match get f kw with
               | Some a => go fs' [] ((f, a) :: acc)
               | None => match ctor_default cls f with
                         | Some a => go fs' [] ((f, a) :: acc)
                         | None => Raise TypeError
                         end
               end
       end
     end) fields args [].

(* RE_DRIVE_LETTER_PATH = re.compile(r"^\/[a-zA-Z]:") (gen_ast.py checks the assignment): `.match(s)`
   yields a match object (truthy) or None *)
Definition re_drive_letter_match (s : list N) : bool :=
  match s with
  | a :: b :: c :: _ =>
    (a =? 47)%N && (((65 <=? b) && (b <=? 90)) || ((97 <=? b) && (b <=? 122)))%N && (c =? 58)%N
  | _ => false
  end.

(* text_document.py: RE_LINE = [^\r\n]*(?:\r\n|\r|\n)|[^\r\n]+ , findall = Base/PyStr.lsp_lines;
   RE_END_WORD = ^[A-Za-z_0-9]* and RE_START_WORD = [A-Za-z_0-9]*$ (no flags), findall as the
   scanners below (the same definitions as in Model/DocQuery.v).  gen_ast.py checks the literals. *)
Definition re_is_word (c : N) : bool :=
  (((65 <=? c) && (c <=? 90)) || ((97 <=? c) && (c <=? 122)) || (c =? 95) || ((48 <=? c) && (c <=? 57)))%N.
Fixpoint re_word_prefix (s : list N) : list N :=
  match s with [] => [] | c :: r => if re_is_word c then c :: re_word_prefix r else [] end.
Fixpoint re_skip_word (s : list N) : list N :=
  match s with [] => [] | c :: r => if re_is_word c then re_skip_word r else s end.
(* `$` without MULTILINE: at the end, or just before a final LF *)
Definition re_at_dollar (rest : list N) : bool :=
  match rest with [] => true | [c] => (c =? 10)%N | _ => false end.
(* RE_END_WORD.findall(s): `^` matches at 0 only: exactly one (possibly empty) match *)
Definition re_end_word_findall (s : list N) : list (list N) := [re_word_prefix s].
(* RE_START_WORD.findall(s): scan from the left; at a position the greedy run must end at `$`
   (giving characters back cannot help); after a match the scan goes on behind it, after an empty
   match one character further; the end of the string is tried too *)
Fixpoint re_start_word_findall_fuel (n : nat) (s : list N) : list (list N) :=
  match n with
  | O => []
  | S n' =>
    if re_at_dollar (re_skip_word s) then
      match re_word_prefix s with
      | [] => [] :: match s with [] => [] | _ :: r => re_start_word_findall_fuel n' r end
      | w => w :: re_start_word_findall_fuel n' (re_skip_word s)
      end
    else match s with [] => [] | _ :: r => re_start_word_findall_fuel n' r end
  end.
Definition re_start_word_findall (s : list N) : list (list N) :=
  re_start_word_findall_fuel (S (S (length s))) s.

Definition global_method (p : list string) (args : list val) : option (res val) :=
  if path_eqb p ["RE_DRIVE_LETTER_PATH"; "match"] then
    Some (match args with
          | [VStr s] => Ok (if re_drive_letter_match s then VObj "re.Match" [] else VNone)
          | _ => Stuck "RE_DRIVE_LETTER_PATH.match"
          end)
  else if path_eqb p ["RE_LINE"; "findall"] then
    Some (match args with [VStr s] => Ok (VList (map VStr (lsp_lines s))) | _ => Stuck "RE_LINE.findall" end)
  else if path_eqb p ["RE_START_WORD"; "findall"] then
    Some (match args with
          | [VStr s] => Ok (VList (map VStr (re_start_word_findall s)))
          | _ => Stuck "RE_START_WORD.findall"
          end)
  else if path_eqb p ["RE_END_WORD"; "findall"] then
    Some (match args with
          | [VStr s] => Ok (VList (map VStr (re_end_word_findall s)))
          | _ => Stuck "RE_END_WORD.findall"
          end)
  else if path_eqb p ["copy"; "deepcopy"] then
    (* values are immutable here: a deep copy is the value itself *)
    Some (match args with [v] => Ok v | _ => Stuck "copy.deepcopy" end)
  else if path_eqb p ["io"; "StringIO"] then
    (* an empty text buffer; it is written to by the statement SMutCall only *)
    Some (match args with [] => Ok (VObj "StringIO" [("buf", VStr [])]) | _ => Stuck "io.StringIO with an argument" end)
  else if path_eqb p ["logger"; "error"] || path_eqb p ["logger"; "warning"] || path_eqb p ["logger"; "info"]
          || path_eqb p ["logger"; "debug"] || path_eqb p ["logger"; "exception"] then
    Some (Ok VNone)                    (* logging: nothing the models observe *)
  else None.

(* methods of the builtin objects that values can hold *)
Definition obj_method (cls m : string) (fields : list (string * val)) (args : list val) : option (res val) :=
  if String.eqb cls "StringIO" then
    if String.eqb m "getvalue" then
      Some (match args, get "buf" fields with [], Some b => Ok b | _, _ => Stuck "StringIO.getvalue" end)
    else Some (Stuck "StringIO method in an expression")
  else if String.eqb cls "dict" then
    if String.eqb m "get" then
      Some (match args, fields with
            | [k], [(f, VList items)] =>
              if String.eqb f "items" then Ok (match dict_get k items with Some v => v | None => VNone end)
              else Stuck "dict.get"
            | [k; d], [(f, VList items)] =>
              if String.eqb f "items" then Ok (match dict_get k items with Some v => v | None => d end)
              else Stuck "dict.get"
            | _, _ => Stuck "dict.get"
            end)
    else Some (Stuck "dict method in an expression")
  else None.

(* ... and the ones that change the object (statement SMutCall: the local is rebound) *)
Definition obj_mutator (m : string) (v : val) (args : list val) : res val :=
  match v with
  | VObj cls fields =>
    if String.eqb cls "StringIO" && String.eqb m "write" then
      match args, get "buf" fields with
      | [VStr t], Some (VStr b) => Ok (VObj cls [("buf", VStr (b ++ t)%list)])
      | _, _ => Stuck "StringIO.write"
      end
    else if String.eqb cls "dict" && String.eqb m "setdefault" then
      match args, dict_items v with
      | [k; d], Some items => Ok (mk_dict (if dict_mem k items then items else dict_set k d items))
      | _, _ => Stuck "dict.setdefault"
      end
    else if String.eqb cls "dict" && String.eqb m "pop" then
      match args, dict_items v with
      | [k; _], Some items => Ok (mk_dict (dict_del k items))     (* with a default: never raises *)
      | _, _ => Stuck "dict.pop: only with a default"
      end
    else Stuck "unknown mutating method"
  | _ => Stuck "mutating method on this value"
  end.


(* sum(elt for x in l) over a list: left to right from 0 *)
Fixpoint sum_vals (f : val -> res val) (l : list val) (acc : Z) : res val :=
  match l with
  | [] => Ok (VInt acc)
  | v :: r =>
    match f v with
    | Ok w => match as_int w with
              | Some z => sum_vals f r (acc + z)
              | None => Raise TypeError
              end
    | Raise k => Raise k
    | Stuck w => Stuck w
    end
  end.

(* ---- paths: a local may ALIAS an object that lives inside self (x = self.D[k]; an element of the list
   x.a).  Values are immutable, so such a local holds the PATH from self to the object
   (VObj "$path" [("steps", VList steps)]; a step is VGlobal [attribute], VTuple [dict key] or VInt
   list index), it is read and written THROUGH self, and harness/gen_ast.py checks statically that the
   path keeps denoting the same object while the alias is in use (the dictionary entry is not rebound,
   the list is not replaced, the alias does not escape). *)
Fixpoint path_get (root : val) (steps : list val) : res val :=
  match steps with
  | [] => Ok root
  | VGlobal [a] :: r =>
    match root with
    | VObj _ fields => match get a fields with Some v => path_get v r | None => Raise AttributeError end
    | _ => Stuck "path: attribute of a non-object"
    end
  | VTuple [k] :: r =>
    match dict_items root with
    | Some items => match dict_get k items with Some v => path_get v r | None => Raise KeyError end
    | None => Stuck "path: item of a non-dict"
    end
  | VInt i :: r =>
    match root with
    | VList l => match nth_error l (Z.to_nat i) with Some v => path_get v r | None => Raise IndexError end
    | _ => Stuck "path: index of a non-list"
    end
  | _ => Stuck "path step"
  end.

Definition mk_path (steps : list val) : val := VObj "$path" [("steps", VList steps)].
Definition path_steps (v : val) : option (list val) :=
  match v with
  | VObj cls [(f, VList steps)] => if String.eqb cls "$path" && String.eqb f "steps" then Some steps else None
  | _ => None
  end.

(* {elem.k: elem for elem in <the list at path base>}: for each key the path of the LAST element with it *)
Fixpoint index_dict (base : list val) (k : string) (l : list val) (i : Z) (acc : list val) : res (list val) :=
  match l with
  | [] => Ok acc
  | e :: r =>
    match e with
    | VObj _ fields =>
      match get k fields with
      | Some kv => index_dict base k r (i + 1) (dict_set kv (mk_path (base ++ [VInt i])%list) acc)
      | None => Raise AttributeError
      end
    | _ => Stuck "index dict over non-objects"
    end
  end.

Section Eval.
Variable call : callT.

Definition apply_global (p : list string) (args : list val) (kw : list (string * val)) : res val :=
  match p with
  | [g] =>
    match builtin g args with
    | Some r => match kw with [] => r | _ => Stuck "builtin with keywords" end
    | None =>
      match ctor_table p with
      | Some (cls, fields) => construct cls fields args kw
      | None => call p None args kw
      end
    end
  | [c; _] =>
    match global_method p args with
    | Some r => match kw with
                | [] => r
                | _ => if String.eqb c "logger" then r      (* logging with exc_info= / extra=: nothing observed *)
                       else Stuck "primitive with keywords"
                end
    | None =>
      match ctor_table p with
      | Some (cls, fields) => construct cls fields args kw
      | None => call p (Some (VGlobal [c])) args kw
      end
    end
  | _ => Stuck "callee path"
  end.

Fixpoint eval (env : envT) (e : expr) {struct e} : res val :=
  match e with
  | EName x => match get x env with Some v => Ok v | None => Stuck "unbound local" end
  | EGlobal g => match global_const [g] with Some c => Ok c | None => Ok (VGlobal [g]) end
  | EInt z => Ok (VInt z)
  | EBool b => Ok (VBool b)
  | EStr s => Ok (VStr s)
  | ENone => Ok VNone
  | EAttr e a =>
    match eval env e with Ok v => py_getattr v a | Raise k => Raise k | Stuck w => Stuck w end
  | EBinOp op a b =>
    match eval env a with
    | Ok va => match eval env b with
               | Ok vb => py_binop op va vb
               | Raise k => Raise k | Stuck w => Stuck w
               end
    | Raise k => Raise k | Stuck w => Stuck w
    end
  | ENeg e =>
    match eval env e with
    | Ok v => match as_int v with Some z => Ok (VInt (- z)) | None => Stuck "unary minus" end
    | Raise k => Raise k | Stuck w => Stuck w
    end
  | ENot e =>
    match eval env e with Ok v => Ok (VBool (negb (truthy v))) | Raise k => Raise k | Stuck w => Stuck w end
  | EAnd a b =>
    match eval env a with
    | Ok va => if truthy va then eval env b else Ok va
    | Raise k => Raise k | Stuck w => Stuck w
    end
  | EOr a b =>
    match eval env a with
    | Ok va => if truthy va then Ok va else eval env b
    | Raise k => Raise k | Stuck w => Stuck w
    end
  | ECompare op a b =>
    match eval env a with
    | Ok va => match eval env b with
               | Ok vb => py_compare op va vb
               | Raise k => Raise k | Stuck w => Stuck w
               end
    | Raise k => Raise k | Stuck w => Stuck w
    end
  | EIfExp c a b =>
    match eval env c with
    | Ok vc => if truthy vc then eval env a else eval env b
    | Raise k => Raise k | Stuck w => Stuck w
    end
  | ECall f args kwargs =>
    let eval_args :=
      (fix go (es : list expr) : res (list val) :=
         match es with
         | [] => Ok []
         | e :: r => match eval env e with
                     | Ok v => match go r with Ok vs => Ok (v :: vs) | Raise k => Raise k | Stuck w => Stuck w end
                     | Raise k => Raise k | Stuck w => Stuck w
                     end
         end) args in
    let eval_kw :=
      (fix go (es : list (string * expr)) : res (list (string * val)) :=
         match es with
         | [] => Ok []
         | (x, e) :: r => match eval env e with
                          | Ok v => match go r with Ok vs => Ok ((x, v) :: vs) | Raise k => Raise k | Stuck w => Stuck w end
                          | Raise k => Raise k | Stuck w => Stuck w
                          end
         end) kwargs in
    match f with
    | EGlobal g =>
      match eval_args with
      | Ok vs => match eval_kw with
                 | Ok kw => apply_global [g] vs kw
                 | Raise k => Raise k | Stuck w => Stuck w
                 end
      | Raise k => Raise k | Stuck w => Stuck w
      end
    | EAttr r m =>
      match eval env r with
      | Ok rv =>
        match eval_args with
        | Ok vs =>
          match eval_kw with
          | Ok kw =>
            match rv with
            | VObj cls fields =>
              match obj_method cls m fields vs with
              | Some r => match kw with [] => r | _ => Stuck "builtin method with keywords" end
              | None => call [cls; m] (Some rv) vs kw
              end
            | VStr s => match kw with [] => str_method m s vs | _ => Stuck "str method with keywords" end
            | VGlobal p => apply_global (snoc p m) vs kw
            | _ => Stuck "method call on this value"
            end
          | Raise k => Raise k | Stuck w => Stuck w
          end
        | Raise k => Raise k | Stuck w => Stuck w
        end
      | Raise k => Raise k | Stuck w => Stuck w
      end
    | _ => Stuck "callee expression"
    end
  | ESubscript e i =>
    match eval env e with
    | Ok v => match eval env i with
              | Ok vi => py_subscript v vi
              | Raise k => Raise k | Stuck w => Stuck w
              end
    | Raise k => Raise k | Stuck w => Stuck w
    end
  | ESlice e lo hi =>
    match eval env e with
    | Ok v =>
      match (match lo with None => Ok None
                         | Some l => match eval env l with Ok x => Ok (Some x) | Raise k => Raise k | Stuck w => Stuck w end
             end) with
      | Ok vlo =>
        match (match hi with None => Ok None
                           | Some h => match eval env h with Ok x => Ok (Some x) | Raise k => Raise k | Stuck w => Stuck w end
               end) with
        | Ok vhi => py_slice v vlo vhi
        | Raise k => Raise k | Stuck w => Stuck w
        end
      | Raise k => Raise k | Stuck w => Stuck w
      end
    | Raise k => Raise k | Stuck w => Stuck w
    end
  | ETuple es =>
    match (fix go (es : list expr) : res (list val) :=
             match es with
             | [] => Ok []
             | e :: r => match eval env e with
                         | Ok v => match go r with Ok vs => Ok (v :: vs) | Raise k => Raise k | Stuck w => Stuck w end
                         | Raise k => Raise k | Stuck w => Stuck w
                         end
             end) es with
    | Ok vs => Ok (VTuple vs)
    | Raise k => Raise k | Stuck w => Stuck w
    end
  | EFString parts =>
    (fix go (es : list expr) : res val :=
       match es with
       | [] => Ok (VStr [])
       | e :: r =>
         (* the text of this part: a str as it is; format(v) of anything else is outside the translation
            (an oracle that must return a str) *)
         match (match eval env e with
                | Ok (VStr s) => Ok s
                | Ok v => match call ["format"] None [v] [] with
                          | Ok (VStr s) => Ok s
                          | Ok _ => Stuck "format() that does not return a str"
                          | Raise k => Raise k | Stuck w => Stuck w
                          end
                | Raise k => Raise k | Stuck w => Stuck w
                end) with
         | Ok s => match go r with
                   | Ok (VStr t) => Ok (VStr (s ++ t)%list)
                   | Ok _ => Stuck "f-string"
                   | Raise k => Raise k | Stuck w => Stuck w
                   end
         | Raise k => Raise k | Stuck w => Stuck w
         end
       end) parts
  | EList items =>
    match (fix go (es : list (bool * expr)) : res (list val) :=
             match es with
             | [] => Ok []
             | (star, e) :: r =>
               match eval env e with
               | Ok v =>
                 match go r with
                 | Ok vs => if star then match v with
                                         | VList l => Ok (l ++ vs)%list
                                         | VTuple l => Ok (l ++ vs)%list
                                         | _ => Stuck "* of a non-list"
                                         end
                            else Ok (v :: vs)
                 | Raise k => Raise k | Stuck w => Stuck w
                 end
               | Raise k => Raise k | Stuck w => Stuck w
               end
             end) items with
    | Ok l => Ok (VList l)
    | Raise k => Raise k | Stuck w => Stuck w
    end
  | EPathAttr x a =>
    match get x env, get "self" env with
    | Some xv, Some sv =>
      match path_steps xv with
      | Some st => path_get sv (st ++ [VGlobal [a]])%list
      | None => Stuck "attribute through a local that is not an alias"
      end
    | _, _ => Stuck "unbound local"
    end
  | EIndexDict x a k =>
    match get x env, get "self" env with
    | Some xv, Some sv =>
      match path_steps xv with
      | Some st =>
        match path_get sv (st ++ [VGlobal [a]])%list with
        | Ok (VList l) => match index_dict (st ++ [VGlobal [a]])%list k l 0 [] with
                          | Ok items => Ok (mk_dict items)
                          | Raise e => Raise e | Stuck w => Stuck w
                          end
        | Ok _ => Stuck "index dict over a non-list"
        | Raise e => Raise e | Stuck w => Stuck w
        end
      | None => Stuck "index dict through a local that is not an alias"
      end
    | _, _ => Stuck "unbound local"
    end
  | EDict items =>
    match (fix go (es : list (expr * expr)) (acc : list val) : res (list val) :=
             match es with
             | [] => Ok acc
             | (ke, ve) :: r =>
               match eval env ke with
               | Ok kv => match eval env ve with
                          | Ok vv => go r (dict_set kv vv acc)
                          | Raise k => Raise k | Stuck w => Stuck w
                          end
               | Raise k => Raise k | Stuck w => Stuck w
               end
             end) items [] with
    | Ok l => Ok (mk_dict l)
    | Raise k => Raise k | Stuck w => Stuck w
    end
  | EClosure q captured =>
    match (fix go (xs : list string) : option (list (string * val)) :=
             match xs with
             | [] => Some []
             | x :: r => match get x env, go r with Some v, Some l => Some ((x, v) :: l) | _, _ => None end
             end) captured with
    | Some l => Ok (VObj "closure" (("$fn", VGlobal q) :: l))
    | None => Stuck "unbound captured variable"
    end
  | EProp e name =>
    match eval env e with
    | Ok (VObj cls fields) => call [cls; name] (Some (VObj cls fields)) [] []
    | Ok _ => Stuck "property of a non-object"
    | Raise k => Raise k | Stuck w => Stuck w
    end
  | EGetattr e a d =>
    match eval env e with
    | Ok v =>
      match d with
      | None => py_getattr v a
      | Some de =>
        match eval env de with
        | Ok dv => match py_getattr v a with Raise AttributeError => Ok dv | r => r end
        | Raise k => Raise k | Stuck w => Stuck w
        end
      end
    | Raise k => Raise k | Stuck w => Stuck w
    end
  | ESumGen elt x iter =>
    match eval env iter with
    | Ok (VStr s) => sum_chars (fun c => eval (set x (VStr [c]) env) elt) s 0
    | Ok (VList l) => sum_vals (fun v => eval (set x v env) elt) l 0
    | Ok _ => Stuck "generator over a non-sequence"
    | Raise k => Raise k | Stuck w => Stuck w
    end
  end.

(* ------------------------------------------------------------------------------------ *)
(* statements                                                                            *)

Inductive outcome :=
| ONormal (env : envT)
| OReturn (v : val)
| OBreak (env : envT)
| OContinue (env : envT)
| ORaise (k : exn) (env : envT)
| OStuck (why : string)
| OFuel.

(* `while`: at most n iterations *)
Fixpoint while_loop (cond : envT -> res val) (body : envT -> outcome) (n : nat) (env : envT) : outcome :=
  match n with
  | O => OFuel
  | S n' =>
    match cond env with
    | Ok v =>
      if truthy v then
        match body env with
        | ONormal env' => while_loop cond body n' env'
        | OContinue env' => while_loop cond body n' env'
        | OBreak env' => ONormal env'
        | o => o
        end
      else ONormal env
    | Raise k => ORaise k env
    | Stuck w => OStuck w
    end
  end.

(* `for x in l` *)
Fixpoint for_each (body : envT -> outcome) (x : string) (l : list val) (env : envT) : outcome :=
  match l with
  | [] => ONormal env
  | v :: r =>
    match body (set x v env) with
    | ONormal env' => for_each body x r env'
    | OContinue env' => for_each body x r env'
    | OBreak env' => ONormal env'
    | o => o
    end
  end.

(* `for xi, xv in enumerate(l)`: no fuel, the list is finite *)
Fixpoint for_enum (body : envT -> outcome) (xi xv : string) (l : list val) (idx : Z) (env : envT) : outcome :=
  match l with
  | [] => ONormal env
  | v :: r =>
    match body (set xv v (set xi (VInt idx) env)) with
    | ONormal env' => for_enum body xi xv r (idx + 1) env'
    | OContinue env' => for_enum body xi xv r (idx + 1) env'
    | OBreak env' => ONormal env'
    | o => o
    end
  end.

Fixpoint exn_in (k : exn) (ks : list exn) : bool :=
  match ks with
  | [] => false
  | k' :: r => match k, k' with
               | IndexError, IndexError | TypeError, TypeError | ValueError, ValueError
               | AttributeError, AttributeError | KeyError, KeyError | ExcOther, ExcOther => true
               | _, ExcAny => true
               | ExcUser a, ExcUser b => if String.eqb a b then true else exn_in k r
               | _, _ => exn_in k r
               end
  end.

Fixpoint bind_names (xs : list string) (vs : list val) (env : envT) : option envT :=
  match xs, vs with
  | [], [] => Some env
  | x :: xs', v :: vs' => bind_names xs' vs' (set x v env)
  | _, _ => None
  end.

Definition set_field (a : string) (v : val) (fields : list (string * val)) : list (string * val) :=
  (fix go (fs : list (string * val)) : list (string * val) :=
     match fs with
     | [] => [(a, v)]
     | (b, w) :: r => if String.eqb a b then (a, v) :: r else (b, w) :: go r
     end) fields.

Fixpoint list_set {A} (l : list A) (i : nat) (v : A) : list A :=
  match l, i with
  | [], _ => []
  | _ :: r, O => v :: r
  | x :: r, S j => x :: list_set r j v
  end.

Fixpoint path_set (root : val) (steps : list val) (v : val) : res val :=
  match steps with
  | [] => Ok v
  | VGlobal [a] :: r =>
    match root with
    | VObj cls fields =>
      match r with
      | [] => Ok (VObj cls (set_field a v fields))          (* x.a = v: the attribute need not exist yet *)
      | _ => match get a fields with
             | Some old => match path_set old r v with
                           | Ok new => Ok (VObj cls (set_field a new fields))
                           | Raise k => Raise k | Stuck w => Stuck w
                           end
             | None => Raise AttributeError
             end
      end
    | _ => Stuck "path: attribute of a non-object"
    end
  | VTuple [k] :: r =>
    match dict_items root with
    | Some items =>
      match dict_get k items with
      | Some old => match path_set old r v with
                    | Ok new => Ok (mk_dict (dict_upd k new items))
                    | Raise e => Raise e | Stuck w => Stuck w
                    end
      | None => Raise KeyError
      end
    | None => Stuck "path: item of a non-dict"
    end
  | VInt i :: r =>
    match root with
    | VList l =>
      match nth_error l (Z.to_nat i) with
      | Some old => match path_set old r v with
                    | Ok new => Ok (VList (list_set l (Z.to_nat i) new))
                    | Raise e => Raise e | Stuck w => Stuck w
                    end
      | None => Raise IndexError
      end
    | _ => Stuck "path: index of a non-list"
    end
  | _ => Stuck "path step"
  end.

(* the effect log: calls that leave the translated code (the protocol object, user callbacks) are not
   executed but recorded, in order, in the ghost attribute "$log" of self; what a recorded call returns is
   an opaque token naming the call *)
Definition log_effect (sv : val) (entry : val) : res (val * val) :=
  match sv with
  | VObj cls fields =>
    match get "$log" fields with
    | Some (VList log) =>
      Ok (VObj "Result" [("n", VInt (Z.of_N (len log)))],
          VObj cls (set_field "$log" (VList (log ++ [entry])%list) fields))
    | _ => Stuck "no effect log"
    end
  | _ => Stuck "no effect log"
  end.

(* the statements without sub-statements (kept apart so that unfolding `exec` stays small) *)
Definition exec_atomic (env : envT) (s : stmt) : outcome :=
  match s with
  | SAssign x e =>
    match eval env e with
    | Ok v => ONormal (set x v env)
    | Raise k => ORaise k env | Stuck w => OStuck w
    end
  | SAugAssign x op e =>
    match get x env with
    | Some old =>
      match eval env e with
      | Ok v => match py_binop op old v with
                | Ok v' => ONormal (set x v' env)
                | Raise k => ORaise k env | Stuck w => OStuck w
                end
      | Raise k => ORaise k env | Stuck w => OStuck w
      end
    | None => OStuck "augmented assignment to an unbound local"
    end
  | SSetAttr x a e =>
    match eval env e with
    | Ok v => match get x env with
              | Some (VObj cls fields) => ONormal (set x (VObj cls (set_field a v fields)) env)
              | _ => OStuck "attribute assignment"
              end
    | Raise k => ORaise k env | Stuck w => OStuck w
    end
  | SUnpack xs e =>
    match eval env e with
    | Ok (VTuple vs) => match bind_names xs vs env with
                        | Some env' => ONormal env'
                        | None => ORaise ValueError env
                        end
    | Ok _ => OStuck "unpacking a non-tuple"
    | Raise k => ORaise k env | Stuck w => OStuck w
    end
  | SReturn None => OReturn VNone
  | SReturn (Some e) =>
    match eval env e with
    | Ok v => OReturn v
    | Raise k => ORaise k env | Stuck w => OStuck w
    end
  | SBreak => OBreak env
  | SContinue => OContinue env
  | SPass => ONormal env
  | SExpr e =>
    match eval env e with
    | Ok _ => ONormal env
    | Raise k => ORaise k env | Stuck w => OStuck w
    end
  | SRaise k args =>
    match (fix go (es : list expr) : res unit :=
             match es with
             | [] => Ok tt
             | e :: r => match eval env e with Ok _ => go r | Raise k => Raise k | Stuck w => Stuck w end
             end) args with
    | Ok _ => ORaise k env
    | Raise k' => ORaise k' env | Stuck w => OStuck w
    end
  | SSuperInit base args kwargs =>
    match (fix go (es : list expr) : res (list val) :=
             match es with
             | [] => Ok []
             | e :: r => match eval env e with
                         | Ok v => match go r with Ok vs => Ok (v :: vs) | Raise k => Raise k | Stuck w => Stuck w end
                         | Raise k => Raise k | Stuck w => Stuck w
                         end
             end) args with
    | Ok vs =>
      match (fix go (es : list (string * expr)) : res (list (string * val)) :=
               match es with
               | [] => Ok []
               | (x, e) :: r => match eval env e with
                                | Ok v => match go r with Ok ws => Ok ((x, v) :: ws) | Raise k => Raise k | Stuck w => Stuck w end
                                | Raise k => Raise k | Stuck w => Stuck w
                                end
               end) kwargs with
      | Ok kw =>
        match get "self" env with
        | Some sv =>
          if String.eqb base "Exception" then
            (* BaseException.__init__ stores its positional arguments; nothing the model observes *)
            match kw with [] => ONormal env | _ => ORaise TypeError env end
          else
            match call [base; "__init__"] (Some sv) vs kw with
            | Ok sv' => ONormal (set "self" sv' env)
            | Raise k => ORaise k env | Stuck w => OStuck w
            end
        | None => OStuck "super().__init__ without self"
        end
      | Raise k => ORaise k env | Stuck w => OStuck w
      end
    | Raise k => ORaise k env | Stuck w => OStuck w
    end
  | SReturnSelf =>
    match get "self" env with Some sv => OReturn sv | None => OStuck "procedure without self" end
  | SSelfCall m args kwargs =>
    match (fix go (es : list expr) : res (list val) :=
             match es with
             | [] => Ok []
             | e :: r => match eval env e with
                         | Ok v => match go r with Ok vs => Ok (v :: vs) | Raise k => Raise k | Stuck w => Stuck w end
                         | Raise k => Raise k | Stuck w => Stuck w
                         end
             end) args with
    | Ok vs =>
      match (fix go (es : list (string * expr)) : res (list (string * val)) :=
               match es with
               | [] => Ok []
               | (x, e) :: r => match eval env e with
                                | Ok v => match go r with Ok ws => Ok ((x, v) :: ws) | Raise k => Raise k | Stuck w => Stuck w end
                                | Raise k => Raise k | Stuck w => Stuck w
                                end
               end) kwargs with
      | Ok kw =>
        match get "self" env with
        | Some (VObj cls fields) =>
          match call [cls; m] (Some (VObj cls fields)) vs kw with
          | Ok sv' => ONormal (set "self" sv' env)
          | Raise k => ORaise k env | Stuck w => OStuck w
          end
        | _ => OStuck "self.m(..) without an instance"
        end
      | Raise k => ORaise k env | Stuck w => OStuck w
      end
    | Raise k => ORaise k env | Stuck w => OStuck w
    end
  | SMutCall x m args =>
    match (fix go (es : list expr) : res (list val) :=
             match es with
             | [] => Ok []
             | e :: r => match eval env e with
                         | Ok v => match go r with Ok vs => Ok (v :: vs) | Raise k => Raise k | Stuck w => Stuck w end
                         | Raise k => Raise k | Stuck w => Stuck w
                         end
             end) args with
    | Ok vs =>
      match get x env with
      | Some v => match obj_mutator m v vs with
                  | Ok v' => ONormal (set x v' env)
                  | Raise k => ORaise k env | Stuck w => OStuck w
                  end
      | None => OStuck "unbound local"
      end
    | Raise k => ORaise k env | Stuck w => OStuck w
    end
  | SSelfItemSet field key value =>
    match eval env key with
    | Ok kv =>
      match eval env value with
      | Ok vv =>
        match get "self" env with
        | Some (VObj cls fields) =>
          match get field fields with
          | Some d => match dict_items d with
                      | Some items =>
                        ONormal (set "self" (VObj cls (set_field field (mk_dict (dict_set kv vv items)) fields)) env)
                      | None => OStuck "item assignment on a non-dict"
                      end
          | None => ORaise AttributeError env
          end
        | _ => OStuck "self.field[k] = v without an instance"
        end
      | Raise k => ORaise k env | Stuck w => OStuck w
      end
    | Raise k => ORaise k env | Stuck w => OStuck w
    end
  | SSelfFieldCall field m args =>
    match (fix go (es : list expr) : res (list val) :=
             match es with
             | [] => Ok []
             | e :: r => match eval env e with
                         | Ok v => match go r with Ok vs => Ok (v :: vs) | Raise k => Raise k | Stuck w => Stuck w end
                         | Raise k => Raise k | Stuck w => Stuck w
                         end
             end) args with
    | Ok vs =>
      match get "self" env with
      | Some (VObj cls fields) =>
        match get field fields with
        | Some d => match obj_mutator m d vs with
                    | Ok d' => ONormal (set "self" (VObj cls (set_field field d' fields)) env)
                    | Raise k => ORaise k env | Stuck w => OStuck w
                    end
        | None => ORaise AttributeError env
        end
      | _ => OStuck "self.field.m(..) without an instance"
      end
    | Raise k => ORaise k env | Stuck w => OStuck w
    end
  | SSelfEffect target field m args kwargs awaited =>
    match (fix go (es : list expr) : res (list val) :=
             match es with
             | [] => Ok []
             | e :: r => match eval env e with
                         | Ok v => match go r with Ok vs => Ok (v :: vs) | Raise k => Raise k | Stuck w => Stuck w end
                         | Raise k => Raise k | Stuck w => Stuck w
                         end
             end) args with
    | Ok vs =>
      match (fix go (es : list (string * expr)) : res (list val) :=
               match es with
               | [] => Ok []
               | (x, e) :: r => match eval env e with
                                | Ok v => match go r with Ok ws => Ok (VTuple [VGlobal [x]; v] :: ws) | Raise k => Raise k | Stuck w => Stuck w end
                                | Raise k => Raise k | Stuck w => Stuck w
                                end
               end) kwargs with
      | Ok kw =>
        match get "self" env with
        | Some sv =>
          match log_effect sv (VTuple [VGlobal [field; m]; VList vs; VList kw; VBool awaited]) with
          | Ok (r, sv') =>
            ONormal (match target with Some x => set x r (set "self" sv' env) | None => set "self" sv' env end)
          | Raise k => ORaise k env | Stuck w => OStuck w
          end
        | None => OStuck "recorded call without self"
        end
      | Raise k => ORaise k env | Stuck w => OStuck w
      end
    | Raise k => ORaise k env | Stuck w => OStuck w
    end
  | SCallbackEffect f a k =>
    match eval env f with
    | Ok fv =>
      match eval env a with
      | Ok av =>
        match eval env k with
        | Ok kv =>
          match get "self" env with
          | Some sv =>
            match log_effect sv (VTuple [VGlobal ["call"]; fv; av; kv]) with
            | Ok (_, sv') => ONormal (set "self" sv' env)
            | Raise e => ORaise e env | Stuck w => OStuck w
            end
          | None => OStuck "recorded call without self"
          end
        | Raise e => ORaise e env | Stuck w => OStuck w
        end
      | Raise e => ORaise e env | Stuck w => OStuck w
      end
    | Raise e => ORaise e env | Stuck w => OStuck w
    end
  | SReturnState e =>
    match (match e with None => Ok VNone | Some e' => eval env e' end) with
    | Ok v => match get "self" env with
              | Some sv => OReturn (VTuple [v; sv])
              | None => OStuck "stateful method without self"
              end
    | Raise k => ORaise k env | Stuck w => OStuck w
    end
  | SSuspend x =>
    match get x env, get "self" env with
    | Some v, Some sv => OReturn (VTuple [VObj "Suspended" [("on", v)]; sv])
    | _, _ => OStuck "suspend"
    end
  | SSelfItemDel field key =>
    match eval env key with
    | Ok kv =>
      match get "self" env with
      | Some (VObj cls fields) =>
        match get field fields with
        | Some d => match dict_items d with
                    | Some items =>
                      if dict_mem kv items
                      then ONormal (set "self" (VObj cls (set_field field (mk_dict (dict_del kv items)) fields)) env)
                      else ORaise KeyError env
                    | None => OStuck "item deletion on a non-dict"
                    end
        | None => ORaise AttributeError env
        end
      | _ => OStuck "del self.field[k] without an instance"
      end
    | Raise k => ORaise k env | Stuck w => OStuck w
    end
  | SSelfItemCall field key m args =>
    match eval env key with
    | Ok kv =>
      match (fix go (es : list expr) : res (list val) :=
               match es with
               | [] => Ok []
               | e :: r => match eval env e with
                           | Ok v => match go r with Ok vs => Ok (v :: vs) | Raise k => Raise k | Stuck w => Stuck w end
                           | Raise k => Raise k | Stuck w => Stuck w
                           end
               end) args with
      | Ok vs =>
        match get "self" env with
        | Some (VObj cls fields) =>
          match get field fields with
          | Some d =>
            match dict_items d with
            | Some items =>
              match dict_get kv items with
              | Some (VObj icls ifields) =>
                match call [icls; m] (Some (VObj icls ifields)) vs [] with
                | Ok item' =>
                  ONormal (set "self" (VObj cls (set_field field (mk_dict (dict_set kv item' items)) fields)) env)
                | Raise k => ORaise k env | Stuck w => OStuck w
                end
              | Some _ => OStuck "method call on an item that is not an instance"
              | None => ORaise KeyError env
              end
            | None => OStuck "item access on a non-dict"
            end
          | None => ORaise AttributeError env
          end
        | _ => OStuck "self.field[k].m(..) without an instance"
        end
      | Raise k => ORaise k env | Stuck w => OStuck w
      end
    | Raise k => ORaise k env | Stuck w => OStuck w
    end
  | SSelfItemSetAttr field key a value =>
    match eval env key with
    | Ok kv =>
      match eval env value with
      | Ok vv =>
        match get "self" env with
        | Some (VObj cls fields) =>
          match get field fields with
          | Some d =>
            match dict_items d with
            | Some items =>
              match dict_get kv items with
              | Some (VObj icls ifields) =>
                ONormal (set "self" (VObj cls (set_field field
                           (mk_dict (dict_set kv (VObj icls (set_field a vv ifields)) items)) fields)) env)
              | Some _ => OStuck "attribute assignment on an item that is not an instance"
              | None => ORaise KeyError env
              end
            | None => OStuck "item access on a non-dict"
            end
          | None => ORaise AttributeError env
          end
        | _ => OStuck "self.field[k].a = v without an instance"
        end
      | Raise k => ORaise k env | Stuck w => OStuck w
      end
    | Raise k => ORaise k env | Stuck w => OStuck w
    end
  | SAlias x field key =>
    match eval env key with
    | Ok kv =>
      match get "self" env with
      | Some sv =>
        match path_get sv [VGlobal [field]; VTuple [kv]] with
        | Ok _ => ONormal (set x (mk_path [VGlobal [field]; VTuple [kv]]) env)
        | Raise k => ORaise k env | Stuck w => OStuck w
        end
      | None => OStuck "alias without self"
      end
    | Raise k => ORaise k env | Stuck w => OStuck w
    end
  | SPathSet x a value =>
    match eval env value with
    | Ok v =>
      match get x env, get "self" env with
      | Some xv, Some sv =>
        match path_steps xv with
        | Some st =>
          match path_set sv (st ++ [VGlobal [a]])%list v with
          | Ok sv' => ONormal (set "self" sv' env)
          | Raise k => ORaise k env | Stuck w => OStuck w
          end
        | None => OStuck "attribute assignment through a local that is not an alias"
        end
      | _, _ => OStuck "unbound local"
      end
    | Raise k => ORaise k env | Stuck w => OStuck w
    end
  | SSelfSubSet a f value =>
    match eval env value with
    | Ok v =>
      match get "self" env with
      | Some sv =>
        match path_set sv [VGlobal [a]; VGlobal [f]] v with
        | Ok sv' => ONormal (set "self" sv' env)
        | Raise k => ORaise k env | Stuck w => OStuck w
        end
      | None => OStuck "self.a.f = v without self"
      end
    | Raise k => ORaise k env | Stuck w => OStuck w
    end
  | SGlobalEffect target g args =>
    match (fix go (es : list expr) : res (list val) :=
             match es with
             | [] => Ok []
             | e :: r => match eval env e with
                         | Ok v => match go r with Ok vs => Ok (v :: vs) | Raise k => Raise k | Stuck w => Stuck w end
                         | Raise k => Raise k | Stuck w => Stuck w
                         end
             end) args with
    | Ok vs =>
      match get "self" env with
      | Some sv =>
        match log_effect sv (VTuple [VGlobal [g]; VList vs]) with
        | Ok (r, sv') =>
          ONormal (match target with Some x => set x r (set "self" sv' env) | None => set "self" sv' env end)
        | Raise k => ORaise k env | Stuck w => OStuck w
        end
      | None => OStuck "recorded call without self"
      end
    | Raise k => ORaise k env | Stuck w => OStuck w
    end
  | _ => OStuck "not an atomic statement"
  end.

Section Exec.
Variable fuel : nat.        (* bound on the iterations of each `while` *)

Fixpoint exec (env : envT) (s : stmt) {struct s} : outcome :=
  let block :=
    fix block (env : envT) (ss : list stmt) {struct ss} : outcome :=
      match ss with
      | [] => ONormal env
      | s :: r => match exec env s with ONormal env' => block env' r | o => o end
      end in
  match s with
  | SIf c a b =>
    match eval env c with
    | Ok v => if truthy v then block env a else block env b
    | Raise k => ORaise k env | Stuck w => OStuck w
    end
  | SWhile c body => while_loop (fun env => eval env c) (fun env => block env body) fuel env
  | SFor x iter body =>
    match eval env iter with
    | Ok (VList l) => for_each (fun env => block env body) x l env
    | Ok (VTuple l) => for_each (fun env => block env body) x l env
    | Ok _ => OStuck "for over a non-list"
    | Raise k => ORaise k env | Stuck w => OStuck w
    end
  | SForEnum xi xv iter body =>
    match eval env iter with
    | Ok (VList l) => for_enum (fun env => block env body) xi xv l 0 env
    | Ok _ => OStuck "enumerate over a non-list"
    | Raise k => ORaise k env | Stuck w => OStuck w
    end
  | STry body handlers =>
    match block env body with
    | ORaise k env' =>
      (fix try_handlers (hs : list (list exn * list stmt)) : outcome :=
         match hs with
         | [] => ORaise k env'
         | (ks, h) :: r => if exn_in k ks then block env' h else try_handlers r
         end) handlers
    | o => o
    end
  | STryAs body handlers =>
    match block env body with
    | ORaise k env' =>
      (fix try_handlers (hs : list (list exn * string * list stmt)) : outcome :=
         match hs with
         | [] => ORaise k env'
         | (ks, x, h) :: r => if exn_in k ks then block (set x (exc_val k) env') h else try_handlers r
         end) handlers
    | o => o
    end
  | _ => exec_atomic env s
  end.

Definition exec_block : envT -> list stmt -> outcome :=
  fix block (env : envT) (ss : list stmt) {struct ss} : outcome :=
    match ss with
    | [] => ONormal env
    | s :: r => match exec env s with ONormal env' => block env' r | o => o end
    end.

End Exec.
End Eval.

(* ------------------------------------------------------------------------------------ *)
(* functions and programs                                                                *)

(* parameter binding: receiver, positionals, then keywords / defaults (constants, evaluated in
   the empty environment) *)
Fixpoint bind_params (ps : list (string * option expr)) (args : list val) (kw : list (string * val))
         (env : envT) : res envT :=
  match ps with
  | [] => match args with [] => Ok env | _ => Raise TypeError end
  | (x, d) :: ps' =>
    match args with
    | a :: args' =>
      if mem_str x (map fst kw) then Raise TypeError else bind_params ps' args' kw (set x a env)
    | [] =>
      match get x kw with
      | Some a => bind_params ps' [] kw (set x a env)
      | None =>
        match d with
        | Some de =>
          match eval (fun _ _ _ _ => Stuck "call in a default") [] de with
          | Ok a => bind_params ps' [] kw (set x a env)
          | Raise k => Raise k | Stuck w => Stuck w
          end
        | None => Raise TypeError
        end
      end
    end
  end.

(* the class a classmethod receives: a class is its own; an instance's is its `__class__`
   attribute when it carries one (a class with class attributes is the record of them, class "type"),
   else the class by name *)
Definition class_of (v : val) : option val :=
  match v with
  | VObj cls fields =>
    if String.eqb cls "type" then Some v
    else match get "__class__" fields with Some c => Some c | None => Some (VGlobal [cls]) end
  | VGlobal p => Some (VGlobal p)
  | _ => None
  end.

Fixpoint is_init (q : list string) : bool :=
  match q with
  | [] => false
  | [m] => String.eqb m "__init__"
  | _ :: r => is_init r
  end.

Definition is_procedure (k : fkind) : bool := match k with KProcedure => true | _ => false end.
Definition is_stateful (k : fkind) : bool := match k with KStateful => true | _ => false end.

Definition run_fun (call : callT) (fuel : nat) (fd : fundef)
           (recv : option val) (args : list val) (kw : list (string * val)) : res val :=
  let all_args : res (list val) :=
    match fkind_of fd, recv with
    | KFunction, _ => Ok args
    | KMethod, Some (VObj c f) => Ok (VObj c f :: args)
    | KMethod, _ => Stuck "method without an instance"
    | KProcedure, Some (VObj c f) => Ok (VObj c f :: args)
    | KProcedure, _ => Stuck "method without an instance"
    | KStateful, Some (VObj c f) => Ok (VObj c f :: args)
    | KStateful, _ => Stuck "method without an instance"
    | KClassMethod, Some r => match class_of r with Some c => Ok (c :: args) | None => Stuck "classmethod receiver" end
    | KClassMethod, None => Stuck "classmethod without a receiver"
    end in
  match all_args with
  | Ok vs =>
    if forallb (fun k => mem_str (fst k) (map fst (fparams fd))) kw then
      match bind_params (fparams fd) vs kw [] with
      | Ok env =>
        match exec_block call fuel env (fbody fd) with
        | ONormal env' =>
          (* calling `__init__` yields the initialised instance (values are immutable here) *)
          if is_init (fqual fd) || is_procedure (fkind_of fd) then
            match get "self" env' with Some sv => Ok sv | None => Stuck "__init__ without self" end
          else if is_stateful (fkind_of fd) then
            match get "self" env' with Some sv => Ok (VTuple [VNone; sv]) | None => Stuck "method without self" end
          else Ok VNone
        | OReturn v => if is_init (fqual fd) then Stuck "return in __init__" else Ok v
        | ORaise k _ => Raise k
        | OBreak _ | OContinue _ => Stuck "break / continue outside a loop"
        | OStuck w => Stuck w
        | OFuel => Stuck "out of fuel"
        end
      | Raise k => Raise k | Stuck w => Stuck w
      end
    else Raise TypeError
  | Raise k => Raise k | Stuck w => Stuck w
  end.

Fixpoint find_def (q : list string) (P : program) : option fundef :=
  match P with
  | [] => None
  | fd :: r => if path_eqb q (fqual fd) then Some fd else find_def q r
  end.

(* calls between translated functions: nesting depth bounded by `depth` *)
Fixpoint mk_call (P : program) (fuel : nat) (depth : nat) : callT :=
  match depth with
  | O => fun _ _ _ _ => Stuck "call depth"
  | S d => fun q recv args kw =>
    match find_def q P with
    | Some fd => run_fun (mk_call P fuel d) fuel fd recv args kw
    | None => Stuck "call of an untranslated function"
    end
  end.

(* run P fuel depth q recv args: call function q of program P *)
Definition run (P : program) (fuel depth : nat) (q : list string) (recv : option val) (args : list val)
  : res val := mk_call P fuel depth q recv args [].
