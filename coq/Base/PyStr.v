(* The fragments of Python's str behaviour that pygls relies on, over code-point lists. *)
From Coq Require Export NArith List Bool.
From Pygls Require Export Base.Unicode.
Open Scope N_scope.

Definition LF : N := 10.
Definition CR : N := 13.
Definition is_eol (c : N) : bool := (c =? 10) || (c =? 13).

(* RE_LINE = [^\r\n]*(?:\r\n|\r|\n)|[^\r\n]+ , findall: lines end at LF, CRLF or CR only and
   keep their terminator; a non-empty unterminated tail is a line; "" has no lines. *)
Fixpoint lsp_lines (s : list N) : list (list N) :=
  match s with
  | [] => []
  | c :: r =>
    if c =? 10 then [c] :: lsp_lines r
    else if c =? 13 then
      match r with
      | d :: r' => if d =? 10 then [c; d] :: lsp_lines r' else [c] :: lsp_lines r
      | [] => [[c]]
      end
    else match lsp_lines r with
         | [] => [[c]]
         | l :: ls => (c :: l) :: ls
         end
  end.

(* s.replace("\r\n", "\n") *)
Fixpoint replace_crlf (s : list N) : list N :=
  match s with
  | [] => []
  | c :: r =>
    if c =? 13 then
      match r with
      | d :: r' => if d =? 10 then 10 :: replace_crlf r' else c :: replace_crlf r
      | [] => [c]
      end
    else c :: replace_crlf r
  end.

(* s.rstrip("\r\n"): drop every trailing CR / LF *)
Fixpoint rstrip_eol (s : list N) : list N :=
  match s with
  | [] => []
  | c :: r =>
    match rstrip_eol r with
    | [] => if is_eol c then [] else [c]
    | r' => c :: r'
    end
  end.

(* Python slices s[:n] and s[n:] with saturation, n >= 0 *)
(* (recursion on the list, so that a huge n costs nothing when the model is run) *)
Fixpoint take {A} (n : N) (s : list A) : list A :=
  match s with [] => [] | c :: r => if n =? 0 then [] else c :: take (n - 1) r end.
Fixpoint drop {A} (n : N) (s : list A) : list A :=
  match s with [] => [] | c :: r => if n =? 0 then s else drop (n - 1) r end.
Definition len {A} (s : list A) : N := N.of_nat (length s).
