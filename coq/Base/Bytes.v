(* The fragments of Python's `bytes` / `re` / `int` behaviour that pygls.io_ relies on, over byte
   lists (a byte is an N < 256; nothing here depends on the bound).  Definitions only. *)
From Coq Require Export NArith List Bool.
From Pygls Require Export Base.PyStr.
Open Scope N_scope.

Notation bytes := (list N) (only parsing).

Definition is_nil {A} (s : list A) : bool := match s with [] => true | _ => false end.

(* bytes.strip() without argument strips ASCII whitespace: space \t \n \v \f \r *)
Definition is_ws (c : N) : bool := (c =? 32) || ((9 <=? c) && (c <=? 13)).

Fixpoint lstrip (s : list N) : list N :=
  match s with
  | [] => []
  | c :: r => if is_ws c then lstrip r else s
  end.
Fixpoint rstrip (s : list N) : list N :=
  match s with
  | [] => []
  | c :: r => match rstrip r with
              | [] => if is_ws c then [] else [c]
              | r' => c :: r'
              end
  end.
Definition bstrip (s : list N) : list N := rstrip (lstrip s).

(* \d in a bytes pattern: ASCII 0-9 only *)
Definition is_digit (c : N) : bool := (48 <=? c) && (c <=? 57).

(* int(b"0123"): decimal value, leading zeros allowed *)
Definition int_of_digits (ds : list N) : N := fold_left (fun a d => 10 * a + (d - 48)) ds 0.

(* sys.get_int_max_str_digits() default: int() of a longer digit string raises ValueError
   (leading zeros count) *)
Definition INT_MAX_STR_DIGITS : N := 4300.

(* longest prefix satisfying p, and the rest *)
Fixpoint span (p : N -> bool) (s : list N) : list N * list N :=
  match s with
  | [] => ([], [])
  | c :: r => if p c then let (a, b) := span p r in (c :: a, b) else ([], s)
  end.

(* s[len(p):] if s.startswith(p) *)
Fixpoint strip_prefix (p s : list N) : option (list N) :=
  match p with
  | [] => Some s
  | a :: p' => match s with
               | [] => None
               | c :: s' => if a =? c then strip_prefix p' s' else None
               end
  end.

Fixpoint eqb_bytes (a b : list N) : bool :=
  match a, b with
  | [], [] => true
  | x :: a', y :: b' => (x =? y) && eqb_bytes a' b'
  | _, _ => false
  end.

(* stream.readline() on a buffer: the line through the first LF and what follows it *)
Fixpoint split_line (s : list N) : option (list N * list N) :=
  match s with
  | [] => None
  | c :: r => if c =? 10 then Some ([c], r)
              else match split_line r with
                   | Some (l, r') => Some (c :: l, r')
                   | None => None
                   end
  end.

(* str(n).encode(): decimal digits of n, no leading zeros (fuel: one round per bit is enough) *)
Fixpoint dec_fuel (f : nat) (n : N) (acc : list N) : list N :=
  match f with
  | O => acc
  | S f' => let acc' := (48 + n mod 10) :: acc in
            if n / 10 =? 0 then acc' else dec_fuel f' (n / 10) acc'
  end.
Definition dec (n : N) : list N := dec_fuel (S (N.size_nat n)) n [].
