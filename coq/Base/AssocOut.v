(* Insertion-ordered association lists, as used for the Python dicts of the outgoing side
   (pygls _request_futures / _result_types / Progress.tokens and the table of futures handed
   to callers).  Self-contained (owner: outgoing-side worker); keys come with a boolean equality.
   Definitions are chosen so that no NoDup invariant is needed for the get/set/del lemmas:
   aset overwrites every entry with the key (in place) or appends, adel removes every entry. *)
From Coq Require Import List Bool.
Import ListNotations.

Section Assoc.
  Context {K V : Type}.
  Variable eqb : K -> K -> bool.

  Fixpoint aget (k : K) (l : list (K * V)) : option V :=
    match l with
    | [] => None
    | (k', v) :: r => if eqb k' k then Some v else aget k r
    end.

  Definition amem (k : K) (l : list (K * V)) : bool :=
    match aget k l with Some _ => true | None => false end.

  (* d[k] = f(d[k]) on every entry with key k (at most one when keys are distinct) *)
  Fixpoint aupd (k : K) (f : V -> V) (l : list (K * V)) : list (K * V) :=
    match l with
    | [] => []
    | (k', v) :: r => (if eqb k' k then (k', f v) else (k', v)) :: aupd k f r
    end.

  (* d[k] = v : an existing key keeps its position (Python dict), a new key goes last *)
  Definition aset (k : K) (v : V) (l : list (K * V)) : list (K * V) :=
    if amem k l then aupd k (fun _ => v) l else l ++ [(k, v)].

  (* d.pop(k, None) without the value *)
  Fixpoint adel (k : K) (l : list (K * V)) : list (K * V) :=
    match l with
    | [] => []
    | (k', v) :: r => if eqb k' k then adel k r else (k', v) :: adel k r
    end.

  Definition akeys (l : list (K * V)) : list K := map fst l.
End Assoc.

Section AssocFacts.
  Context {K V : Type}.
  Variable eqb : K -> K -> bool.
  Hypothesis eqb_eq : forall a b, eqb a b = true <-> a = b.

  Lemma eqb_refl' a : eqb a a = true.
  Proof. apply eqb_eq. reflexivity. Qed.

  Lemma eqb_neq a b : a <> b -> eqb a b = false.
  Proof.
    intros H. destruct (eqb a b) eqn:E; [|reflexivity]. apply eqb_eq in E. contradiction.
  Qed.

  Lemma eqb_false_neq a b : eqb a b = false -> a <> b.
  Proof. intros E H. subst. rewrite eqb_refl' in E. discriminate. Qed.

  Lemma aget_app (k : K) (l1 l2 : list (K * V)) :
    aget eqb k (l1 ++ l2) = match aget eqb k l1 with Some v => Some v | None => aget eqb k l2 end.
  Proof.
    induction l1 as [|[k' v] r IH]; cbn [aget app]; [reflexivity|].
    destruct (eqb k' k); [reflexivity|apply IH].
  Qed.

  Lemma aget_aupd_eq k f (l : list (K * V)) :
    aget eqb k (aupd eqb k f l) = option_map f (aget eqb k l).
  Proof.
    induction l as [|[k' v] r IH]; cbn [aget aupd option_map]; [reflexivity|].
    destruct (eqb k' k) eqn:E; cbn [aget]; rewrite E; [reflexivity|apply IH].
  Qed.

  Lemma aget_aupd_neq k k' f (l : list (K * V)) :
    k <> k' -> aget eqb k' (aupd eqb k f l) = aget eqb k' l.
  Proof.
    intros N. induction l as [|[k0 v] r IH]; cbn [aget aupd]; [reflexivity|].
    destruct (eqb k0 k) eqn:E; cbn [aget].
    - apply eqb_eq in E. subst k0. rewrite (eqb_neq _ _ N). apply IH.
    - destruct (eqb k0 k'); [reflexivity|apply IH].
  Qed.

  Lemma aget_aset_eq k v (l : list (K * V)) : aget eqb k (aset eqb k v l) = Some v.
  Proof.
    unfold aset, amem. destruct (aget eqb k l) eqn:E.
    - rewrite aget_aupd_eq, E. reflexivity.
    - rewrite aget_app, E. cbn [aget]. rewrite eqb_refl'. reflexivity.
  Qed.

  Lemma aget_aset_neq k k' v (l : list (K * V)) :
    k <> k' -> aget eqb k' (aset eqb k v l) = aget eqb k' l.
  Proof.
    intros N. unfold aset. destruct (amem eqb k l).
    - apply aget_aupd_neq, N.
    - rewrite aget_app. cbn [aget]. rewrite (eqb_neq _ _ N). destruct (aget eqb k' l); reflexivity.
  Qed.

  Lemma aget_adel_eq k (l : list (K * V)) : aget eqb k (adel eqb k l) = None.
  Proof.
    induction l as [|[k' v] r IH]; cbn [aget adel]; [reflexivity|].
    destruct (eqb k' k) eqn:E; [apply IH|]. cbn [aget]. rewrite E. apply IH.
  Qed.

  Lemma aget_adel_neq k k' (l : list (K * V)) :
    k <> k' -> aget eqb k' (adel eqb k l) = aget eqb k' l.
  Proof.
    intros N. induction l as [|[k0 v] r IH]; cbn [aget adel]; [reflexivity|].
    destruct (eqb k0 k) eqn:E.
    - apply eqb_eq in E. subst k0. rewrite (eqb_neq _ _ N). apply IH.
    - cbn [aget]. destruct (eqb k0 k'); [reflexivity|apply IH].
  Qed.

  Lemma adel_none k (l : list (K * V)) : aget eqb k l = None -> adel eqb k l = l.
  Proof.
    induction l as [|[k' v] r IH]; cbn [aget adel]; [reflexivity|].
    destruct (eqb k' k); [discriminate|]. intros H. rewrite (IH H). reflexivity.
  Qed.

  Lemma aget_in k v (l : list (K * V)) : aget eqb k l = Some v -> In (k, v) l.
  Proof.
    induction l as [|[k' v'] r IH]; cbn [aget]; [discriminate|].
    destruct (eqb k' k) eqn:E.
    - intros H. injection H as ->. apply eqb_eq in E. subst. left. reflexivity.
    - intros H. right. apply IH, H.
  Qed.

  Lemma aget_none_keys k (l : list (K * V)) : aget eqb k l = None <-> ~ In k (akeys l).
  Proof.
    induction l as [|[k' v'] r IH]; cbn [aget akeys map fst In].
    - split; [intros _ []|reflexivity].
    - destruct (eqb k' k) eqn:E.
      + apply eqb_eq in E. subst. split; [discriminate|]. intros H. exfalso. apply H. left. reflexivity.
      + apply eqb_false_neq in E. rewrite IH. unfold akeys. tauto.
  Qed.

  Lemma all_none_nil (l : list (K * V)) : (forall k, aget eqb k l = None) -> l = [].
  Proof.
    destruct l as [|[k v] r]; [reflexivity|]. intros H. specialize (H k). cbn [aget] in H.
    rewrite eqb_refl' in H. discriminate.
  Qed.

  Lemma aupd_as_map k f (l : list (K * V)) :
    aupd eqb k f l = map (fun kv => if eqb (fst kv) k then (fst kv, f (snd kv)) else kv) l.
  Proof.
    induction l as [|[k' v] r IH]; cbn [aupd map fst snd]; [reflexivity|]. rewrite IH. reflexivity.
  Qed.

  Lemma akeys_aupd k f (l : list (K * V)) : akeys (aupd eqb k f l) = akeys l.
  Proof.
    unfold akeys. induction l as [|[k' v] r IH]; cbn [aupd map fst]; [reflexivity|].
    rewrite IH. destruct (eqb k' k); reflexivity.
  Qed.
End AssocFacts.
