(* Insertion-ordered dictionary as an association list (the model of a Python dict).

   `set` is `d[k] = v` (an existing key keeps its position and gets the new value, a new key is
   appended), `get` is `d.get(k)`, `pop` is `d.pop(k, None)` returning the value and the remaining
   dictionary, `keys`/`values` are `list(d)` / `list(d.values())` in insertion order.
   The key equality is a parameter (`eqb`); lemmas assume it decides Leibniz equality.
   Dictionaries built with `set` from `[]` have pairwise distinct keys (`NoDup (keys d)`); `get`/`pop`
   act on the first binding of a key, which under that invariant is the only one. *)
From Coq Require Import List Bool Arith Lia.
Import ListNotations.

Section Assoc.
  Context {K V : Type}.
  Variable eqb : K -> K -> bool.

  Fixpoint get (k : K) (l : list (K * V)) : option V :=
    match l with
    | [] => None
    | (k', v) :: r => if eqb k k' then Some v else get k r
    end.

  Fixpoint set (k : K) (v : V) (l : list (K * V)) : list (K * V) :=
    match l with
    | [] => [(k, v)]
    | (k', v') :: r => if eqb k k' then (k', v) :: r else (k', v') :: set k v r
    end.

  Fixpoint remove (k : K) (l : list (K * V)) : list (K * V) :=
    match l with
    | [] => []
    | (k', v) :: r => if eqb k k' then r else (k', v) :: remove k r
    end.

  Definition pop (k : K) (l : list (K * V)) : option V * list (K * V) := (get k l, remove k l).

  Definition mem (k : K) (l : list (K * V)) : bool :=
    match get k l with Some _ => true | None => false end.

  Definition keys (l : list (K * V)) : list K := map fst l.
  Definition values (l : list (K * V)) : list V := map snd l.

  Hypothesis eqb_spec : forall a b, eqb a b = true <-> a = b.

  Lemma eqb_refl : forall a, eqb a a = true.
  Proof. intro a. apply eqb_spec. reflexivity. Qed.

  Lemma eqb_neq : forall a b, a <> b -> eqb a b = false.
  Proof.
    intros a b H. destruct (eqb a b) eqn:E; [|reflexivity].
    apply eqb_spec in E. contradiction.
  Qed.

  Lemma eqb_false_neq : forall a b, eqb a b = false -> a <> b.
  Proof. intros a b H E. subst. rewrite eqb_refl in H. discriminate. Qed.

  Lemma get_set_eq : forall k v l, get k (set k v l) = Some v.
  Proof.
    intros k v l. induction l as [|[k' v'] r IH]; cbn [set get].
    - rewrite eqb_refl. reflexivity.
    - destruct (eqb k k') eqn:E; cbn [get]; rewrite E; [reflexivity|exact IH].
  Qed.

  Lemma get_set_neq : forall k k' v l, k <> k' -> get k (set k' v l) = get k l.
  Proof.
    intros k k' v l Hn. induction l as [|[k2 v2] r IH]; cbn [set get].
    - rewrite (eqb_neq _ _ Hn). reflexivity.
    - destruct (eqb k' k2) eqn:E; cbn [get].
      + apply eqb_spec in E. subst k2. rewrite (eqb_neq _ _ Hn). reflexivity.
      + rewrite IH. reflexivity.
  Qed.

  Lemma get_remove_neq : forall k k' l, k <> k' -> get k (remove k' l) = get k l.
  Proof.
    intros k k' l Hn. induction l as [|[k2 v2] r IH]; cbn [remove get]; [reflexivity|].
    destruct (eqb k' k2) eqn:E; cbn [get].
    - apply eqb_spec in E. subst k2. rewrite (eqb_neq _ _ Hn). reflexivity.
    - rewrite IH. reflexivity.
  Qed.

  Lemma get_none_notin : forall k l, get k l = None <-> ~ In k (keys l).
  Proof.
    intros k l. induction l as [|[k2 v2] r IH]; cbn [get keys map fst In].
    - tauto.
    - destruct (eqb k k2) eqn:E.
      + apply eqb_spec in E. subst. split; [discriminate|]. intros H. exfalso. apply H. left. reflexivity.
      + apply eqb_false_neq in E. unfold keys in IH. rewrite IH. split.
        * intros H [H1|H1]; [congruence|contradiction].
        * intros H H1. apply H. right. exact H1.
  Qed.

  Lemma get_some_in : forall k v l, get k l = Some v -> In k (keys l).
  Proof.
    intros k v l H.
    assert (D : {In k (keys l)} + {~ In k (keys l)}).
    { clear H. induction l as [|[k2 v2] r IH]; cbn [keys map fst In]; [right; tauto|].
      destruct (eqb k2 k) eqn:E.
      - apply eqb_spec in E. left. left. exact E.
      - destruct IH as [I|N]; [left; right; exact I|].
        right. intros [H1|H1]; [subst; rewrite eqb_refl in E; discriminate|]. apply N. exact H1. }
    destruct D as [I|N]; [exact I|]. apply get_none_notin in N. congruence.
  Qed.

  Lemma get_remove_eq : forall k l, NoDup (keys l) -> get k (remove k l) = None.
  Proof.
    intros k l. induction l as [|[k2 v2] r IH]; cbn [remove get keys map fst]; intro ND; [reflexivity|].
    inversion ND as [|? ? Hni ND']; subst.
    destruct (eqb k k2) eqn:E.
    - apply eqb_spec in E. subst. apply get_none_notin. exact Hni.
    - cbn [get]. rewrite E. apply IH. exact ND'.
  Qed.

  Lemma keys_set_in : forall k v l, In k (keys l) -> keys (set k v l) = keys l.
  Proof.
    intros k v l. induction l as [|[k2 v2] r IH]; cbn [set keys map fst In]; [tauto|].
    intros H. destruct (eqb k k2) eqn:E; cbn [map fst]; [reflexivity|].
    f_equal. apply IH. destruct H as [H|H]; [subst; rewrite eqb_refl in E; discriminate|exact H].
  Qed.

  Lemma keys_set_notin : forall k v l, ~ In k (keys l) -> keys (set k v l) = keys l ++ [k].
  Proof.
    intros k v l. induction l as [|[k2 v2] r IH]; cbn [set keys map fst In app]; [reflexivity|].
    intros H. destruct (eqb k k2) eqn:E; cbn [map fst].
    - apply eqb_spec in E. subst. exfalso. apply H. left. reflexivity.
    - f_equal. apply IH. intros H1. apply H. right. exact H1.
  Qed.

  Lemma in_keys_remove : forall k k' l, In k (keys (remove k' l)) -> In k (keys l).
  Proof.
    intros k k' l. induction l as [|[k2 v2] r IH]; cbn [remove keys map fst In]; [tauto|].
    destruct (eqb k' k2) eqn:E; cbn [map fst In].
    - intros H. right. exact H.
    - intros [H|H]; [left; exact H|right; apply IH; exact H].
  Qed.

  Lemma in_keys_remove_neq : forall k k' l, k <> k' -> In k (keys l) -> In k (keys (remove k' l)).
  Proof.
    intros k k' l Hn. induction l as [|[k2 v2] r IH]; cbn [remove keys map fst In]; [tauto|].
    destruct (eqb k' k2) eqn:E; cbn [map fst In].
    - apply eqb_spec in E. subst. intros [H|H]; [congruence|exact H].
    - intros [H|H]; [left; exact H|right; apply IH; exact H].
  Qed.

  Lemma nodup_remove : forall k l, NoDup (keys l) -> NoDup (keys (remove k l)).
  Proof.
    intros k l. induction l as [|[k2 v2] r IH]; cbn [remove keys map fst]; intro ND; [constructor|].
    inversion ND as [|? ? Hni ND']; subst.
    destruct (eqb k k2) eqn:E; [exact ND'|].
    cbn [map fst]. constructor; [|apply IH; exact ND'].
    intros H. apply Hni. eapply in_keys_remove. exact H.
  Qed.

  Lemma notin_remove : forall k l, NoDup (keys l) -> ~ In k (keys (remove k l)).
  Proof. intros k l ND. apply get_none_notin. apply get_remove_eq. exact ND. Qed.

  Lemma nodup_snoc : forall (A : Type) (x : A) (l : list A), ~ In x l -> NoDup l -> NoDup (l ++ [x]).
  Proof.
    intros A x l. induction l as [|a r IH]; cbn [app In]; intros Hn ND.
    - constructor; [intros []|constructor].
    - inversion ND as [|? ? Hni ND']; subst. constructor.
      + intros H. apply in_app_or in H. destruct H as [H|[H|[]]]; [contradiction|].
        subst. apply Hn. left. reflexivity.
      + apply IH; [|exact ND']. intros H. apply Hn. right. exact H.
  Qed.

  Lemma nodup_set : forall k v l, NoDup (keys l) -> NoDup (keys (set k v l)).
  Proof.
    intros k v l ND.
    destruct (get k l) eqn:G.
    - rewrite keys_set_in; [exact ND|]. eapply get_some_in. exact G.
    - apply get_none_notin in G. rewrite keys_set_notin by exact G.
      apply nodup_snoc; assumption.
  Qed.

  Lemma length_remove_le : forall k l, length (remove k l) <= length l.
  Proof.
    intros k l. induction l as [|[k2 v2] r IH]; cbn [remove length]; [lia|].
    destruct (eqb k k2); cbn [length]; lia.
  Qed.

  Lemma remove_notin : forall k l, ~ In k (keys l) -> remove k l = l.
  Proof.
    intros k l. induction l as [|[k2 v2] r IH]; cbn [remove keys map fst In]; [reflexivity|].
    intros H. destruct (eqb k k2) eqn:E.
    - apply eqb_spec in E. subst. exfalso. apply H. left. reflexivity.
    - f_equal. apply IH. intros H1. apply H. right. exact H1.
  Qed.
End Assoc.

Arguments get {K V} eqb k l.
Arguments set {K V} eqb k v l.
Arguments remove {K V} eqb k l.
Arguments pop {K V} eqb k l.
Arguments mem {K V} eqb k l.
Arguments keys {K V} l.
Arguments values {K V} l.
