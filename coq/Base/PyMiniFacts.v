(* Facts about the PyMini primitives and interpreter (Base/PyMini.v) used by Proofs/Ast*Equiv.v:
   the primitives on abstract data in closed form, unfolding lemmas for calls, the symbolic
   evaluation tactic. *)
From Coq Require Import ZArith NArith List Bool String Ascii Lia ZifyBool ZifyN ZifyNat.
From Pygls Require Import Base.PyMini.
Import ListNotations.
Open Scope string_scope.
Open Scope Z_scope.

(* symbolic evaluation of a concrete program on abstract values: unfold the interpreter only *)
Ltac pysimp :=
  cbn [run mk_call find_def bind_params exec_block exec exec_atomic eval apply_global global_method obj_method obj_mutator is_procedure is_stateful log_effect dict_items mk_dict path_steps mk_path construct ctor_check ctor_default
       fqual fkind_of fparams fbody class_of is_init
       get set mem_str path_eqb snoc as_int truthy b2z py_binop py_compare py_eq is_none
       py_getattr global_const ctor_table builtin str_method bind_names set_field exn_in bound_of py_slice
       slice_list
       String.eqb Ascii.eqb Bool.eqb map fst snd forallb rev app andb orb negb].

Ltac pysimp_in H :=
  cbn [run mk_call find_def bind_params exec_block exec exec_atomic eval apply_global global_method obj_method obj_mutator is_procedure is_stateful log_effect dict_items mk_dict path_steps mk_path construct ctor_check ctor_default
       fqual fkind_of fparams fbody class_of is_init
       get set mem_str path_eqb snoc as_int truthy b2z py_binop py_compare py_eq is_none
       py_getattr global_const ctor_table builtin str_method bind_names set_field exn_in bound_of py_slice
       slice_list
       String.eqb Ascii.eqb Bool.eqb map fst snd forallb rev app andb orb negb] in H.

(* decide an `if` on integer comparisons from the context *)
Ltac decide_if :=
  match goal with
  | |- context[if ?c then _ else _] =>
    first [ replace c with true by lia | replace c with false by lia ]
  end.

(* ---------- calls ---------- *)

Lemma mk_call_S P f d q recv args kw fd : find_def q P = Some fd ->
  mk_call P f (S d) q recv args kw = run_fun (mk_call P f d) f fd recv args kw.
Proof. intros H. cbn [mk_call]. rewrite H. reflexivity. Qed.

(* enter fd: the goal calls the translated function fd at depth S d *)
Ltac enter fd :=
  match goal with |- context[mk_call ?P ?f (S ?d) ?q ?r ?a ?k] =>
    rewrite (mk_call_S P f d q r a k fd eq_refl) end.

(* ---------- len, indexing, slicing ---------- *)

Lemma len_map {A B} (g : A -> B) l : len (map g l) = len l.
Proof. unfold len. rewrite map_length. reflexivity. Qed.

Lemma len_app {A} (a b : list A) : len (a ++ b)%list = (len a + len b)%N.
Proof. unfold len. rewrite app_length. lia. Qed.

Lemma len_cons' {A} (c : A) r : len (c :: r) = (1 + len r)%N.
Proof. unfold len. cbn [length]. lia. Qed.

Lemma len_zero {A} (l : list A) : len l = 0%N -> l = [].
Proof. destruct l; [reflexivity|]. rewrite len_cons'. lia. Qed.

Lemma norm_index_in n k : (k < n)%N -> norm_index n (Z.of_N k) = Some k.
Proof.
  intros H. unfold norm_index. replace (Z.of_N k <? 0) with false by lia.
  replace ((0 <=? Z.of_N k) && (Z.of_N k <? Z.of_N n)) with true by lia.
  rewrite N2Z.id. reflexivity.
Qed.

Lemma norm_index_out n k : (n <= k)%N -> norm_index n (Z.of_N k) = None.
Proof.
  intros H. unfold norm_index. replace (Z.of_N k <? 0) with false by lia.
  replace ((0 <=? Z.of_N k) && (Z.of_N k <? Z.of_N n)) with false by lia. reflexivity.
Qed.

Lemma norm_index_last n : (0 < n)%N -> norm_index n (Z.opp 1) = Some (n - 1)%N.
Proof.
  intros H. unfold norm_index. replace (- (1) <? 0) with true by lia.
  replace ((0 <=? - (1) + Z.of_N n) && (- (1) + Z.of_N n <? Z.of_N n)) with true by lia.
  f_equal. lia.
Qed.

Lemma nth_map_str (lines : list (list N)) : forall k, (k < length lines)%nat ->
  nth k (map VStr lines) VNone = VStr (nth k lines []).
Proof.
  induction lines as [|x r IH]; intros k H; cbn [length] in H; [lia|].
  destruct k; cbn [map nth]; [reflexivity|]. apply IH. lia.
Qed.

Lemma subscript_lines lines k : (k < len lines)%N ->
  py_subscript (VList (map VStr lines)) (VInt (Z.of_N k)) = Ok (VStr (nth (N.to_nat k) lines [])).
Proof.
  intros H. unfold py_subscript. rewrite len_map, (norm_index_in _ _ H).
  rewrite nth_map_str; [reflexivity|]. unfold len in H. lia.
Qed.

Lemma subscript_lines_out lines k : (len lines <= k)%N ->
  py_subscript (VList (map VStr lines)) (VInt (Z.of_N k)) = Raise IndexError.
Proof. intros H. unfold py_subscript. rewrite len_map, (norm_index_out _ _ H). reflexivity. Qed.

Lemma last_nth {A} (l : list A) d : last l d = nth (length l - 1) l d.
Proof.
  induction l as [|x r IH]; [reflexivity|]. destruct r as [|y r']; [reflexivity|].
  change (last (x :: y :: r') d) with (last (y :: r') d). rewrite IH. cbn [length nth].
  replace (S (S (length r')) - 1)%nat with (S (length r' - 0))%nat by lia.
  replace (S (length r') - 1)%nat with (length r' - 0)%nat by lia. reflexivity.
Qed.

Lemma subscript_lines_last lines : lines <> [] ->
  py_subscript (VList (map VStr lines)) (VInt (Z.opp 1)) = Ok (VStr (last lines [])).
Proof.
  intros H. unfold py_subscript. rewrite len_map.
  assert (0 < len lines)%N as Hp.
  { destruct lines; [congruence|]. rewrite len_cons'. lia. }
  rewrite (norm_index_last _ Hp). rewrite nth_map_str by (unfold len in *; lia).
  rewrite last_nth. do 3 f_equal. unfold len. lia.
Qed.

Lemma subscript_str_mid pre c r :
  py_subscript (VStr (pre ++ c :: r)%list) (VInt (Z.of_N (len pre))) = Ok (VStr [c]).
Proof.
  unfold py_subscript. rewrite norm_index_in.
  - unfold len. rewrite Nat2N.id, app_nth2 by lia. rewrite Nat.sub_diag. reflexivity.
  - rewrite len_app, len_cons'. lia.
Qed.

Lemma clamp_idx_ofN n k : clamp_idx n (Z.of_N k) = k.
Proof. unfold clamp_idx. replace (Z.of_N k <? 0) with false by lia. apply N2Z.id. Qed.

(* ---------- generator sums ---------- *)

Lemma sum_chars_count (g : N -> res val) (p : N -> bool) :
  (forall c, g c = Ok (VBool (p c))) ->
  forall s acc, sum_chars g s acc = Ok (VInt (acc + Z.of_N (len (filter p s)))).
Proof.
  intros Hg. induction s as [|c r IH]; intros acc; cbn [sum_chars filter].
  - change (len (@nil N)) with 0%N. f_equal. f_equal. lia.
  - rewrite Hg. cbn [as_int]. rewrite IH. destruct (p c); cbn [b2z].
    + rewrite len_cons'. f_equal. f_equal. lia.
    + f_equal. f_equal. lia.
Qed.

(* ---------- str helpers ---------- *)

Lemma replace_crlf_length s : (length (replace_crlf s) <= length s)%nat.
Proof.
  assert (forall n s, (length s <= n)%nat -> (length (replace_crlf s) <= length s)%nat) as H.
  { induction n as [|n IH]; intros s0 Hn.
    - destruct s0; cbn [length] in *; [cbn; lia | lia].
    - destruct s0 as [|c r]; [cbn; lia|]. cbn [replace_crlf].
      destruct (c =? 13)%N.
      + destruct r as [|d r']; [cbn; lia|]. destruct (d =? 10)%N.
        * cbn [length] in *. specialize (IH r'). lia.
        * cbn [length] in *. specialize (IH (d :: r')). cbn [length] in IH. lia.
      + cbn [length] in *. specialize (IH r). lia. }
  apply (H (length s)). lia.
Qed.

(* ---------- statement-by-statement symbolic execution ---------- *)

Lemma exec_block_cons call f env s r :
  exec_block call f env (s :: r) =
  match exec call f env s with ONormal env' => exec_block call f env' r | o => o end.
Proof. reflexivity. Qed.

Lemma exec_block_nil call f env : exec_block call f env [] = ONormal env.
Proof. reflexivity. Qed.

(* bind the parameters of an unfolded run_fun, leaving the body untouched *)
Ltac pybind :=
  cbn [bind_params eval global_const path_eqb fqual fkind_of fparams fbody class_of get set mem_str
       String.eqb Ascii.eqb Bool.eqb map fst snd forallb andb orb negb].

(* pystep: evaluate the first statement of the block being executed (all of it, nested blocks
   included); the rest of the block is put behind a local definition so that later
   simplifications do not traverse the program text *)
Ltac pyunhide := repeat match goal with R := _ : list stmt |- _ => subst R end.
Ltac pystep :=
  pyunhide;
  lazymatch goal with
  | |- context[exec_block ?c ?f ?e (?s :: ?r)] =>
    let t := eval cbn [exec_block exec exec_atomic eval apply_global global_method obj_method obj_mutator is_procedure is_stateful log_effect dict_items mk_dict path_steps mk_path construct ctor_check ctor_default is_init fqual
       get set mem_str path_eqb snoc as_int truthy b2z py_binop py_compare py_eq is_none
       py_getattr global_const ctor_table builtin str_method bind_names set_field exn_in bound_of py_slice
       slice_list
       String.eqb Ascii.eqb Bool.eqb map fst snd forallb rev app andb orb negb] in (exec c f e s) in
    lazymatch t with
    | ONormal ?e1 => change (exec_block c f e (s :: r)) with (exec_block c f e1 r)
    | _ =>
      let R := fresh "rest" in
      pose (R := r);
      change (exec_block c f e (s :: r))
        with (match t with ONormal env' => exec_block c f env' R | o => o end)
    end
  end.

(* expression-level evaluation only (does not run further statements) *)
Ltac pyexpr :=
  cbn [eval apply_global global_method obj_method obj_mutator is_procedure is_stateful log_effect dict_items mk_dict path_steps mk_path construct ctor_check ctor_default is_init fqual
       get set mem_str path_eqb snoc as_int truthy b2z py_binop py_compare py_eq is_none
       py_getattr global_const ctor_table builtin str_method bind_names set_field exn_in bound_of py_slice
       slice_list
       String.eqb Ascii.eqb Bool.eqb map fst snd forallb rev app andb orb negb].

(* resolve lookups in an abstract environment from hypotheses `get x env = Some v` *)
Ltac use_env := repeat match goal with H : get _ _ = Some _ |- _ => rewrite H end.
Ltac pystep_env := pystep; repeat (progress use_env; pyexpr).

(* "the outcome is normal / a break, and the environment satisfies P" *)
Definition normal_with (P : list (string * val) -> Prop) (o : outcome) : Prop :=
  match o with ONormal env => P env | _ => False end.
Definition break_with (P : list (string * val) -> Prop) (o : outcome) : Prop :=
  match o with OBreak env => P env | _ => False end.

(* expose the loop of the `while` statement that is about to be executed *)
Lemma exec_while call f env c body :
  exec call f env (SWhile c body) =
  while_loop (fun env => eval call env c) (fun env => exec_block call f env body) f env.
Proof. reflexivity. Qed.

(* the block has been executed to its end *)
Ltac pyfinish := pyunhide; rewrite ?exec_block_nil.
