(* Insertion-ordered dictionary with keys in N (the model of the four Python dicts of
   pygls.workspace.Workspace), for Model/Workspace.v.
     aget k l     d.get(k)
     aset k v l   d[k] = v         an existing key keeps its position and gets the new value, a new
                                   key is appended
     adel k l     d.pop(k, None)   (every binding of k is dropped; a dictionary built with `aset`
                                   from [] has at most one)
   Lemmas are about `aget` only: the observation of a dictionary is its lookup function. *)
From Coq Require Import NArith List Bool.
Import ListNotations.
Open Scope N_scope.

Section AssocWs.
  Context {V : Type}.

  Fixpoint aget (k : N) (l : list (N * V)) : option V :=
    match l with
    | [] => None
    | (k', v) :: r => if k =? k' then Some v else aget k r
    end.

  Fixpoint aset (k : N) (v : V) (l : list (N * V)) : list (N * V) :=
    match l with
    | [] => [(k, v)]
    | (k', v') :: r => if k =? k' then (k', v) :: r else (k', v') :: aset k v r
    end.

  Fixpoint adel (k : N) (l : list (N * V)) : list (N * V) :=
    match l with
    | [] => []
    | (k', v) :: r => if k =? k' then adel k r else (k', v) :: adel k r
    end.

  Lemma aget_aset_eq k v l : aget k (aset k v l) = Some v.
  Proof.
    induction l as [|[k' v'] r IH]; cbn [aset aget].
    - rewrite N.eqb_refl. reflexivity.
    - destruct (k =? k') eqn:E; cbn [aget]; rewrite E; [reflexivity|exact IH].
  Qed.

  Lemma aget_aset_neq k k' v l : k <> k' -> aget k (aset k' v l) = aget k l.
  Proof.
    intros Hn. induction l as [|[k2 v2] r IH]; cbn [aset aget].
    - apply N.eqb_neq in Hn. rewrite Hn. reflexivity.
    - destruct (k' =? k2) eqn:E; cbn [aget].
      + apply N.eqb_eq in E. subst k2. apply N.eqb_neq in Hn. rewrite Hn. reflexivity.
      + destruct (k =? k2); [reflexivity|exact IH].
  Qed.

  Lemma aget_aset k k' v l : aget k (aset k' v l) = if k =? k' then Some v else aget k l.
  Proof.
    destruct (k =? k') eqn:E.
    - apply N.eqb_eq in E. subst. apply aget_aset_eq.
    - apply N.eqb_neq in E. apply aget_aset_neq. exact E.
  Qed.

  Lemma aget_adel k k' l : aget k (adel k' l) = if k =? k' then None else aget k l.
  Proof.
    induction l as [|[k2 v2] r IH]; cbn [adel aget].
    - destruct (k =? k'); reflexivity.
    - destruct (k' =? k2) eqn:E.
      + apply N.eqb_eq in E. subst k2. rewrite IH. destruct (k =? k'); reflexivity.
      + cbn [aget]. rewrite IH. destruct (k =? k') eqn:E2; [|reflexivity].
        apply N.eqb_eq in E2. subst k'. rewrite E. reflexivity.
  Qed.
End AssocWs.
