(* Code points, encoded widths, UTF-8 / UTF-16 encoders and a strict UTF-8 decoder.
   Definitions only; the facts about them are in Proofs/UnicodeFacts.v. *)
From Coq Require Export NArith List Bool.
Export ListNotations.
Open Scope N_scope.

Notation cp := N (only parsing).
Notation str := (list N) (only parsing).

(* A Python str may hold any code point 0..0x10FFFF including lone surrogates. *)
Definition is_cp (c : N) : bool := c <? 0x110000.
Definition is_surrogate (c : N) : bool := (0xD800 <=? c) && (c <? 0xE000).
Definition scalar (c : N) : bool := is_cp c && negb (is_surrogate c).

(* ord(c) > 0xFFFF, as in PositionCodec.is_char_beyond_multilingual_plane *)
Definition astral (c : N) : bool := 0xFFFF <? c.

(* True encoded widths (code units) *)
Definition utf8_width (c : N) : N :=
  if c <? 0x80 then 1 else if c <? 0x800 then 2 else if c <? 0x10000 then 3 else 4.
Definition utf16_width (c : N) : N := if c <? 0x10000 then 1 else 2.
Definition utf32_width (_ : N) : N := 1.

(* Encoders, written with / and mod so that lia can reason about them *)
Definition utf8_enc (c : N) : list N :=
  if c <? 0x80 then [c]
  else if c <? 0x800 then [0xC0 + c / 0x40; 0x80 + c mod 0x40]
  else if c <? 0x10000 then [0xE0 + c / 0x1000; 0x80 + (c / 0x40) mod 0x40; 0x80 + c mod 0x40]
  else [0xF0 + c / 0x40000; 0x80 + (c / 0x1000) mod 0x40; 0x80 + (c / 0x40) mod 0x40; 0x80 + c mod 0x40].

Definition utf16_enc (c : N) : list N :=
  if c <? 0x10000 then [c]
  else [0xD800 + (c - 0x10000) / 0x400; 0xDC00 + (c - 0x10000) mod 0x400].

Definition utf8_enc_all (s : list N) : list N := flat_map utf8_enc s.
Definition utf16_enc_all (s : list N) : list N := flat_map utf16_enc s.

(* Strict decoder of one scalar value: rejects overlong forms, surrogates, > U+10FFFF,
   stray continuation bytes and truncated sequences. *)
Definition is_cont (b : N) : bool := (0x80 <=? b) && (b <? 0xC0).

Definition utf8_dec1 (bs : list N) : option (N * list N) :=
  match bs with
  | [] => None
  | b0 :: r0 =>
    if b0 <? 0x80 then Some (b0, r0)
    else if b0 <? 0xC2 then None
    else if b0 <? 0xE0 then
      match r0 with
      | b1 :: r1 => if is_cont b1 then Some ((b0 - 0xC0) * 0x40 + (b1 - 0x80), r1) else None
      | _ => None
      end
    else if b0 <? 0xF0 then
      match r0 with
      | b1 :: b2 :: r2 =>
        if is_cont b1 && is_cont b2 then
          let c := (b0 - 0xE0) * 0x1000 + (b1 - 0x80) * 0x40 + (b2 - 0x80) in
          if (c <? 0x800) || is_surrogate c then None else Some (c, r2)
        else None
      | _ => None
      end
    else if b0 <? 0xF5 then
      match r0 with
      | b1 :: b2 :: b3 :: r3 =>
        if is_cont b1 && is_cont b2 && is_cont b3 then
          let c := (b0 - 0xF0) * 0x40000 + (b1 - 0x80) * 0x1000 + (b2 - 0x80) * 0x40 + (b3 - 0x80) in
          if (c <? 0x10000) || negb (is_cp c) then None else Some (c, r3)
        else None
      | _ => None
      end
    else None
  end.

(* Whole-string strict decoder; fuel = number of bytes is always enough. *)
Fixpoint utf8_dec_fuel (fuel : nat) (bs : list N) : option (list N) :=
  match bs with
  | [] => Some []
  | _ =>
    match fuel with
    | O => None
    | S f =>
      match utf8_dec1 bs with
      | None => None
      | Some (c, r) =>
        match utf8_dec_fuel f r with
        | None => None
        | Some cs => Some (c :: cs)
        end
      end
    end
  end.
Definition utf8_dec (bs : list N) : option (list N) := utf8_dec_fuel (length bs) bs.

Definition ascii_str (s : list N) : bool := forallb (fun c => c <? 0x80) s.
