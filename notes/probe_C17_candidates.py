import asyncio, json, logging, os, sys, time
logging.disable(logging.CRITICAL)
from pygls.client import JsonRPCClient

SRV_TASK = r'''
import sys, json, os, time
def frame(o):
    b = json.dumps(o).encode(); return b"Content-Length: %d\r\n\r\n" % len(b) + b
out = sys.stdout.buffer
out.write(frame({"jsonrpc":"2.0","id":"srv-1","method":"c17/slow","params":{}})); out.flush()
time.sleep(0.3)
os._exit(0)
'''
SRV_STDERR = r'''
import sys, os, fcntl, time
fd = 2
fl = fcntl.fcntl(fd, fcntl.F_GETFL); fcntl.fcntl(fd, fcntl.F_SETFL, fl | os.O_NONBLOCK)
n = 0
t0 = time.time()
while time.time() - t0 < 1.0:
    try:
        n += os.write(fd, b"x" * 65536)
    except BlockingIOError:
        time.sleep(0.05)
os._exit(0)
'''

async def case(src, with_handler):
    hooks = []
    class C(JsonRPCClient):
        async def server_exit(self, server): hooks.append(server.returncode)
    c = C()
    if with_handler:
        @c.feature("c17/slow")
        async def slow(params):
            await asyncio.sleep(30)
    await c.start_io(sys.executable, "-c", src)
    f = c.protocol.send_request_async("c17/req", {"n": 1})
    t0 = time.monotonic()
    while not c.stopped and time.monotonic() - t0 < 4:
        await asyncio.sleep(0.01)
    print("stopped", c.stopped, "hooks", hooks, "fut done", f.done(), "rc", c._server.returncode, "t", round(time.monotonic()-t0,2))
    try:
        await asyncio.wait_for(c.stop(), 2); print("stop returned")
    except Exception as e:
        print("stop raised", type(e).__name__, e)
    for t in asyncio.all_tasks():
        if t is not asyncio.current_task(): t.cancel()
    try: c._server.kill()
    except Exception: pass

print("--- handler task in _request_futures"); asyncio.run(case(SRV_TASK, True))
print("--- stderr flood"); asyncio.run(case(SRV_STDERR, False))
