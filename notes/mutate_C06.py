#!/usr/bin/env python3
"""Detection self-test for C06: apply each revert / mutation to the worktree, run the check, restore.
usage: python3 notes/mutate_C06.py [/tmp/wt_c06]"""
import os, re, subprocess, sys, shutil
WT = sys.argv[1] if len(sys.argv) > 1 else "/tmp/wt_c06"
FILES = ["pygls/server.py", "pygls/client.py", "pygls/protocol/json_rpc.py", "pygls/io_.py"]


def sub(path, old, new, count=1, flags=0):
    p = os.path.join(WT, path)
    s = open(p).read()
    s2, n = re.subn(old, new, s, count=count, flags=flags)
    assert n >= 1, (path, old)
    open(p, "w").write(s2)


def rev(commit):
    d = subprocess.run(["git", "-C", "/repo", "show", commit], capture_output=True, text=True).stdout
    r = subprocess.run(["git", "-C", WT, "apply", "-R"], input=d, capture_output=True, text=True)
    assert r.returncode == 0, r.stderr


MUT = {
    "row6-server (call sites pass the bare hook)": lambda: sub("pygls/server.py", r"error_handler=self\._report_server_error", "error_handler=self.report_server_error", 0),
    "row6-client (2e8ff64 reverted)": lambda: rev("2e8ff64"),
    "row19 (11908cd reverted)": lambda: rev("11908cd"),
    "row28 (0482320 reverted)": lambda: rev("0482320"),
    "M1 run_async: except JsonRpcException only": lambda: sub("pygls/io_.py", r"(protocol\.handle_message\(message\)\n            )except Exception as exc:", r"\1except JsonRpcException as exc:", 1),
    "M2 run_async: finally content_length = 0 dropped": lambda: sub("pygls/io_.py", r"            finally:\n                # Reset\n                content_length = 0\n\n\ndef run\(", "\n\ndef run(", 1),
    "M3 server._report_server_error does not swallow": lambda: sub("pygls/server.py", r"        try:\n            self\.report_server_error\(error, source\)\n        except Exception:\n            logger\.warning\(\"Failed to report error\"\)", "        self.report_server_error(error, source)", 1),
    "M4 version gate raises instead of returning": lambda: sub("pygls/protocol/json_rpc.py", r"(                JsonRpcInvalidRequest\(\"Unsupported JSON-RPC version\"\), JsonRpcException\n            \)\n)            return", r"\1            raise JsonRpcInvalidRequest('version')", 1),
    "M5 unknown response id raises KeyError": lambda: sub("pygls/protocol/json_rpc.py", r"future = self\._request_futures\.pop\(msg_id, None\)\n\n        if not future:\n            logger\.warning\('Received response", "future = self._request_futures.pop(msg_id)\n\n        if not future:\n            logger.warning('Received response", 1),
    "M6 client._report_server_error does not swallow": lambda: sub("pygls/client.py", r"        try:\n            self\.report_server_error\(error, source\)\n        except Exception:\n            logger\.exception\(\"Unable to report error\"\)", "        self.report_server_error(error, source)", 1),
    "M7 _handle_notification: catch-all dropped": lambda: sub("pygls/protocol/json_rpc.py", r"        except Exception as error:\n            logger\.exception\(\n                \"Failed to handle notification", "        except ZeroDivisionError as error:\n            logger.exception(\n                \"Failed to handle notification", 1),
    "M8 run (sync): except narrowed": lambda: sub("pygls/io_.py", r"(def run\(.*?protocol\.handle_message\(message\)\n            )except Exception as exc:", r"\1except JsonRpcException as exc:", 1, re.S),
    "M9 _handle_request: hook not called for a raising sync handler": lambda: sub("pygls/protocol/json_rpc.py", r"(            err = JsonRpcInternalError\.of\(sys\.exc_info\(\)\)\.to_response_error\(\)\n            self\._send_response\(msg_id, None, err\)\n)            self\._server\._report_server_error\(error, FeatureRequestError\)", r"\1", 1),
    "M10 run (sync): finally content_length = 0 dropped": lambda: sub("pygls/io_.py", r"(def run\(.*?)            finally:\n                # Reset\n                content_length = 0\n", r"\1", 1, re.S),
}

os.makedirs("/tmp/c06_mut_backup", exist_ok=True)
for f in FILES:
    shutil.copy(os.path.join(WT, f), os.path.join("/tmp/c06_mut_backup", f.replace("/", "_")))
res = []
only = os.environ.get("ONLY")
try:
    for name, fn in MUT.items():
        if only and only not in name:
            continue
        fn()
        r = subprocess.run("cd /verif && VERIF_REPO=%s timeout 900 ./check C06 2>&1 | grep -E 'VIOLATION|^\\[C06\\] tier' " % WT,
                           shell=True, capture_output=True, text=True)
        out = r.stdout.strip().split("\n")
        det = [l for l in out if l.startswith("VIOLATION")]
        res.append((name, bool(det), out))
        print(("DETECTED " if det else "ESCAPED  ") + name)
        for l in out:
            print("    " + l[:300])
        sys.stdout.flush()
        for f in FILES:
            shutil.copy(os.path.join("/tmp/c06_mut_backup", f.replace("/", "_")), os.path.join(WT, f))
finally:
    for f in FILES:
        shutil.copy(os.path.join("/tmp/c06_mut_backup", f.replace("/", "_")), os.path.join(WT, f))
print("%d/%d detected" % (sum(1 for _, d, _ in res if d), len(res)))
