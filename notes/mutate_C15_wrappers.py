"""Detection self-test for the second half of C15: mutate server.py / io_.py / json_rpc.py in the worktree,
run ./check C15, restore."""
import subprocess, sys, os
WT = "/tmp/wt_c02"
def rd(f): return open(WT + "/" + f).read()
MUTS = [
 ("TCP callback: no finally (shutdown after the await)", "pygls/server.py",
  "            try:\n                await run_async(\n                    stop_event=stop_event,\n                    reader=reader,\n                    protocol=self.protocol,\n                    logger=logger,\n                    error_handler=self._report_server_error,\n                )\n            finally:\n                logger.debug(\"Main loop finished\")\n                writer.close()\n                self.shutdown()\n",
  "            await run_async(\n                stop_event=stop_event,\n                reader=reader,\n                protocol=self.protocol,\n                logger=logger,\n                error_handler=self._report_server_error,\n            )\n            logger.debug(\"Main loop finished\")\n            writer.close()\n            self.shutdown()\n"),
 ("TCP callback: writer.close() removed", "pygls/server.py", "                writer.close()\n", ""),
 ("shutdown() does not set the stop event", "pygls/server.py", "            self._stop_event.set()\n\n        if self._thread_pool:", "            pass\n\n        if self._thread_pool:"),
 ("shutdown() does not shut the pool down", "pygls/server.py", "            self._thread_pool.shutdown()\n", "            pass\n"),
 ("start_io: no finally", "pygls/server.py", "        except KeyboardInterrupt:\n            pass\n        finally:\n            self.shutdown()\n", "        except KeyboardInterrupt:\n            pass\n        self.shutdown()\n"),
 ("revert fix_C15_3 (run lets ConnectionError escape)", "pygls/io_.py", "        try:\n            header = reader.readline()\n        except ConnectionError:\n            break\n", "        header = reader.readline()\n"),
 ("revert fix_C15_4 (asyncio.run(run(..)))", "pygls/server.py", "            run(\n                stop_event=self._stop_event,\n                reader=stdin or sys.stdin.buffer,\n                protocol=self.protocol,\n                logger=logger,\n                error_handler=self._report_server_error,\n            )\n", "            asyncio.run(run(\n                stop_event=self._stop_event,\n                reader=stdin or sys.stdin.buffer,\n                protocol=self.protocol,\n                logger=logger,\n                error_handler=self._report_server_error,\n            ))\n"),
 ("_send_data: except narrowed to OSError", "pygls/protocol/json_rpc.py", "        except Exception as error:\n            logger.exception(\"Error sending data\", exc_info=True)", "        except OSError as error:\n            logger.exception(\"Error sending data\", exc_info=True)"),
 ("_send_data: write error re-raised after reporting", "pygls/protocol/json_rpc.py", "            logger.exception(\"Error sending data\", exc_info=True)\n            self._server._report_server_error(error, JsonRpcInternalError)\n", "            logger.exception(\"Error sending data\", exc_info=True)\n            self._server._report_server_error(error, JsonRpcInternalError)\n            raise\n"),
 ("_report_server_error: guard removed", "pygls/server.py", "        try:\n            self.report_server_error(error, source)\n        except Exception:\n            logger.warning(\"Failed to report error\")\n", "        self.report_server_error(error, source)\n"),
]
only = sys.argv[1:]
for i, (name, f, old, new) in enumerate(MUTS):
    if only and str(i) not in only: continue
    orig = rd(f)
    if old not in orig:
        print(i, name, "PATTERN NOT FOUND"); continue
    open(WT + "/" + f, "w").write(orig.replace(old, new, 1))
    try:
        r = subprocess.run(["./check", "C15"], cwd="/verif", env=dict(os.environ, VERIF_REPO=WT), capture_output=True, text=True)
        lines = [l for l in r.stdout.split("\n") if l.startswith("VIOLATION") or l.startswith("[C15] tier")]
        print(i, name, "->", "DETECTED" if r.returncode else "ESCAPED", "|", " ; ".join(lines)[-300:])
    finally:
        open(WT + "/" + f, "w").write(orig)
