"""Detection self-test: apply small mutations to the worktree's pygls/io_.py, run the check, restore."""
import subprocess, sys, os, re
WT = "/tmp/wt_c02"; F = WT + "/pygls/io_.py"
PROP = sys.argv[1] if len(sys.argv) > 1 else "C02"
orig = open(F).read()
def sub_nth(s, old, new, which):   # which: 0 = run_async occurrence, 1 = run occurrence, None = all
    if which is None:
        assert old in s, old
        return s.replace(old, new)
    parts = s.split(old)
    assert len(parts) > which + 1, (old, len(parts))
    return old.join(parts[:which + 1]) + new + old.join(parts[which + 1:])
MUTS = [
 ("regex accepts missing CR (async)", r'(\d+)\r\n$")', r'(\d+)\r?\n$")', 0),
 ("regex accepts missing CR (sync)", r'(\d+)\r\n$")', r'(\d+)\r?\n$")', 1),
 ("regex case-insensitive (both)", r'\r\n$")', r'\r\n$", re.I)', None),
 ("no reset of content_length (async)", "                content_length = 0\n", "                pass\n", 0),
 ("no reset of content_length (sync)", "                content_length = 0\n", "                pass\n", 1),
 ("strip only CRLF (async)", "not header.strip():", 'not header.strip(b"\\r\\n"):', 0),
 ("last Content-Length wins (sync)", "        if not content_length:\n", "        if True:\n", 1),
 ("body off by one (async)", "readexactly(content_length)", "readexactly(content_length - 1)", None),
 ("stdin reader uses read1 (short reads)", "self.stdin.read, n", "self.stdin.read1, n", None),
 ("sync reads a line instead of n bytes when body has no LF", "body = reader.read(content_length)", "body = reader.read(content_length) if content_length != 3 else reader.readline()", None),
 ("empty header does not stop (sync)", "        if not header:\n            break\n", "        if not header:\n            break\n        header = header.lstrip(b'\\x0b')\n", 1),
 ("fullmatch -> search (both)", 'CONTENT_LENGTH_PATTERN.fullmatch(header)', 're.search(rb"Content-Length: (\\d+)\\r\\n", header)', None),
]
MUTS += [
 ("C15: readline not guarded against ConnectionError", "        try:\n            header = await reader.readline()\n        except ConnectionError:\n            break\n", "        header = await reader.readline()\n", None),
 ("C15: readexactly guards IncompleteReadError only", "except (asyncio.IncompleteReadError, ConnectionError):", "except asyncio.IncompleteReadError:", None),
 ("C15: readexactly guards ConnectionError only", "except (asyncio.IncompleteReadError, ConnectionError):", "except ConnectionError:", None),
 ("C15: sync loop does not stop on an empty body", "            body = reader.read(content_length)\n            if not body:\n                break\n", "            body = reader.read(content_length)\n", None),
 ("C15: incomplete body dispatched (partial kept)", "            except (asyncio.IncompleteReadError, ConnectionError):\n                # The connection was closed in the middle of a message.\n                break\n", "            except asyncio.IncompleteReadError as e:\n                body = e.partial\n            except ConnectionError:\n                break\n", None),
]
only = sys.argv[2:] 
for i, (name, old, new, which) in enumerate(MUTS):
    if only and str(i) not in only: continue
    try:
        m = sub_nth(orig, old, new, which)
    except AssertionError as e:
        print(i, name, "PATTERN NOT FOUND", e); continue
    open(F, "w").write(m)
    try:
        r = subprocess.run(["./check", PROP], cwd="/verif", env=dict(os.environ, VERIF_REPO=WT), capture_output=True, text=True)
        lines = [l for l in r.stdout.split("\n") if l.startswith("VIOLATION") or l.startswith("[" + PROP + "] tier")]
        print(i, name, "->", "DETECTED" if r.returncode else "ESCAPED", "|", " ; ".join(lines)[-260:])
    finally:
        open(F, "w").write(orig)
