#!/bin/bash
# mk_worktree.sh <name>: /tmp/wt_<name> = worktree of /repo HEAD in the target state
set -e
git -C /repo worktree add --detach /tmp/wt_$1 HEAD >/dev/null 2>&1
git -C /tmp/wt_$1 apply /verif/notes/target-state.patch
echo /tmp/wt_$1
