#!/bin/bash
# mk_worktree.sh <name>: /tmp/wt_<name> = scratch worktree of /repo HEAD (all planned repairs are committed now)
set -e
git -C /repo worktree add --detach /tmp/wt_$1 HEAD >/dev/null 2>&1
echo /tmp/wt_$1
