#!/bin/bash
# install_r5.sh c08 : copy /tmp/seed_c08r5/out/{1,2,3} to seeded/C08-{13,14,15}, remove the worktree
p=$1; P=$(echo $p | tr a-z A-Z)
for i in 1 2 3; do j=$((i+12)); mkdir -p /verif/seeded/$P-$j; cp /tmp/seed_${p}r5/out/$i/{patch.diff,demo.py,meta.json} /verif/seeded/$P-$j/ || exit 1; done
git -C /repo worktree remove --force /tmp/seed_${p}r5
echo installed $P-13..15
