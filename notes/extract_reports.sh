# Re-extracts the final reports of the worker/seed sub-agents of this session from their transcripts
# into notes/reports/ (coordinator convenience; the transcripts live under /tmp/claude-0/.../tasks/).
