#!/bin/bash
# install_r4.sh c08 : copy /tmp/seed_c08r4/out/{1,2,3} to seeded/C08-{4,5,6}, remove the worktree
p=$1; P=$(echo $p | tr a-z A-Z)
for i in 1 2 3; do j=$((i+9)); mkdir -p /verif/seeded/$P-$j; cp /tmp/seed_${p}r4/out/$i/{patch.diff,demo.py,meta.json} /verif/seeded/$P-$j/ || exit 1; done
git -C /repo worktree remove --force /tmp/seed_${p}r4
echo installed $P-4..6
