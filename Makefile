# setup: full .vo build of the Coq development (coq_makefile, all cores), extraction, OCaml drivers.
.PHONY: setup clean
setup:
	PYTHONPATH=/repo PYTHONHASHSEED=0 /venv/bin/python harness/setup.py
clean:
	rm -rf work bin ocaml/gen ocaml/build coq/Makefile.coq coq/Makefile.coq.conf coq/_CoqProject coq/.Makefile.coq.d
	find coq -name '*.vo' -o -name '*.vok' -o -name '*.vos' -o -name '*.glob' -o -name '.*.aux' | xargs rm -f
