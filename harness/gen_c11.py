#!/usr/bin/env python3
"""Regenerated files of C11: coq/Gen/AstCodec.v, the PyMini translation of the source text of
pygls/workspace/position_codec.py (harness/gen_ast.py, fail-closed).  Run by `make setup` and, through
C11.regenerate, on every check."""
import os, sys
sys.path.insert(0, os.path.dirname(os.path.abspath(__file__)))
import gen_ast


def main():
    return gen_ast.gen_codec()


if __name__ == "__main__":
    print("gen_c11:", os.path.relpath(main(), gen_ast.ROOT))
