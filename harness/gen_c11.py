#!/usr/bin/env python3
"""Regenerated files of C11: coq/Gen/AstCodec.v (the PyMini translation of the source text of
pygls/workspace/position_codec.py) and coq/Gen/AstDoc.v (of TextDocument in pygls/workspace/text_document.py,
whose offset_at_position / word_at_position belong to C11), by harness/gen_ast.py (fail-closed).  Run by
`make setup` and, through C11.regenerate, on every check."""
import os, sys
sys.path.insert(0, os.path.dirname(os.path.abspath(__file__)))
import gen_ast


def main():
    """both translations are attempted; the first failure is raised afterwards"""
    outs, err = [], None
    for g in (gen_ast.gen_codec, gen_ast.gen_doc):
        try:
            outs.append(g())
        except Exception as e:          # the file has been poisoned by gen_ast
            err = err or e
    if err is not None:
        raise err
    return outs


if __name__ == "__main__":
    print("gen_c11:", " ".join(os.path.relpath(o, gen_ast.ROOT) for o in main()))
