"""C12 - advertised capabilities match what is registered and negotiated.

Implementation side: a real LanguageServer (features, options, commands, sync kind, notebook
option registered through the public decorators) answers a real `initialize` request through
`structure_message` + `handle_message`; the `capabilities` member of the response written to a
recording writer is compared with the model (Model/Caps.v: build / lsp_initialize) and with the
reference (Spec/CapsSpec.v: spec_caps), both evaluated by bin/c12_driver on the same
configuration.  A didOpen + an incremental edit behind two astral characters then shows which
position encoding the workspace really uses.  A smaller stream drives ServerCapabilitiesBuilder
directly (no built-in features), as the pinned tests do."""
import itertools, json, os, re
import core
import priv

NEWER_THAN_317 = {"textDocument/inlineCompletion", "textDocument/rangesFormatting",
                  "workspace/textDocumentContent", "workspace/textDocumentContent/refresh",
                  "workspace/foldingRange/refresh"}

FIELDS = ["FSyncOpenClose", "FSyncChange", "FSyncWillSave", "FSyncWillSaveWaitUntil", "FSyncSave",
          "FNotebookSync", "FCompletion", "FHover", "FSignatureHelp", "FDeclaration", "FDefinition",
          "FTypeDefinition", "FInlayHint", "FImplementation", "FReferences", "FDocumentHighlight",
          "FDocumentSymbol", "FCodeAction", "FCodeLens", "FDocumentLink", "FColor", "FFormatting",
          "FRangeFormatting", "FOnTypeFormatting", "FRename", "FFoldingRange", "FExecuteCommand",
          "FSelectionRange", "FCallHierarchy", "FTypeHierarchy", "FSemanticTokens",
          "FLinkedEditingRange", "FMoniker", "FWorkspaceSymbol", "FWorkspaceFolders",
          "FWillCreate", "FDidCreate", "FWillDelete", "FDidDelete", "FWillRename", "FDidRename",
          "FDiagnostic", "FInlineValue", "FPositionEncoding"]
# slot -> key in the ServerCapabilities JSON (LSP 3.17 names)
TOP = {"FNotebookSync": "notebookDocumentSync", "FCompletion": "completionProvider", "FHover": "hoverProvider",
       "FSignatureHelp": "signatureHelpProvider", "FDeclaration": "declarationProvider",
       "FDefinition": "definitionProvider", "FTypeDefinition": "typeDefinitionProvider",
       "FInlayHint": "inlayHintProvider", "FImplementation": "implementationProvider",
       "FReferences": "referencesProvider", "FDocumentHighlight": "documentHighlightProvider",
       "FDocumentSymbol": "documentSymbolProvider", "FCodeAction": "codeActionProvider",
       "FCodeLens": "codeLensProvider", "FDocumentLink": "documentLinkProvider", "FColor": "colorProvider",
       "FFormatting": "documentFormattingProvider", "FRangeFormatting": "documentRangeFormattingProvider",
       "FOnTypeFormatting": "documentOnTypeFormattingProvider", "FRename": "renameProvider",
       "FFoldingRange": "foldingRangeProvider", "FExecuteCommand": "executeCommandProvider",
       "FSelectionRange": "selectionRangeProvider", "FCallHierarchy": "callHierarchyProvider",
       "FTypeHierarchy": "typeHierarchyProvider", "FSemanticTokens": "semanticTokensProvider",
       "FLinkedEditingRange": "linkedEditingRangeProvider", "FMoniker": "monikerProvider",
       "FWorkspaceSymbol": "workspaceSymbolProvider", "FDiagnostic": "diagnosticProvider",
       "FInlineValue": "inlineValueProvider", "FPositionEncoding": "positionEncoding"}
SYNC = {"FSyncOpenClose": "openClose", "FSyncChange": "change", "FSyncWillSave": "willSave",
        "FSyncWillSaveWaitUntil": "willSaveWaitUntil", "FSyncSave": "save"}
FILEOPS = {"FWillCreate": "willCreate", "FDidCreate": "didCreate", "FWillDelete": "willDelete",
           "FDidDelete": "didDelete", "FWillRename": "willRename", "FDidRename": "didRename"}
FILEOP_ATTRS = ["will_create", "did_create", "will_delete", "did_delete", "will_rename", "did_rename"]
ENC_NAME = {8: "utf-8", 16: "utf-16", 32: "utf-32"}
ENC_CODE = {v: k for k, v in ENC_NAME.items()}
PROBE_TEXT = "\U0001F600\U0001F600abcdefgh"


def model_named():
    src = open(os.path.join(core.COQ, "Model", "Caps.v")).read()
    m = re.search(r"Definition named_methods : list method :=\s*\[(.*?)\]\.", src, re.S)
    return [x.strip() for x in m.group(1).replace("\n", " ").split(";")]


def tri(x):
    return 0 if x is None else (2 if x else 1)


class Env:
    """Everything that needs the imported pygls / lsprotocol (created once per process)."""
    def __init__(self):
        import logging
        logging.disable(logging.CRITICAL)
        from lsprotocol import types
        from pygls.protocol import default_converter
        from pygls.lsp import get_method_options_type
        self.types = types
        self.conv = default_converter()
        self.named = model_named()
        self.registry = sorted(types.METHOD_TO_TYPES)
        self.code = {}
        for i, n in enumerate(self.named):
            self.code[getattr(types, n)] = i
        k = 100
        for m in self.registry:
            if m not in self.code:
                self.code[m] = k; k += 1
        self.opt_types = {}
        import typing
        for m in self.registry:
            try:
                t = get_method_options_type(m)
            except Exception:
                t = "raises"
            if t is not None and t != "raises":
                t = [c.__name__ for c in (typing.get_args(t) if typing.get_origin(t) is typing.Union else (t,))]
            self.opt_types[m] = t

    def method_code(self, m):
        if m in self.code:
            return self.code[m]
        return 300 + (sum(map(ord, m)) % 50)      # user-defined method names: MOther, never looked at

    # ---- option objects from a JSON-able description {"cls": name, "kw": {...}} ----
    def mk(self, spec):
        if isinstance(spec, dict) and "cls" in spec:
            return getattr(self.types, spec["cls"])(**{k: self.mk(v) for k, v in spec["kw"].items()})
        if isinstance(spec, list):
            return [self.mk(x) for x in spec]
        return spec

    def pristine(self, spec):
        return self.conv.unstructure(self.mk(spec))

    def nb_option(self, v):
        t = self.types
        if v is None:
            return None
        if v == 1:
            return t.NotebookDocumentSyncOptions(
                notebook_selector=[t.NotebookDocumentFilterWithNotebook(notebook="jupyter-notebook")], save=True)
        return t.NotebookDocumentSyncOptions(
            notebook_selector=[t.NotebookDocumentFilterWithCells(
                cells=[t.NotebookCellLanguage(language="python")])])

    def client_caps(self, cl):
        t = self.types
        td = None
        if cl.get("td") is not None:
            sy = cl["td"].get("sync")
            rn = cl["td"].get("rename")
            td = t.TextDocumentClientCapabilities(
                synchronization=None if sy is None else t.TextDocumentSyncClientCapabilities(
                    will_save=sy.get("ws"), will_save_wait_until=sy.get("wswu")),
                rename=None if rn is None else t.RenameClientCapabilities(prepare_support=rn.get("ps")))
        ws = None
        if cl.get("ws") is not None:
            fo = cl["ws"].get("fo")
            ws = t.WorkspaceClientCapabilities(
                file_operations=None if fo is None else t.FileOperationClientCapabilities(
                    **{a: v for a, v in zip(FILEOP_ATTRS, fo)}))
        nb = None
        if cl.get("nbdoc"):
            nb = t.NotebookDocumentClientCapabilities(
                synchronization=t.NotebookDocumentSyncClientCapabilities())
        ge = None
        if cl.get("general") is not None:
            ge = t.GeneralClientCapabilities(position_encodings=cl["general"].get("encs"))
        return t.ClientCapabilities(text_document=td, workspace=ws, notebook_document=nb, general=ge)


_ENV = None
def env():
    global _ENV
    if _ENV is None:
        _ENV = Env()
    return _ENV


class Rec:
    def __init__(self):
        self.data = []
    def write(self, b):
        self.data.append(bytes(b))
    def close(self):
        pass


def handler(*a, **k):
    return None


class C12(core.Property):
    id = "C12"
    modules = ["Proofs.CapsProofs", "Proofs.CapsHistoryProofs", "Props.C12"]
    obligations = ["run_with_sem", "fold_sem", "final_heap_at", "refinement", "refinement_shape", "field_iff",
                   "field_registered_options", "fileop_iff", "semantic_tokens_iff", "diagnostic_iff", "rename_rule",
                   "commands_exact", "sync_kind_reported", "sync_open_close", "sync_will_save", "sync_save",
                   "notebook_sync_rule", "encoding_advertised", "encoding_first_supported",
                   "workspace_uses_advertised", "initialize_refinement", "spec_local", "non_interference",
                   "non_interference_shape", "method_of_code_code", "C12_partial", "C12_unguarded_shape",
                   "C12_refuted_shared", "C12_refuted_rename", "C12_refuted", "C12_nonvacuous",
                   "C12_reference_agrees", "gen_tables_agree",
                   "run_accepted", "history_accepted_only", "build_depends_on_accepted_only", "run_spec",
                   "history_refines", "registered_options_stable", "C12_history", "C12_history_example",
                   "session_independent", "session_workspace", "C12_session"]
    coq_targets = ["Props/C12.vo", "Extract/ExtractC12.vo"]
    rule = ("a configuration = (registered methods with option objects, commands, sync kind, notebook option, "
            "client switches); every registry method alone (with and without options, empty and maximal client), "
            "pairs of methods (quick: seeded sample of 1000; thorough: all 4465), random larger subsets, every "
            "client switch that gates something in every state and at every depth of absence, position-encoding "
            "lists in every order incl. unknown and empty, shared option objects; registration HISTORIES (duplicates with "
            "other / no options, refused wrong-type attempt then a valid one, commands twice, random histories) and "
            "a second server initialised after another one in the same process; SESSIONS (one server initialised 2-3 times: same / "
            "other / no root, other encodings and client gates, registrations added in between, observed after each "
            "initialize); non-trivial = >= 2 methods, or "
            "an option object, or a client gate switched")
    trusted_base = ["Coq 8.16.1 kernel incl. vm_compute (witnesses, Examples, the regenerated-table comparison)",
                    "Spec/CapsSpec.v provider_of / row: the LSP 3.17 table method -> provider slot, hand-copied",
                    "Model/Features.v (C19's model of FeatureManager.feature/command, tied to /repo by C19's check and by the history cases here)",
                    "extraction with ExtrOcamlBasic only + ocaml/c12_driver.ml + conv_io/conv_n",
                    "harness/c12.py (generators, JSON assembly from model values) and harness/gen_c12.py",
                    "modelled not verified: dict.get / `in` on the feature set, `and` on None/bool, cattrs unstructure of the result",
                    priv.trusted(["capabilities.supported_encodings"]) + "; gen_c12.py reads the SOURCE of "
                    "ServerCapabilitiesBuilder.build and of the _with_* methods it chains (a table tie like the AST translator's)"]
    private = ["capabilities.supported_encodings"]
    assumptions = ["option objects are instances of the options class lsprotocol names for the method (attrs objects, truthy)",
                   "command names are distinct (the registry is a dict)",
                   "methods newer than LSP 3.17 in the installed registry are outside the statement"]

    def regenerate(self, chk):
        import gen_c12
        gen_c12.main()

    # ------------------------------------------------------------------ generation
    def _obj_for(self, rng, cls, rich=True):
        """A JSON-able description of a valid instance of options class `cls`."""
        b3 = lambda: rng.choice([None, True, False])
        strs = lambda: rng.choice([None, [], ["."], [":", ">"]])
        kw = {}
        if cls == "SaveOptions":
            kw = {"include_text": b3()}
        elif cls == "CompletionOptions":
            kw = {"trigger_characters": strs(), "all_commit_characters": strs(), "resolve_provider": b3(),
                  "work_done_progress": b3(),
                  "completion_item": rng.choice([None, {"cls": "ServerCompletionItemOptions",
                                                        "kw": {"label_details_support": True}}])}
        elif cls == "SignatureHelpOptions":
            kw = {"trigger_characters": strs(), "retrigger_characters": strs(), "work_done_progress": b3()}
        elif cls == "CodeActionOptions":
            kw = {"code_action_kinds": rng.choice([None, ["quickfix"], ["refactor", "source.x"]]),
                  "resolve_provider": b3(), "work_done_progress": b3()}
        elif cls in ("CodeLensOptions", "DocumentLinkOptions", "InlayHintOptions", "WorkspaceSymbolOptions"):
            kw = {"resolve_provider": b3(), "work_done_progress": b3()}
        elif cls == "DocumentSymbolOptions":
            kw = {"label": rng.choice([None, "outline"]), "work_done_progress": b3()}
        elif cls == "DiagnosticOptions":
            kw = {"inter_file_dependencies": rng.choice([True, False]), "workspace_diagnostics": rng.choice([True, False]),
                  "identifier": rng.choice([None, "dx"]), "work_done_progress": b3()}
        elif cls == "DocumentOnTypeFormattingOptions":
            kw = {"first_trigger_character": rng.choice([":", "}"]), "more_trigger_character": strs()}
        elif cls == "DocumentRangeFormattingOptions":
            kw = {"ranges_support": b3(), "work_done_progress": b3()}
        elif cls == "RenameOptions":
            kw = {"prepare_provider": b3(), "work_done_progress": b3()}
        elif cls == "SemanticTokensLegend":
            kw = {"token_types": rng.choice([[], ["class"], ["class", "function"]]),
                  "token_modifiers": rng.choice([[], ["static"]])}
        elif cls == "SemanticTokensRegistrationOptions":
            kw = {"legend": self._obj_for(rng, "SemanticTokensLegend"),
                  "full": rng.choice([None, True, False, {"cls": "SemanticTokensFullDelta", "kw": {"delta": True}}]),
                  "range": b3(), "work_done_progress": b3(), "id": rng.choice([None, "st"]),
                  "document_selector": rng.choice([None, [{"cls": "TextDocumentFilterLanguage", "kw": {"language": "python"}}]])}
        elif cls == "FileOperationRegistrationOptions":
            pat = lambda g: {"cls": "FileOperationFilter", "kw": {
                "pattern": {"cls": "FileOperationPattern", "kw": {"glob": g}}, "scheme": rng.choice([None, "file"])}}
            kw = {"filters": rng.choice([[pat("**/*.py")], [pat("*.a"), pat("*.b")], []])}
        elif cls == "ExecuteCommandOptions":
            kw = {"commands": ["zzz"], "work_done_progress": b3()}
        elif cls == "NotebookDocumentSyncOptions":
            kw = {"notebook_selector": [{"cls": "NotebookDocumentFilterWithNotebook", "kw": {"notebook": "nb"}}], "save": b3()}
        elif cls == "TextDocumentContentOptions":
            kw = {"schemes": ["x"]}
        elif cls == "ColorPresentationRequestOptions":
            kw = {"work_done_progress": b3(), "document_selector": None}
        else:       # the many classes whose only member is work_done_progress
            kw = {"work_done_progress": b3()}
        if not rich:
            kw = {k: v for k, v in kw.items() if v is not None}
        return {"cls": cls, "kw": kw}

    def _client(self, rng, mode="random"):
        if mode == "empty":
            return {"td": None, "ws": None, "nbdoc": False, "general": None}
        if mode == "max":
            return {"td": {"sync": {"ws": True, "wswu": True}, "rename": {"ps": True}},
                    "ws": {"fo": [True] * 6}, "nbdoc": True, "general": {"encs": ["utf-32", "utf-8", "utf-16"]}}
        b3 = lambda: rng.choice([None, True, False, True])
        td = rng.choice([None, "x", "x", "x"])
        if td:
            td = {"sync": rng.choice([None, {"ws": b3(), "wswu": b3()}, {"ws": b3(), "wswu": b3()}]),
                  "rename": rng.choice([None, {"ps": b3()}, {"ps": b3()}])}
        ws = rng.choice([None, "x", "x"])
        if ws:
            ws = {"fo": rng.choice([None, [b3() for _ in range(6)], [b3() for _ in range(6)]])}
        ge = rng.choice([None, "x", "x"])
        if ge:
            ge = {"encs": rng.choice([None, self._encs(rng), self._encs(rng)])}
        return {"td": td, "ws": ws, "nbdoc": rng.choice([False, True]), "general": ge}

    @staticmethod
    def _encs(rng):
        pool = ["utf-8", "utf-16", "utf-32", "utf-7", "latin-1", ""]
        return [rng.choice(pool) for _ in range(rng.randint(0, 4))]

    def _feat(self, rng, e, m, objs, p_opt=0.5):
        """[method, object index] - with probability p_opt an option object of the right class."""
        t = e.opt_types.get(m)
        if isinstance(t, list) and rng.random() < p_opt:
            objs.append(self._obj_for(rng, rng.choice(t)))
            return [m, len(objs)]
        return [m, 0]

    def _case(self, mode, feats, objs, client, cmds=(), sync=2, nb=None, tag=None):
        c = {"mode": mode, "feats": [list(f) for f in feats], "objs": list(objs), "cmds": list(cmds),
             "sync": sync, "nb": nb, "client": client}
        if tag:
            c["tag"] = tag
        return c

    def generate(self, chk):
        e = env()
        rng = chk.rng
        cases = []
        cdir = os.path.join(core.ROOT, "corpus", "C12")
        if os.path.isdir(cdir):
            for f in sorted(os.listdir(cdir)):
                if f.endswith(".json"):
                    cases.extend(json.load(open(os.path.join(cdir, f))))
        reg = e.registry
        # (a) every registry method alone: no options / options of each admissible class; empty and maximal client
        for m in reg:
            for cm in ("empty", "max"):
                cases.append(self._case(1, [[m, 0]], [], self._client(rng, cm), tag="single"))
                t = e.opt_types.get(m)
                if isinstance(t, list):
                    for cls in t:
                        cases.append(self._case(1, [[m, 1]], [self._obj_for(rng, cls)], self._client(rng, cm),
                                                tag="single+opt"))
            cases.append(self._case(0, [[m, 0]], [], self._client(rng, "random"), sync=rng.choice([None, 0, 1, 2]),
                                    tag="single-builder"))
        # (b) pairs
        pairs = list(itertools.combinations(reg, 2))
        if chk.quick:
            pairs = rng.sample(pairs, 1000)
        else:
            self.exhaustive = True
        for a, b in pairs:
            objs = []
            feats = [self._feat(rng, e, a, objs), self._feat(rng, e, b, objs)]
            if rng.random() < 0.5:
                feats.reverse()
            cases.append(self._case(1, feats, objs, self._client(rng, rng.choice(["empty", "max", "random", "random"])),
                                    tag="pair"))
        # (b2) non-interference of options: every ORDERED pair of methods that both admit an options class, the
        # first registered WITH an options object, the second WITHOUT (its capability must not pick up the other's)
        opt_ms = [m for m in reg if isinstance(e.opt_types.get(m), list)]
        for a in opt_ms:
            for b in opt_ms:
                if a == b:
                    continue
                objs = []
                feats = [self._feat(rng, e, a, objs, p_opt=1.0), [b, 0]]
                if rng.random() < 0.5:
                    feats.reverse()
                cases.append(self._case(1, feats, objs, self._client(rng, rng.choice(["empty", "max", "random"])),
                                        tag="pair-opt-noopt"))
        # every pair inside one provider (primary + secondary method), all registration states
        groups = [["textDocument/completion", "completionItem/resolve"], ["textDocument/codeAction", "codeAction/resolve"],
                  ["textDocument/codeLens", "codeLens/resolve"], ["textDocument/documentLink", "documentLink/resolve"],
                  ["textDocument/inlayHint", "inlayHint/resolve"], ["workspace/symbol", "workspaceSymbol/resolve"],
                  ["textDocument/diagnostic", "workspace/diagnostic"], ["textDocument/rename", "textDocument/prepareRename"],
                  ["textDocument/semanticTokens/full", "textDocument/semanticTokens/full/delta",
                   "textDocument/semanticTokens/range"],
                  ["textDocument/didOpen", "textDocument/didClose"],
                  ["textDocument/willSave", "textDocument/willSaveWaitUntil", "textDocument/didSave"]]
        for g in groups:
            for k in range(1, len(g) + 1):
                for sub in itertools.combinations(g, k):
                    for withopt in itertools.product([0, 1], repeat=len(sub)):
                        for mode in (1, 0):
                            objs, feats = [], []
                            for m, w in zip(sub, withopt):
                                feats.append(self._feat(rng, e, m, objs, p_opt=float(w)))
                            cases.append(self._case(mode, feats, objs,
                                                    self._client(rng, rng.choice(["max", "empty", "random"])),
                                                    sync=rng.choice([2, 2, 1, 0, None]) if mode == 0 else 2,
                                                    tag="group"))
        # (c) random larger subsets, commands, sync kinds, notebook option
        for _ in range(chk.n(300, 5000)):
            k = rng.choice([3, 4, 6, 10, 20, 40])
            ms = rng.sample(reg, min(k, len(reg)))
            if rng.random() < 0.2:
                ms.append("custom/method%d" % rng.randint(0, 3))
            objs = []
            feats = [self._feat(rng, e, m, objs, p_opt=rng.choice([0.0, 0.5, 1.0])) for m in ms]
            ncmd = rng.choice([0, 0, 1, 3, 6])
            cmds = rng.sample(["cmd%d" % i for i in range(9)], ncmd)
            mode = rng.choice([1, 1, 1, 0])
            cases.append(self._case(mode, feats, objs, self._client(rng), cmds=cmds,
                                    sync=rng.choice([0, 1, 2, 2]) if mode == 1 else rng.choice([None, 0, 1, 2]),
                                    nb=rng.choice([None, 1, 2]), tag="random"))
        # (d) client switches that gate something: every state, every depth of absence
        gates = []
        for v in (None, False, True):
            gates.append({"td": {"sync": {"ws": v, "wswu": None}, "rename": None}})
            gates.append({"td": {"sync": {"ws": None, "wswu": v}, "rename": None}})
            gates.append({"td": {"sync": None, "rename": {"ps": v}}})
            for i in range(6):
                fo = [None] * 6; fo[i] = v
                gates.append({"ws": {"fo": fo}})
        gates += [{"td": None}, {"td": {"sync": None, "rename": None}}, {"ws": None}, {"ws": {"fo": None}},
                  {"nbdoc": True}, {"nbdoc": False}]
        gated = ["textDocument/willSave", "textDocument/willSaveWaitUntil", "textDocument/rename",
                 "textDocument/prepareRename"] + [m for m in reg if m.startswith("workspace/") and m.endswith("Files")]
        for g in gates:
            cl = {"td": None, "ws": None, "nbdoc": False, "general": None}
            cl.update(g)
            for variant in range(3):
                objs = []
                if variant == 0:
                    feats = [self._feat(rng, e, m, objs, p_opt=1.0) for m in gated if m != "textDocument/rename"]
                    feats.append(["textDocument/rename", 0])
                elif variant == 1:
                    feats = [self._feat(rng, e, m, objs, p_opt=0.0) for m in gated]
                else:
                    feats = [self._feat(rng, e, m, objs, p_opt=0.5) for m in rng.sample(gated, 5)
                             if m != "textDocument/rename"]
                for nb in (None, 1):
                    cases.append(self._case(1, feats, objs, cl, nb=nb, tag="gate"))
        # every combination of the three text-document gates x notebook; every on/off combination of the six
        # file-operation gates (thorough: every None/False/True combination)
        objs = []
        all_gated = [self._feat(rng, e, m, objs, p_opt=1.0) for m in gated if m != "textDocument/rename"]
        all_gated.append(["textDocument/rename", 0])
        for ws_, wswu, ps in itertools.product((None, False, True), repeat=3):
            for nbd in (False, True):
                cl = {"td": {"sync": {"ws": ws_, "wswu": wswu}, "rename": {"ps": ps}}, "ws": None, "nbdoc": nbd,
                      "general": None}
                cases.append(self._case(1, all_gated, objs, cl, nb=rng.choice([None, 1, 2]), tag="gate-product"))
        for fo in itertools.product((None, True) if chk.quick else (None, False, True), repeat=6):
            cl = {"td": None, "ws": {"fo": list(fo)}, "nbdoc": False, "general": None}
            cases.append(self._case(1, all_gated, objs, cl, tag="gate-product"))
        # (e) position encodings: every order of every subset of 3 known + 1 unknown, absent at each depth
        pool = ["utf-8", "utf-16", "utf-32", "utf-7"]
        enc_lists = [None]
        for k in range(0, 5):
            for p in itertools.permutations(pool, k):
                enc_lists.append(list(p))
        enc_lists += [["utf-8", "utf-8"], ["", "utf-32"], ["UTF-8", "utf-8"], ["utf-7", "latin-1"]]
        for encs in enc_lists:
            cl = {"td": None, "ws": None, "nbdoc": False, "general": {"encs": encs}}
            cases.append(self._case(1, [], [], cl, tag="enc"))
            cases.append(self._case(1, [["textDocument/hover", 0]], [], cl, sync=rng.choice([0, 1, 2]), tag="enc"))
        cases.append(self._case(1, [], [], {"td": None, "ws": None, "nbdoc": False, "general": None}, tag="enc"))
        # (f) rename registered with options (finding class 2 when the client has prepareSupport)
        for ps in (None, False, True):
            for prep in (0, 1):
                objs = [self._obj_for(rng, "RenameOptions")]
                feats = [["textDocument/rename", 1]] + ([["textDocument/prepareRename", 0]] if prep else [])
                cases.append(self._case(1, feats, objs, {"td": {"sync": None, "rename": {"ps": ps}}, "ws": None,
                                                         "nbdoc": False, "general": None}, tag="rename-opt"))
        # (g) one option object registered for several methods (accepted by the structural check)
        same_shape = ["textDocument/codeLens", "textDocument/documentLink", "textDocument/inlayHint", "workspace/symbol"]
        resolves = ["codeLens/resolve", "documentLink/resolve", "inlayHint/resolve", "workspaceSymbol/resolve"]
        readers = ["textDocument/hover", "textDocument/definition", "textDocument/references"]
        for _ in range(chk.n(60, 600)):
            ms = rng.sample(same_shape, rng.randint(1, 3)) + rng.sample(readers, rng.randint(0, 2))
            if len(ms) < 2:
                ms.append(rng.choice(readers))
            objs = [self._obj_for(rng, rng.choice(["CodeLensOptions", "InlayHintOptions"]))]
            feats = [[m, 1] for m in ms] + [[r, 0] for r in resolves if rng.random() < 0.5]
            rng.shuffle(feats)
            cases.append(self._case(1, feats, objs, self._client(rng, "empty"), tag="shared"))
        cases += self._history_cases(chk, e)
        cases += self._session_cases(chk, e)
        return cases

    def _session_cases(self, chk, e):
        """(s) SESSIONS: one server receives initialize k = 2..3 times - same root / another root / no root, other
        position encodings, other client gates, registrations added in between; after EACH initialize the wire
        capabilities and the encoding the workspace really uses are observed."""
        rng = chk.rng
        cases = []
        none = {"td": None, "ws": None, "nbdoc": False, "general": None}
        enc_client = lambda encs: dict(none, general={"encs": encs})
        lists = [["utf-8"], ["utf-16"], ["utf-32"], None, ["utf-7"], ["utf-32", "utf-8"]]
        for a, b in itertools.permutations(lists, 2):
            for root in ("same", "other", "none"):
                cases.append(dict(self._hcase(1, [["f", "textDocument/hover", 0]], [], enc_client(a), tag="session"),
                                  session=[{"client": enc_client(b), "root": root, "add": []}]))
        gated = ["textDocument/willSave", "textDocument/willSaveWaitUntil", "textDocument/rename",
                 "textDocument/prepareRename", "workspace/willCreateFiles", "workspace/didDeleteFiles"]
        with_type = [m for m in e.registry if isinstance(e.opt_types.get(m), list) and m not in NEWER_THAN_317]
        for _ in range(chk.n(150, 2500)):
            objs = []
            ms = rng.sample(gated, rng.randint(0, 4)) + rng.sample(e.registry, rng.randint(0, 4))
            hist = [["f"] + self._feat(rng, e, m, objs, 0.5) for m in dict.fromkeys(ms) if m != "textDocument/rename"]
            if "textDocument/rename" in ms:
                hist.append(["f", "textDocument/rename", 0])
            if rng.random() < 0.3:
                hist.append(["c", "cmd0"])
            steps = []
            for _ in range(rng.randint(1, 2)):
                add = []
                for _ in range(rng.choice([0, 0, 1, 3])):
                    r = rng.random()
                    if r < 0.2:
                        add.append(["c", "cmd%d" % rng.randint(0, 2)])
                    else:
                        m = rng.choice(with_type + e.registry)
                        add.append(["f"] + self._feat(rng, e, m, objs, 0.5))
                steps.append({"client": self._client(rng), "root": rng.choice(["same", "same", "other", "none"]),
                              "add": add})
            cases.append(dict(self._hcase(1, hist, objs, self._client(rng), sync=rng.choice([2, 2, 2, 1]),
                                          nb=rng.choice([None, 1]), tag="session"), session=steps))
        return cases

    def _hcase(self, mode, hist, objs, client, sync=2, nb=None, tag="hist", before=None):
        c = {"mode": mode, "hist": [list(a) for a in hist], "feats": [], "cmds": [], "objs": list(objs),
             "sync": sync, "nb": nb, "client": client, "tag": tag}
        if before:
            c["before"] = before
        return c

    def _wrong_obj(self, rng, e, m):
        """an options object of a class that is not the method's (refused unless structurally compatible)"""
        t = e.opt_types.get(m)
        pool = [k for k in ("SaveOptions", "SemanticTokensLegend", "DocumentOnTypeFormattingOptions", "HoverOptions",
                            "DiagnosticOptions", "FileOperationRegistrationOptions")
                if not (isinstance(t, list) and k in t)]
        return self._obj_for(rng, rng.choice(pool))

    def _history_cases(self, chk, e):
        """(h) registration HISTORIES: some registrations are attempted more than once before initialize; a refused
        attempt (duplicate, wrong option type) must leave no trace in what is advertised."""
        rng = chk.rng
        cases = []
        with_type = [m for m in e.registry if isinstance(e.opt_types.get(m), list) and m not in NEWER_THAN_317]
        plain = [m for m in e.registry if e.opt_types.get(m) is None]
        for m in with_type:
            cls = e.opt_types[m]
            o1, o2 = self._obj_for(rng, rng.choice(cls)), self._obj_for(rng, rng.choice(cls))
            bad = self._wrong_obj(rng, e, m)
            cl = lambda: self._client(rng, rng.choice(["max", "max", "random"]))
            mode = lambda: rng.choice([1, 1, 0])
            # duplicate with other options / duplicate with options after a bare one / bare duplicate after options
            cases.append(self._hcase(mode(), [["f", m, 1], ["f", m, 2]], [o1, o2], cl()))
            cases.append(self._hcase(mode(), [["f", m, 0], ["f", m, 1]], [o1], cl()))
            cases.append(self._hcase(mode(), [["f", m, 1], ["f", m, 0]], [o1], cl()))
            # a refused wrong-type attempt, then a valid one (with / without options); and after an accepted one
            cases.append(self._hcase(mode(), [["f", m, 1], ["f", m, 2]], [bad, o1], cl()))
            cases.append(self._hcase(mode(), [["f", m, 1], ["f", m, 0]], [bad], cl()))
            cases.append(self._hcase(mode(), [["f", m, 1], ["f", m, 2], ["f", m, 1]], [o1, bad], cl()))
        # commands registered twice, interleaved with features
        for _ in range(chk.n(40, 400)):
            names = ["cmd%d" % rng.randint(0, 4) for _ in range(rng.randint(2, 7))]
            hist = [["c", n] for n in names]
            hist.insert(rng.randint(0, len(hist)), ["f", "textDocument/hover", 0])
            cases.append(self._hcase(rng.choice([1, 0]), hist, [], self._client(rng, "empty")))
        # random histories over a few methods with repeats, valid and wrong option objects, commands
        for _ in range(chk.n(400, 6000)):
            ms = rng.sample(with_type, rng.randint(1, 4)) + rng.sample(plain, rng.randint(0, 2))
            objs, hist = [], []
            for _ in range(rng.randint(2, 10)):
                if rng.random() < 0.15:
                    hist.append(["c", "cmd%d" % rng.randint(0, 3)])
                    continue
                m = rng.choice(ms)
                r = rng.random()
                if r < 0.3 or not isinstance(e.opt_types.get(m), list):
                    hist.append(["f", m, 0])
                elif r < 0.8:
                    objs.append(self._obj_for(rng, rng.choice(e.opt_types[m])))
                    hist.append(["f", m, len(objs)])
                else:
                    objs.append(self._wrong_obj(rng, e, m))
                    hist.append(["f", m, len(objs)])
            cases.append(self._hcase(rng.choice([1, 1, 0]), hist, objs, self._client(rng),
                                     sync=rng.choice([2, 2, 1, 0]), nb=rng.choice([None, 1])))
        # a second server of the same process, initialised after another one: nothing may carry over
        # (default option objects, registries, option objects of the first server)
        defaults = [("textDocument/completion", "completionItem/resolve"), ("textDocument/codeAction", "codeAction/resolve"),
                    ("textDocument/codeLens", "codeLens/resolve"), ("textDocument/documentLink", "documentLink/resolve"),
                    ("textDocument/inlayHint", "inlayHint/resolve"), ("workspace/symbol", "workspaceSymbol/resolve"),
                    ("textDocument/diagnostic", "workspace/diagnostic"), ("textDocument/signatureHelp", None),
                    ("textDocument/rename", "textDocument/prepareRename")]
        empty = {"td": None, "ws": None, "nbdoc": False, "general": None}
        for m, r in defaults:
            for cm in ("empty", "max"):
                first = self._hcase(1, [["f", m, 0]] + ([["f", r, 0]] if r else []) + [["c", "first"]], [],
                                    self._client(rng, cm), tag="first-server")
                cases.append(self._hcase(1, [["f", m, 0]], [], self._client(rng, cm), tag="second-server", before=[first]))
                cases.append(self._hcase(1, [], [], empty, tag="second-server", before=[first]))
        for _ in range(chk.n(30, 300)):
            objs = []
            ms = rng.sample(e.registry, rng.randint(2, 8))
            first = self._hcase(1, [["f"] + self._feat(rng, e, m, objs, 0.5) for m in ms] + [["c", "x"]], objs,
                                self._client(rng, "max"), tag="first-server")
            objs2 = []
            ms2 = rng.sample(ms, rng.randint(1, len(ms)))
            cases.append(self._hcase(1, [["f"] + self._feat(rng, e, m, objs2, 0.5) for m in ms2], objs2,
                                     self._client(rng), tag="second-server", before=[first]))
        return cases

    # ------------------------------------------------------------------ implementation
    def run_impl(self, chk, cases):
        e = env()
        cov = None
        if not chk.quick and len(cases) > 100:
            try:
                import coverage
                cov = coverage.Coverage(data_file=None, include=["*/pygls/capabilities.py",
                                                                 "*/pygls/protocol/language_server.py"])
                cov.start()
            except Exception:
                cov = None
        out = []
        try:
            for c in cases:
                try:
                    out.append(self._run_one(e, c))
                except Exception as ex:
                    out.append(["raise", type(ex).__name__])
        finally:
            if cov is not None:
                cov.stop()
                self._anchored_coverage(cov)
        return out

    def _anchored_coverage(self, cov):
        """Which lines of the anchored code (ServerCapabilitiesBuilder, get_capability, lsp_initialize) ran."""
        import inspect
        import pygls.capabilities as capm
        import pygls.protocol.language_server as lsm
        spans = []
        for mod, objs in ((capm, [capm.get_capability, capm.ServerCapabilitiesBuilder]),
                          (lsm, [lsm.LanguageServerProtocol.lsp_initialize])):
            for o in objs:
                src, start = inspect.getsourcelines(o)
                spans.append((mod.__file__, start, start + len(src) - 1))
        total, missing = 0, []
        for fn, a, b in spans:
            _, stmts, _, miss, _ = cov.analysis2(fn)
            st = [l for l in stmts if a <= l <= b]
            total += len(st)
            lines = open(fn).read().split("\n")
            # def / class / decorator lines run at import time, before the measurement starts
            missing += ["%s:%d" % (os.path.basename(fn), l) for l in miss if a <= l <= b
                        and not lines[l - 1].lstrip().startswith(("def ", "class ", "@"))]
        self.extra_coverage = dict(getattr(self, "extra_coverage", {}) or {})
        self.extra_coverage.update({"anchored_lines": total, "anchored_lines_executed": total - len(missing),
                                    "anchored_lines_never_executed": missing})

    def _run_one(self, e, c):
        t = e.types
        objs = [e.mk(o) for o in c["objs"]]
        client = e.client_caps(c["client"])
        sync = None if c["sync"] is None else t.TextDocumentSyncKind(c["sync"])
        nb = e.nb_option(c.get("nb"))
        for b in c.get("before", []):      # other servers of the same process, initialised earlier
            self._run_one(e, b)
        hist = c.get("hist")
        res = []

        def register(target):
            """the registration history: every attempt through the public decorators; a refused attempt
            (any exception) is recorded and the history goes on, as a plugin loader would"""
            if hist is None:
                for m, o in c["feats"]:
                    target.feature(m, objs[o - 1] if o else None)(handler)
                for name in c["cmds"]:
                    target.command(name)(handler)
                return
            for a in hist:
                try:
                    if a[0] == "f":
                        target.feature(a[1], objs[a[2] - 1] if a[2] else None)(lambda *x, **k: None)
                    else:
                        target.command(a[1])(lambda *x, **k: None)
                    res.append(True)
                except Exception:
                    res.append(False)

        def out(d):
            if hist is not None:
                d["res"] = res
            return d

        if c["mode"] == 0:
            from pygls.feature_manager import FeatureManager
            from pygls.capabilities import ServerCapabilitiesBuilder
            fm = FeatureManager(None, e.conv)
            register(fm)
            caps = ServerCapabilitiesBuilder(client, set(fm.features.keys()), fm.feature_options,
                                             list(fm.commands.keys()), sync, nb).build()
            return out({"caps": e.conv.unstructure(caps), "ws": None})
        from pygls.lsp.server import LanguageServer
        kw = {} if c["sync"] == 2 else {"text_document_sync_kind": sync}   # 2 = the default (Incremental)
        srv = LanguageServer("c12", "0", notebook_document_sync=nb, converter_factory=lambda: e.conv, **kw)
        register(srv)
        p = srv.protocol
        w = Rec()
        p.set_writer(w)

        def feed(msg):
            p.handle_message(json.loads(json.dumps(msg), object_hook=p.structure_message))

        def do_init(k, client, root):
            """one initialize request (id k+1) and what can be seen after it: the capabilities on the wire, the
            encoding attribute of the workspace, and the encoding a document opened NOW is edited with"""
            roots = {"same": {"root_uri": "file:///c12"}, "other": {"root_uri": "file:///c12/other%d" % k},
                     "none": {}, "path": {"root_path": "/c12"}}
            params = t.InitializeParams(capabilities=client, process_id=4711, **roots[root])
            del w.data[:]
            feed({"jsonrpc": "2.0", "id": k + 1, "method": "initialize", "params": e.conv.unstructure(params)})
            raw = b"".join(w.data)
            head, body = raw.split(b"\r\n\r\n", 1)
            resp = json.loads(body[:int(re.search(rb"Content-Length: (\d+)", head).group(1))])
            if "result" not in resp:
                return ["error-response", resp.get("error", {}).get("code")]
            caps = resp["result"]["capabilities"]
            adv = caps.get("positionEncoding")
            wsenc = srv.workspace.position_encoding
            wsenc = getattr(wsenc, "value", wsenc)
            probe = None
            if c["sync"] == 2:
                uri = "file:///c12/probe%d.txt" % k
                feed({"jsonrpc": "2.0", "method": "textDocument/didOpen", "params": {
                    "textDocument": {"uri": uri, "languageId": "x", "version": 1, "text": PROBE_TEXT}}})
                feed({"jsonrpc": "2.0", "method": "textDocument/didChange", "params": {
                    "textDocument": {"uri": uri, "version": 2},
                    "contentChanges": [{"range": {"start": {"line": 0, "character": 4},
                                                  "end": {"line": 0, "character": 4}}, "text": "#"}]}})
                probe = self._classify(e, srv.workspace.get_text_document(uri).source)
            return {"caps": caps, "ws": [adv, wsenc, probe]}

        first = do_init(0, client, "path" if c.get("tag") == "enc" else "same")
        if "session" not in c:
            return out(first) if isinstance(first, dict) else first
        # the same server is initialised again (and again): after EACH initialize the observation is taken
        steps = [out(first) if isinstance(first, dict) else first]
        for k, st in enumerate(c["session"], 1):
            hist = st.get("add", [])
            res = []
            register(srv)
            o = do_init(k, e.client_caps(st["client"]), st.get("root", "same"))
            steps.append(out(o) if isinstance(o, dict) else o)
        return {"steps": steps}

    _probe_table = None
    def _classify(self, e, text):
        """Which position encoding(s) turn the probe edit into `text` (computed on a stand-alone TextDocument)."""
        if C12._probe_table is None:
            from pygls.workspace import TextDocument, PositionCodec
            t = e.types
            tab = {}
            for name in ("utf-8", "utf-16", "utf-32"):
                d = TextDocument("file:///p", PROBE_TEXT, sync_kind=t.TextDocumentSyncKind.Incremental,
                                 position_codec=PositionCodec(encoding=t.PositionEncodingKind(name)))
                d.apply_change(t.TextDocumentContentChangePartial(
                    range=t.Range(t.Position(0, 4), t.Position(0, 4)), text="#"))
                tab[name] = d.source
            assert len(set(tab.values())) == 3, "probe does not separate the encodings"
            C12._probe_table = tab
        return sorted(k for k, v in C12._probe_table.items() if v == text)

    # ------------------------------------------------------------------ model
    @staticmethod
    def _cmd_ids(c):
        """command names of a history -> 1.. in order of first appearance"""
        ids = {}
        for a in c["hist"]:
            if a[0] == "c" and a[1] not in ids:
                ids[a[1]] = len(ids) + 1
        return ids

    def _oracle(self, e, m, obj):
        """what get_method_options_type + is_instance (lsprotocol / cattrs: the oracle of the model) say about
        this options object for this method: 0 no type, 1 valid, 2 wrong type, 3 unknown method, 4 raises"""
        from pygls.lsp import get_method_options_type, is_instance
        try:
            t = get_method_options_type(m)
        except Exception:
            return 3
        if t is None:
            return 0
        try:
            return 1 if is_instance(e.conv, obj, t) else 2
        except Exception:
            return 4

    @staticmethod
    def _session_steps(c):
        """a session as the flat cases the model is asked about: step k = the registry after every attempt made
        up to the k-th initialize + that initialize's client capabilities (nothing else: the model of
        lsp_initialize has no memory of earlier initializes)"""
        base = {k: v for k, v in c.items() if k not in ("session", "before")}
        steps, hist = [base], list(c["hist"])
        for st in c["session"]:
            hist = hist + [list(a) for a in st.get("add", [])]
            d = dict(base); d["hist"] = hist; d["client"] = st["client"]; d["new"] = len(st.get("add", []))
            steps.append(d)
        return steps

    def model_input(self, c):
        e = env()
        if "session" in c:
            steps = self._session_steps(c)
            return "seq %d " % len(steps) + " ".join(self.model_input(st) for st in steps)
        if "hist" in c:
            ids = self._cmd_ids(c)
            toks = ["hist", c["mode"], len(c["hist"])]
            for a in c["hist"]:
                if a[0] == "f":
                    chk = self._oracle(e, a[1], e.mk(c["objs"][a[2] - 1])) if a[2] else 0
                    toks += [0, e.method_code(a[1]), a[2], chk]
                else:
                    toks += [1, ids[a[1]], 0, 0]
        else:
            toks = ["caps", c["mode"], len(c["feats"])]
            for m, o in c["feats"]:
                toks += [e.method_code(m), o]
        toks.append(len(c["objs"]))
        for spec in c["objs"]:
            o = e.mk(spec)
            toks += [tri(getattr(o, "resolve_provider", None)), tri(getattr(o, "workspace_diagnostics", None)),
                     1 if isinstance(o, e.types.SemanticTokensRegistrationOptions) else 0]
        if "hist" not in c:
            toks.append(len(c["cmds"]))
            toks += list(range(1, len(c["cmds"]) + 1))
        toks.append(0 if c["sync"] is None else c["sync"] + 1)
        toks.append(0 if c.get("nb") is None else c["nb"] + 1)
        cl = c["client"]
        td = cl.get("td")
        if td is None:
            toks.append(0)
        else:
            toks.append(1)
            sy = td.get("sync")
            toks += [0] if sy is None else [1, tri(sy.get("ws")), tri(sy.get("wswu"))]
            rn = td.get("rename")
            toks += [0] if rn is None else [1, tri(rn.get("ps"))]
        ws = cl.get("ws")
        if ws is None:
            toks.append(0)
        else:
            toks.append(1)
            fo = ws.get("fo")
            toks += [0] if fo is None else [1] + [tri(x) for x in fo]
        toks.append(1 if cl.get("nbdoc") else 0)
        ge = cl.get("general")
        if ge is None:
            toks.append(0)
        else:
            toks.append(1)
            encs = ge.get("encs")
            if encs is None:
                toks.append(0)
            else:
                toks += [1, len(encs)] + [self._enc_code(x) for x in encs]
        return " ".join(map(str, toks))

    @staticmethod
    def _enc_code(s):
        return ENC_CODE.get(s, 100 + (sum(map(ord, s)) % 100))

    def _read_values(self, it, c, e):
        vals = {}
        for f in FIELDS:
            vals[f] = self._read_value(it, c, e)
        return vals

    def _patched(self, c, e, i, r=None, w=None, patch_rw=True, prepare=None):
        spec = c["objs"][i - 1]
        j = e.pristine(spec)
        o = e.mk(spec)
        if patch_rw:
            if hasattr(o, "resolve_provider"):
                j.pop("resolveProvider", None)
                if r is not None:
                    j["resolveProvider"] = r
            if hasattr(o, "workspace_diagnostics"):
                j.pop("workspaceDiagnostics", None)
                if w is not None:
                    j["workspaceDiagnostics"] = w
        if prepare is not None:
            j["prepareProvider"] = prepare
        return j

    def _read_value(self, it, c, e):
        """-> ("absent",) or ("v", json)"""
        tag = next(it)
        untri = lambda x: None if x == 0 else (x == 2)
        if tag == 0:
            return None
        if tag == 1:
            return ("v", bool(next(it)))
        if tag == 2:
            next(it)
            raise RuntimeError("unobserved reference in model output")
        if tag == 3:
            r = untri(next(it))
            return ("v", {} if r is None else {"resolveProvider": r})
        if tag == 4:
            return ("v", {"interFileDependencies": False, "workspaceDiagnostics": bool(next(it))})
        if tag == 5:
            return ("v", {"prepareProvider": bool(next(it))})
        if tag == 6:
            i, full, rng = next(it), next(it), next(it)
            j = {"legend": self._patched(c, e, i, patch_rw=False)}
            if full == 1:
                j["full"] = True
            elif full == 2:
                j["full"] = {"delta": True}
            if rng:
                j["range"] = True
            return ("v", j)
        if tag == 7:
            return ("v", next(it))
        if tag == 8:
            n = next(it)
            names = c["cmds"] if "hist" not in c else list(self._cmd_ids(c))
            return ("v", {"commands": [names[next(it) - 1] for _ in range(n)]})
        if tag == 9:
            return ("v", e.conv.unstructure(e.nb_option(next(it))))
        if tag == 10:
            return ("v", {"supported": True, "changeNotifications": True})
        if tag == 11:
            return ("v", ENC_NAME[next(it)])
        if tag == 12:
            i, r, w = next(it), untri(next(it)), untri(next(it))
            return ("v", self._patched(c, e, i, r, w))
        if tag == 13:
            i, p = next(it), bool(next(it))
            return ("v", self._patched(c, e, i, patch_rw=False, prepare=p))
        raise RuntimeError("bad value tag %r" % tag)

    @staticmethod
    def _assemble(vals):
        caps, tds, ws, fo = {}, {}, {}, {}
        for f, v in vals.items():
            if v is None:
                continue
            j = v[1]
            if f in SYNC:
                tds[SYNC[f]] = j
            elif f in FILEOPS:
                fo[FILEOPS[f]] = j
            elif f == "FWorkspaceFolders":
                ws["workspaceFolders"] = j
            else:
                caps[TOP[f]] = j
        caps["textDocumentSync"] = tds
        if ws:
            ws["fileOperations"] = fo
            caps["workspace"] = ws
        return caps

    def model_output(self, c, toks):
        if toks and toks[0] == "DRIVER-ERROR":
            raise RuntimeError("driver: " + " ".join(toks))
        it = iter([int(x) for x in toks])
        if "session" not in c:
            return self._model_one(c, it)
        outs = []
        for st in self._session_steps(c):
            o = self._model_one(st, it)
            if "new" in st:          # the implementation reports the outcomes of the attempts added for this step
                for side in ("M", "S"):
                    if o[side] is not None and "res" in o[side]:
                        o[side]["res"] = o[side]["res"][len(o[side]["res"]) - st["new"]:]
            outs.append(o)
        S = None if any(o["S"] is None for o in outs) else {"steps": [o["S"] for o in outs]}
        klass = next((o["klass"] for o in outs if o.get("klass") and not o["guard"]), None)
        return {"M": {"steps": [o["M"] for o in outs]}, "S": S,
                "guard": all(o["guard"] for o in outs), "klass": klass}

    def _model_one(self, c, it):
        e = env()
        mres = sres = None
        if "hist" in c:
            mres = [bool(next(it)) for _ in range(next(it))]
            # the reference's view of the attempts: accepted iff valid and no earlier valid attempt for the name
            sres, seen = [], set()
            for a in c["hist"]:
                if a[0] == "f":
                    valid = (not a[2]) or self._oracle(e, a[1], e.mk(c["objs"][a[2] - 1])) in (0, 1)
                else:
                    valid = True
                ok = valid and (a[0], a[1]) not in seen
                if ok:
                    seen.add((a[0], a[1]))
                sres.append(ok)
        mvals = self._read_values(it, c, e)
        svals = self._read_values(it, c, e)
        guard = bool(next(it))
        klass = {0: None, 1: "F27a-shared-option-object", 2: "F29-rename-options-dropped"}[next(it)]
        mws = self._read_value(it, c, e)
        sws = self._read_value(it, c, e)
        def wsobs(v):
            if c["mode"] == 0:
                return None
            enc = v[1]
            return [enc, enc, [enc] if c["sync"] == 2 else None]
        M = {"caps": self._assemble(mvals), "ws": wsobs(mws)}
        S = {"caps": self._assemble(svals), "ws": wsobs(sws)}
        if mres is not None:
            M["res"], S["res"] = mres, sres
        methods = [a[1] for a in c["hist"] if a[0] == "f"] if "hist" in c else [m for m, _ in c["feats"]]
        # an object of a class that is NOT the method's options class but passes pygls' structural check
        # (finding #27, recorded under C19): not an "option object valid for the method" - observed only
        nonnominal = "hist" in c and any(
            a[0] == "f" and a[2] and isinstance(e.opt_types.get(a[1]), list)
            and c["objs"][a[2] - 1]["cls"] not in e.opt_types[a[1]]
            and self._oracle(e, a[1], e.mk(c["objs"][a[2] - 1])) == 1 for a in c["hist"])
        if nonnominal or any(m in NEWER_THAN_317 for m in methods):
            return {"M": M, "S": None, "guard": False, "klass": None}
        return {"M": M, "S": S, "guard": guard, "klass": klass}

    # ------------------------------------------------------------------ driver sanity, search, coverage
    NV_CASE = {"mode": 0, "tag": "nv",
               "feats": [["textDocument/codeLens", 1], ["codeLens/resolve", 0], ["textDocument/completion", 0],
                         ["completionItem/resolve", 0], ["textDocument/hover", 2], ["textDocument/rename", 0],
                         ["textDocument/willSave", 0], ["workspace/willCreateFiles", 3],
                         ["textDocument/semanticTokens/range", 4]],
               "objs": [{"cls": "CodeLensOptions", "kw": {}}, {"cls": "HoverOptions", "kw": {}},
                        {"cls": "FileOperationRegistrationOptions", "kw": {"filters": []}},
                        {"cls": "SemanticTokensLegend", "kw": {"token_types": [], "token_modifiers": []}}],
               "cmds": ["one", "two"], "sync": 2, "nb": None,
               "client": {"td": {"sync": {"ws": True, "wswu": None}, "rename": {"ps": True}},
                          "ws": {"fo": [True, None, None, None, None, None]}, "nbdoc": True,
                          "general": {"encs": ["utf-7", "utf-32", "utf-8"]}}}
    # the values Example C12_nonvacuous (Props/C12.v) establishes by vm_compute inside Coq, as driver tokens
    NV_EXPECT = {"FCodeLens": [12, 1, 2, 0], "FCompletion": [3, 2], "FHover": [12, 2, 0, 0], "FRename": [5, 0],
                 "FSyncWillSave": [1, 1], "FWillCreate": [12, 3, 0, 0], "FSemanticTokens": [6, 4, 0, 1],
                 "FExecuteCommand": [8, 2, 1, 2], "FPositionEncoding": [11, 32]}

    @staticmethod
    def _raw_values(toks):
        """split the driver's token stream into per-slot token lists (model side only)"""
        arity = {0: 0, 1: 1, 2: 1, 3: 1, 4: 1, 5: 1, 6: 3, 7: 1, 9: 1, 10: 0, 11: 1, 12: 3, 13: 2}
        out, i = {}, 0
        for f in FIELDS:
            tag = toks[i]
            n = 1 + toks[i + 1] if tag == 8 else arity[tag]
            out[f] = toks[i:i + 1 + n]
            i += 1 + n
        return out

    def extra_checks(self, chk):
        bad = []
        toks = [int(x) for x in core.run_driver(self.id, [self.model_input(self.NV_CASE)])[0]]
        raw = self._raw_values(toks)
        got = {f: raw[f] for f in self.NV_EXPECT}
        if got != self.NV_EXPECT:
            bad.append({"case": self.NV_CASE, "impl": None, "M": got, "S": self.NV_EXPECT, "verdict": "violation",
                        "suffix": "no-failing-input-found", "broken": "extracted driver disagrees with vm_compute (C12_nonvacuous)"})
        codes = core.run_driver(self.id, ["code %d" % k for k in list(range(57)) + [100, 157, 300]])
        if [int(t[0]) for t in codes] != list(range(57)) + [100, 157, 300]:
            bad.append({"case": None, "impl": None, "M": codes, "S": None, "verdict": "violation",
                        "suffix": "no-failing-input-found", "broken": "method numbering of the driver"})
        self.extra_coverage = dict(getattr(self, "extra_coverage", {}) or {})
        self.extra_coverage["driver_sanity"] = "C12_nonvacuous slots + method numbering: %s" % ("ok" if not bad else "FAILED")
        return bad

    def search(self, chk):
        """The tie or a proof broke: look for an input on which the implementation itself fails the reference -
        every pair of registry methods, with and without options, towards a maximal and an empty client."""
        e = env()
        rng = chk.rng
        cases = []
        for a, b in itertools.combinations(e.registry, 2):
            for p_opt in (0.0, 1.0):
                objs = []
                feats = [self._feat(rng, e, a, objs, p_opt), self._feat(rng, e, b, objs, p_opt)]
                cases.append(self._case(1, feats, objs, self._client(rng, rng.choice(["max", "empty"])), tag="search"))
        res = core.evaluate(self, chk, cases)
        return [r for r in res if r["verdict"] == "violation"][:1]

    def satisfies(self, case, impl, S):
        return core.canon(impl) == core.canon(S)

    def same(self, case, impl, M):
        return core.canon(impl) == core.canon(M)

    def nontrivial(self, c):
        cl = c["client"]
        switched = any(cl.get(k) for k in ("td", "ws", "nbdoc", "general"))
        return len(c.get("hist") or c["feats"]) >= 2 or bool(c["objs"]) or switched

    def shrink(self, c):
        if "session" in c:
            for i in range(len(c["session"])):
                d = json.loads(json.dumps(c)); del d["session"][i]
                if not d["session"]:
                    del d["session"]
                yield d
            for i, st in enumerate(c["session"]):
                if st.get("add"):
                    d = json.loads(json.dumps(c)); d["session"][i]["add"] = []
                    yield d
        if "before" in c:
            d = json.loads(json.dumps(c)); del d["before"]
            yield d
        if "hist" in c:
            for i in range(len(c["hist"])):
                d = json.loads(json.dumps(c)); del d["hist"][i]
                yield d
            for k in ("td", "ws", "general"):
                if c["client"].get(k) is not None:
                    d = json.loads(json.dumps(c)); d["client"][k] = None
                    yield d
            return
        for i in range(len(c["feats"])):
            d = json.loads(json.dumps(c)); del d["feats"][i]
            yield d
        for i, (m, o) in enumerate(c["feats"]):
            if o:
                d = json.loads(json.dumps(c)); d["feats"][i][1] = 0
                yield d
        if c["cmds"]:
            d = json.loads(json.dumps(c)); d["cmds"] = d["cmds"][:-1]
            yield d
        for k in ("td", "ws", "general"):
            if c["client"].get(k) is not None:
                d = json.loads(json.dumps(c)); d["client"][k] = None
                yield d
        if c["client"].get("nbdoc"):
            d = json.loads(json.dumps(c)); d["client"]["nbdoc"] = False
            yield d
        if c.get("nb") is not None:
            d = json.loads(json.dumps(c)); d["nb"] = None
            yield d

    def distribution(self, cases):
        d = {}
        for c in cases:
            k = "tag:" + str(c.get("tag", "corpus"))
            d[k] = d.get(k, 0) + 1
            k = "mode:%d" % c["mode"]
            d[k] = d.get(k, 0) + 1
            if "session" in c:
                d["initializes:%d" % (1 + len(c["session"]))] = d.get("initializes:%d" % (1 + len(c["session"])), 0) + 1
            n = len(c.get("hist") or c["feats"])
            k = "methods:" + ("0" if n == 0 else "1" if n == 1 else "2" if n == 2 else "3-9" if n < 10 else "10+")
            d[k] = d.get(k, 0) + 1
            if c["objs"]:
                d["with-options"] = d.get("with-options", 0) + 1
        return d


PROPERTY = C12


# ---------------------------------------------------------------------------------------------
# Second tie for ServerCapabilitiesBuilder (appended; harness/gen_ast.py, coq/Base/PyMini.v,
# Proofs/AstCapsEquiv.v): the SOURCE TEXT of _provider_options, _build and of 24 of the 34 _with_* methods is
# translated on every run by the fail-closed AST translator into a deep embedding, and the kernel re-checks
# that each of them leaves the builder Model/Caps.v's run_with leaves (alone and chained, as build() chains
# them).  Not translated: the methods that assign an attribute of a possibly registered (shared) option object,
# semantic_tokens, position_encodings, workspace_capabilities, build, __init__; get_capability is an oracle.
# Imported late ("Module::theorem") so that a broken translator tie does not hide the other obligations.
import sys as _sys
_sys.path.insert(0, os.path.dirname(os.path.abspath(__file__)))
import gen_ast as _gen_ast

C12.obligations = list(C12.obligations) + ["Proofs.AstCapsEquiv::" + n for n in (
    "ast_caps_with_equiv", "chain_equiv", "ast_caps_example")]
C12.coq_targets = list(C12.coq_targets) + ["Proofs/AstCapsEquiv.vo"]
C12.trusted_base = list(C12.trusted_base) + [
    "translator tie: harness/gen_ast.py (Python ast -> PyMini, fail-closed) and the PyMini semantics "
    "coq/Base/PyMini.v (hand-written meaning of the Python subset: `in` on a set, dict.get, `and` / `or` / "
    "`is` on None and bool, attrs option classes as the record of their constructor arguments, a method that "
    "returns self yields the self it leaves); get_capability is an oracle of those theorems"]
_prev_regenerate = getattr(C12, "regenerate", None)


def _regenerate(self, chk):
    try:
        if _prev_regenerate is not None:
            _prev_regenerate(self, chk)
    finally:
        core.coq_make(["Props/C12.vo", "Extract/ExtractC12.vo"])     # the differential side first
        with core._Lock("coq"):                                      # coq/Gen is shared
            try:
                _gen_ast.gen_caps()
            finally:
                core._coq_make(["Proofs/AstCapsEquiv.vo"])


C12.regenerate = _regenerate
