#!/usr/bin/env python3
"""Regenerated files of C19 (and of C14's has_ls obligation): coq/Gen/AstFeatures.v, the PyMini translation of
the source text of get_help_attrs, has_ls_param_or_annotation, is_thread_function and of the decorators
FeatureManager.feature / command in pygls/feature_manager.py (harness/gen_ast.py, fail-closed).  Run by
`make setup` and, through C19.regenerate / C14.regenerate, on every check."""
import os, sys
sys.path.insert(0, os.path.dirname(os.path.abspath(__file__)))
import gen_ast


def main():
    return gen_ast.gen_features()


if __name__ == "__main__":
    print("gen_c19:", os.path.relpath(main(), gen_ast.ROOT))
