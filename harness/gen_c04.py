#!/usr/bin/env python3
"""Regenerated files of C04: coq/Gen/AstDoc.v (the PyMini translation of the source text of TextDocument in
pygls/workspace/text_document.py) and coq/Gen/AstCodec.v (the position codec it is linked with), by
harness/gen_ast.py (fail-closed).  Run by `make setup` and, through C04.regenerate, on every check."""
import os, sys
sys.path.insert(0, os.path.dirname(os.path.abspath(__file__)))
import gen_c11


def main():
    return gen_c11.main()


if __name__ == "__main__":
    import gen_ast
    print("gen_c04:", " ".join(os.path.relpath(o, gen_ast.ROOT) for o in main()))
