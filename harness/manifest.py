"""Generates /verif/MANIFEST.json (kept valid at all times) from the table below."""
import json, os
ROOT = os.path.dirname(os.path.dirname(os.path.abspath(__file__)))
ALL = [f"C{i:02d}" for i in range(1, 21)]
BASE_NOTE = ("Trusted: Coq 8.16.1 kernel (+ vm_compute for finite witnesses/Examples; no native_compute); "
             "Print Assumptions of every obligation is copied into the evidence (target: Closed under the global "
             "context); extraction uses ExtrOcamlBasic only (no Extract Constant / extra Extract Inductive); the "
             "OCaml driver glue, the Python harness (generators, canonicalisers) and the hand-written model's "
             "agreement with /repo, which is re-tested differentially on every run. ")
REGISTERED = set(open(os.path.join(ROOT, "harness", "registered.txt")).read().split())
CHECKS = {}
for _f in sorted(os.listdir(os.path.join(ROOT, "harness", "manifest.d"))):
    if _f.endswith(".json") and _f[:-5] in REGISTERED:
        CHECKS[_f[:-5]] = json.load(open(os.path.join(ROOT, "harness", "manifest.d", _f)))
def main():
    checks = []
    for pid in ALL:
        if pid not in CHECKS:
            continue
        c = CHECKS[pid]
        checks.append({
            "property_id": pid, "engine": "coq-model+correspondence",
            "quick_cmd": f"./check {pid} --tier quick",
            "thorough_cmd": f"./check {pid} --tier thorough",
            "replay_cmd_template": f"./check {pid} --replay {{path}}",
            "evidence_file": f"evidence/{pid}.json",
            "level_claimed": {"category": "proof", "design_ref": c["ref"], "text": c["text"]},
            "level_note": BASE_NOTE + c["note"],
            "technique": c["technique"]})
    m = {"version": 1,
         "setup_cmd": "make -C /verif setup",
         "hooks": {"guard": "PYGLS_VERIF", "enable": "no source hooks are needed: the harness drives the unmodified code (PYGLS_VERIF=1 is exported by ./check but read by nothing in /repo)",
                   "baseline_off_cmd": "cd /repo && /venv/bin/python -m pytest -ra -q -p no:cacheprovider --timeout=900 --continue-on-collection-errors",
                   "source_commits": [], "add_only": True},
         "engines": [{"name": "coq-model+correspondence", "path": "check",
                      "serves_properties": [c["property_id"] for c in checks],
                      "kind_free_text": "Coq 8.16.1 theorems over hand-written Gallina models (coq/), extracted to OCaml (ExtrOcamlBasic) and run differentially against the real pygls by harness/*.py"}],
         "checks": checks,
         "notes": "fix: commits in /repo are listed in known_findings.json (status fixed: ...); open findings have status known.",
         "not_applicable": [{"property_id": p, "reason": "check not built yet (in progress; see DESIGN.md section 8) - not claimed"}
                            for p in ALL if p not in CHECKS]}
    json.dump(m, open(os.path.join(ROOT, "MANIFEST.json"), "w"), indent=1)
main()
