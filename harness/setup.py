"""make setup: regenerate the reflected tables, build every .vo, extract, build every driver."""
import glob, os, sys
sys.path.insert(0, os.path.dirname(os.path.abspath(__file__)))
import core
def main():
    for gen in sorted(glob.glob(os.path.join(core.ROOT, "harness", "gen_*.py"))):
        r = core.sh([core.PY, gen], env={"PYTHONPATH": core.REPO, "PYTHONHASHSEED": "0"})
        sys.stdout.write(r.stdout + r.stderr)
        if r.returncode != 0:
            sys.exit("table generation failed")
    ok, log = core.coq_make()
    print(log[-3000:])
    if not ok:
        sys.exit("coq build failed")
    for d in sorted(glob.glob(os.path.join(core.ROOT, "ocaml", "c*_driver.ml"))):
        prop = os.path.basename(d).split("_")[0].upper()
        print("driver", core.build_driver(prop))
    bad = core.lint()
    if bad:
        print("\n".join(bad)); sys.exit("lint failed")
    print("setup ok")
main()
