"""make setup: for every registered property (harness/manifest.d/Cxx.json): regenerate its reflected
tables, build its .vo cone (full .vo build, never -vos), extract, build its driver. Files of
properties that are not registered yet are not built (they may be under construction)."""
import glob, importlib, os, sys
sys.path.insert(0, os.path.dirname(os.path.abspath(__file__)))
import core
def main():
    props = sorted(open(os.path.join(core.ROOT, "harness", "registered.txt")).read().split())
    targets, mods = [], []
    for p in props:
        m = importlib.import_module(p.lower()).PROPERTY()
        mods.append(m)
        gen = os.path.join(core.ROOT, "harness", f"gen_{p.lower()}.py")
        if os.path.exists(gen):
            r = core.sh([core.PY, gen], env={"PYTHONPATH": core.REPO + os.pathsep + os.path.join(core.ROOT, "harness"), "PYTHONHASHSEED": "0"})
            sys.stdout.write(r.stdout + r.stderr)
            if r.returncode != 0:
                sys.exit(f"table generation failed for {p}")
        # the translated / reflected Gen files of this property: the same hook a check runs (so that a
        # fresh copy never builds against whatever coq/Gen happened to hold when it was committed)
        if hasattr(m, "regenerate"):
            try:
                with core._Lock("pipeline"):
                    m.regenerate(core.Chk(m, "quick", 0, None))
            except Exception as e:
                sys.exit(f"regeneration failed for {p}: {e!r}")
        if m.coq_targets is None:
            targets = None
        elif targets is not None:
            targets += [t for t in m.coq_targets if t not in targets]
    ok, log = core.coq_make(targets)
    print(log[-3000:])
    if not ok:
        sys.exit("coq build failed")
    for m in mods:
        if m.has_driver:
            print("driver", core.build_driver(m.id))
    bad = core.lint()
    if bad:
        print("\n".join(bad)); sys.exit("lint failed")
    print("setup ok:", " ".join(props))
main()
