"""C11 - position conversion is exact, total and side-effect free.
Drives the real PositionCodec / TextDocument.lines; model and reference are Model/Codec.v and
Spec/CodecSpec.v through bin/c11_driver."""
import itertools, json, os
import core

ENCS = (8, 16, 32)
ALPHA_QUICK = [0x61, 0xE9, 0x20AC, 0x1F60B, 0x0A, 0x0D, 0x2028]
ALPHA_FULL = [0x61, 0xE9, 0x20AC, 0x1F60B, 0x0A, 0x0D, 0x0B, 0x2028]


def enc_str(s):
    return f"{len(s)} " + " ".join(map(str, s)) if s else "0"


def enc_lines(ls):
    return f"{len(ls)} " + " ".join(enc_str(l) for l in ls) if ls else "0"


def true_units(e, s):
    if e == 32:
        return len(s)
    if e == 16:
        return sum(2 if c > 0xFFFF else 1 for c in s)
    return sum(1 if c < 0x80 else 2 if c < 0x800 else 3 if c < 0x10000 else 4 for c in s)


class C11(core.Property):
    id = "C11"
    modules = ["Props.C11"]
    obligations = ["loop_width_exact", "cnu_single_exact", "cnu_exact", "walk_prefix", "from_exact",
                   "to_exact", "roundtrip", "from_clamp_eol", "from_clamp_eof", "from_arg_unchanged",
                   "to_arg_unchanged", "spec_from_valid", "spec_from_clamp", "C11_partial",
                   "C11_refuted_utf8", "C11_refuted_eof", "C11_refuted", "C11_reference_agrees",
                   "C11_nonvacuous",
                   "sum_units_concat", "converted_position", "offset_past_eof", "offset_on_line", "offset_exact",
                   "swf_spec", "run_at_model", "word_exact", "word_shape",
                   "C11_offset_partial", "C11_offset_utf32", "C11_offset_utf16", "C11_offset_returns",
                   "C11_offset_refuted_units", "C11_offset_refuted_eof", "C11_offset_refuted",
                   "C11_word_partial", "C11_word_utf16_utf32", "C11_word_refuted_utf8", "C11_word_refuted",
                   "C11_queries_nonvacuous"]
    modules = ["Proofs.CodecProofs", "Proofs.DocQueryProofs", "Props.C11"]
    coq_targets = ["Props/C11.vo", "Extract/ExtractC11.vo"]
    rule = ("width cases: scalar value x encoding (all boundaries + seeded sample; thorough: all 1 112 064); "
            "string cases: every string up to length L over the class alphabet x every line 0..n+1 x every "
            "character 0..units+2 x 3 encodings, plus seeded random longer lines; non-trivial = the text has a "
            "character >= 0x80 or the position is past the end of its line / of the document or inside a character; "
            "offset/word cases: TextDocument.offset_at_position / word_at_position on every text up to length 3 (thorough 4) over "
            "{a, _, 1, space, U+E9, U+1F60B, LF} x every line 0..n+1 x every character 0..units+2 x 3 encodings + seeded longer texts")
    trusted_base = ["Coq 8.16.1 kernel incl. vm_compute (refutation witnesses, Example)",
                    "extraction with ExtrOcamlBasic only + ocaml/c11_driver.ml + conv_io/conv_n",
                    "harness/c11.py (generators, canonicalisation)",
                    "modelled not verified: str.replace/rstrip/slicing, re findall of RE_LINE / RE_START_WORD / RE_END_WORD, ord()"]
    assumptions = ["positions have non-negative line/character (LSP uinteger)",
                   "a Python str is a list of code points 0..0x10FFFF"]

    # ---------------- generation ----------------
    def generate(self, chk):
        cases = []
        cdir = os.path.join(core.ROOT, "corpus", "C11")
        if os.path.isdir(cdir):
            for f in sorted(os.listdir(cdir)):
                cases.extend(json.load(open(os.path.join(cdir, f))))
        rng = chk.rng
        # widths
        bounds = [0, 1, 0x7F, 0x80, 0x7FF, 0x800, 0xD7FF, 0xE000, 0xFFFF, 0x10000, 0x10FFFF, 0xE9, 0x20AC, 0x1F60B]
        if chk.quick:
            cps = bounds + [self._scalar(rng) for _ in range(6000)]
        else:
            cps = [c for c in range(0x110000) if not (0xD800 <= c < 0xE000)]
            self.exhaustive_widths = True
        for c in cps:
            for e in ENCS:
                cases.append({"k": "width", "e": e, "c": c})
        for c in bounds:
            for e in ENCS:
                cases.append({"k": "width", "e": e, "c": c, "es": 1})
        # strings x positions
        alpha = ALPHA_QUICK if chk.quick else ALPHA_FULL
        L = 3 if chk.quick else 5
        for n in range(L + 1):
            for t in itertools.product(alpha, repeat=n):
                text = list(t)
                nl = self._nlines(text)
                for e in ENCS:
                    maxu = true_units(e, text) + 2
                    for l in range(nl + 2):
                        for ch in range(maxu + 1):
                            cases.append({"k": "fromt", "e": e, "text": text, "l": l, "ch": ch})
                    if n <= (3 if chk.quick else 4):
                        for l in range(nl + 2):
                            for k in range(len(text) + 2):
                                cases.append({"k": "tot", "e": e, "text": text, "l": l, "ch": k})
                    if n <= (2 if chk.quick else 3):
                        for l in range(nl + 2):
                            for ch in range(maxu + 1):
                                cases.append({"k": "fromt", "e": e, "text": text, "l": l, "ch": ch, "es": 1})
                            for k in range(len(text) + 2):
                                cases.append({"k": "tot", "e": e, "text": text, "l": l, "ch": k, "es": 1})
                cases.append({"k": "lines", "text": text})
        # TextDocument.offset_at_position / word_at_position: every text up to length LQ over the word
        # alphabet x every line 0..n+1 x every character 0..units+2 x 3 encodings, + longer random texts
        QA = [0x61, 0x5F, 0x31, 0x20, 0xE9, 0x1F60B, 0x0A]
        LQ = 3 if chk.quick else 4
        for n in range(LQ + 1):
            for t in itertools.product(QA, repeat=n):
                text = list(t)
                nl = self._nlines(text)
                for e in ENCS:
                    maxu = max(true_units(e, l) for l in self._split(text)) + 2 if text else 2
                    for l in range(nl + 2):
                        for ch in range(maxu + 1):
                            cases.append({"k": "offset", "e": e, "text": text, "l": l, "ch": ch})
                            cases.append({"k": "word", "e": e, "text": text, "l": l, "ch": ch})
                            if n <= 2:
                                # the same queries on a notebook cell's document of a real server negotiated
                                # to the encoding (cells get the workspace's codec like any document)
                                how = "open" if (l + ch) % 2 == 0 else "struct"
                                cases.append({"k": "offset", "e": e, "text": text, "l": l, "ch": ch, "cell": how})
                                cases.append({"k": "word", "e": e, "text": text, "l": l, "ch": ch, "cell": how})
        qpool = [0x61, 0x62, 0x5A, 0x5F, 0x30, 0x39, 0x20, 0x2D, 0x2E, 0xE9, 0x20AC, 0x1F60B, 0x40, 0x5B, 0x60, 0x7B, 0x2F, 0x3A]
        for _ in range(chk.n(1500, 20000)):
            text = []
            for _l in range(rng.randint(0, 4)):
                text += [rng.choice(qpool) for _ in range(rng.randint(0, 12))] + rng.choice([[10], [13, 10], [13], [10]])
            if rng.random() < 0.6:
                text += [rng.choice(qpool) for _ in range(rng.randint(0, 12))]
            e = rng.choice(ENCS)
            l = rng.randint(0, self._nlines(text) + 1)
            ch = rng.choice([rng.randint(0, 16), rng.randint(0, 16), rng.randint(0, 40), 2 ** 31 - 1])
            cases.append({"k": rng.choice(["offset", "word"]), "e": e, "text": text, "l": l, "ch": ch})
            if rng.random() < 0.2:
                cases[-1]["cell"] = rng.choice(["open", "struct"])
        # a document that is not open (no in-memory source): served from the file, never from stale
        # state (C10's clause, checked here with C11's queries): query, rewrite the file, query
        dpool = [0x61, 0x62, 0x5F, 0x20, 0xE9, 0x1F60B, 0x0A, 0x0A]
        for _ in range(chk.n(150, 1500)):
            t1 = [rng.choice(dpool) for _ in range(rng.choice([0, 1, 3, 6, 12]))]
            t2 = [rng.choice(dpool) for _ in range(rng.choice([0, 2, 5, 9, 20]))]
            cases.append({"k": "disk", "e": rng.choice(ENCS), "text": t1, "text2": t2,
                          "l": rng.randint(0, 4), "ch": rng.randint(0, 6)})
        # explicit line lists (as user code may pass), longer random lines, ranges, huge positions
        pool = [0x61, 0x62, 0xE9, 0x20AC, 0x1F60B, 0x10000, 0xFFFF, 0x7F, 0x80]
        terms = [[], [10], [13], [13, 10]]
        for _ in range(chk.n(1500, 20000)):
            nl = rng.randint(0, 4)
            lines = [[rng.choice(pool) for _ in range(rng.randint(0, 9))] + rng.choice(terms) for _ in range(nl)]
            e = rng.choice(ENCS)
            l = rng.randint(0, nl + 1)
            ch = rng.choice([rng.randint(0, 14), rng.randint(0, 30), 2 ** 31 - 1, 10 ** 6])
            k = rng.choice(["from", "to", "rfrom", "rto", "units"])
            es = rng.randint(0, 1)
            if k == "units":
                cases.append({"k": "units", "e": e, "s": lines[0] if lines else [], "es": es})
            elif k in ("from", "to"):
                cases.append({"k": k, "e": e, "lines": lines, "l": l, "ch": ch, "es": es})
            else:
                same = rng.random() < 0.5
                cases.append({"k": k, "e": e, "lines": lines, "l": l, "ch": rng.randint(0, 8) if same else ch,
                              "l2": l if same else rng.randint(0, nl + 1), "ch2": rng.randint(0, 20), "es": es})
        # ranges, small scope: every text up to length 3 over {a, astral, LF} x every pair of positions
        # (valid, inside a character, past the end of the line / document) x 3 encodings
        for n in range(4):
            for t in itertools.product([0x61, 0x1F60B, 0x0A], repeat=n):
                lines = self._lines_keep(list(t))
                for e in ENCS:
                    ps = [(l, ch) for l in range(len(lines) + 1)
                          for ch in range((true_units(e, lines[l]) if l < len(lines) else 0) + 2)]
                    for (l, ch) in ps:
                        for (l2, ch2) in ps:
                            cases.append({"k": "rfrom", "e": e, "lines": lines, "l": l, "ch": ch, "l2": l2, "ch2": ch2})
                    if n <= 2 or chk.quick is False:
                        ks = [(l, k) for l in range(len(lines) + 1) for k in range((len(lines[l]) if l < len(lines) else 0) + 2)]
                        for (l, ch) in ks:
                            for (l2, ch2) in ks:
                                cases.append({"k": "rto", "e": e, "lines": lines, "l": l, "ch": ch, "l2": l2, "ch2": ch2})
        # lines that are not LSP-shaped (embedded terminators): model = implementation only
        weird = [0x61, 10, 13, 0x1F60B]
        for _ in range(chk.n(400, 5000)):
            lines = [[rng.choice(weird) for _ in range(rng.randint(0, 5))] for _ in range(rng.randint(1, 3))]
            cases.append({"k": "from", "e": rng.choice(ENCS), "lines": lines, "l": rng.randint(0, 3),
                          "ch": rng.randint(0, 8), "monly": True})
        return cases

    @staticmethod
    def _scalar(rng):
        while True:
            c = rng.choice([rng.randrange(0x80), rng.randrange(0x800), rng.randrange(0x10000), rng.randrange(0x110000)])
            if not (0xD800 <= c < 0xE000):
                return c

    @staticmethod
    def _nlines(text):
        n, i = 0, 0
        while i < len(text):
            if text[i] == 13 and i + 1 < len(text) and text[i + 1] == 10:
                n += 1; i += 2
            elif text[i] in (10, 13):
                n += 1; i += 1
            else:
                i += 1
        return n + (1 if text and text[-1] not in (10, 13) else 0)

    _cells = [0]

    def _cell_document(self, c):
        """the TextDocument a real LanguageServer (negotiated to the case's encoding) holds for a notebook
        cell that arrived with notebookDocument/didOpen ("open") or with a didChange structure ("struct")"""
        import c04
        server = c04._shared_server(c["e"], 2)
        self._cells[0] += 1
        uri = "file:///c11/cell%d.py" % self._cells[0]
        for m, _ in c04._msgs({"text": c["text"], "v0": 1, "ns": [], "cell": c["cell"]}, uri):
            c04._deliver(server, m)
        return server.workspace.get_text_document(uri)

    @staticmethod
    def _lines_keep(text):
        """the lines of a text with their terminators (LF, CRLF, CR), as TextDocument.lines has them"""
        out, cur, i = [], [], 0
        while i < len(text):
            c = text[i]; cur.append(c); i += 1
            if c == 13 and i < len(text) and text[i] == 10:
                cur.append(10); i += 1
            if c in (10, 13):
                out.append(cur); cur = []
        if cur:
            out.append(cur)
        return out

    @staticmethod
    def _last_line(text):
        """the last line as TextDocument.lines has it (with its terminator)"""
        i = len(text)
        if i and text[i - 1] == 10:
            i -= 1
            if i and text[i - 1] == 13:
                i -= 1
        elif i and text[i - 1] == 13:
            i -= 1
        while i and text[i - 1] not in (10, 13):
            i -= 1
        return text[i:]

    @staticmethod
    def _split(text):
        """LSP line bodies (without terminators)"""
        out, cur, i = [], [], 0
        while i < len(text):
            c = text[i]
            if c == 13 and i + 1 < len(text) and text[i + 1] == 10:
                out.append(cur); cur = []; i += 2
            elif c in (10, 13):
                out.append(cur); cur = []; i += 1
            else:
                cur.append(c); i += 1
        out.append(cur)
        return out

    # ---------------- implementation ----------------
    def run_impl(self, chk, cases):
        from lsprotocol import types
        from pygls.workspace import PositionCodec, TextDocument
        kind = {8: types.PositionEncodingKind.Utf8, 16: types.PositionEncodingKind.Utf16,
                32: types.PositionEncodingKind.Utf32}
        codecs = {e: PositionCodec(encoding=kind[e]) for e in ENCS}
        # the negotiated encoding may reach the codec as a plain string (general.positionEncodings is
        # `List[Union[PositionEncodingKind, str]]`): cases with "es": 1 use a codec built from the str
        scodecs = {e: PositionCodec(encoding=str(kind[e].value)) for e in ENCS}
        tostr = lambda s: "".join(map(chr, s))
        lines_cache = {}
        doc_cache = {}
        def doc_lines(text):
            key = tuple(text)
            if key not in lines_cache:
                if len(lines_cache) > 50000:
                    lines_cache.clear()
                lines_cache[key] = TextDocument("file:///c11.txt", tostr(text)).lines
            return list(lines_cache[key])
        out = []
        for c in cases:
            k = c["k"]
            try:
                if c.get("es"):
                    codecs_ = scodecs
                else:
                    codecs_ = codecs
                if k == "width":
                    ch = chr(c["c"]); cd = codecs_[c["e"]]
                    line = [ch + "a" * 8]
                    loopw = sum(1 for u in range(1, 9)
                                if cd.position_from_client_units(line, types.Position(0, u)).character == 1)
                    tw = {8: len(ch.encode("utf-8")), 16: len(ch.encode("utf-16-le")) // 2,
                          32: len(ch.encode("utf-32-le")) // 4}[c["e"]]
                    out.append([loopw, cd.client_num_units(ch), tw])
                elif k == "units":
                    out.append([codecs_[c["e"]].client_num_units(tostr(c["s"]))])
                elif k == "lines":
                    out.append([[ord(x) for x in l] for l in doc_lines(c["text"])])
                elif k in ("from", "to", "fromt", "tot"):
                    if "text" in c:
                        lines = doc_lines(c["text"])
                    else:
                        lines = [tostr(l) for l in c["lines"]]
                    before = list(lines)
                    p = types.Position(line=c["l"], character=c["ch"])
                    cd = codecs_[c["e"]]
                    r = (cd.position_from_client_units if k.startswith("from") else cd.position_to_client_units)(lines, p)
                    assert lines == before, "lines argument modified"
                    out.append([r.line, r.character, p.line, p.character])
                elif k in ("offset", "word"):
                    key = (c["e"], tuple(c["text"]), c.get("cell"))
                    if key not in doc_cache:
                        if len(doc_cache) > 20000:
                            doc_cache.clear()
                        if c.get("cell"):
                            doc_cache[key] = self._cell_document(c)
                        else:
                            doc_cache[key] = TextDocument("file:///c11.txt", tostr(c["text"]),
                                                          position_codec=codecs[c["e"]])
                    doc = doc_cache[key]
                    p = types.Position(line=c["l"], character=c["ch"])
                    if k == "offset":
                        out.append([doc.offset_at_position(p)])
                    else:
                        out.append([ord(x) for x in doc.word_at_position(p)])
                    assert (p.line, p.character) == (c["l"], c["ch"]), "position argument modified"
                elif k == "disk":
                    from pygls import uris
                    os.makedirs(os.path.join(core.ROOT, "work", "C11"), exist_ok=True)
                    path = os.path.join(core.ROOT, "work", "C11", f"disk_{os.getpid()}.txt")
                    obs = []
                    try:
                        doc = None
                        for t in (c["text"], c["text2"]):
                            with open(path, "w", encoding="utf-8", newline="") as f:
                                f.write(tostr(t))
                            if doc is None:
                                doc = TextDocument(uris.from_fs_path(path), position_codec=codecs[c["e"]])
                            p = types.Position(line=c["l"], character=c["ch"])
                            obs.append([[ord(x) for x in doc.source], [[ord(x) for x in l] for l in doc.lines],
                                        doc.offset_at_position(p), [ord(x) for x in doc.word_at_position(p)]])
                    finally:
                        if os.path.exists(path):
                            os.remove(path)
                    out.append(obs)
                elif k in ("rfrom", "rto"):
                    lines = [tostr(l) for l in c["lines"]]
                    rg = types.Range(start=types.Position(c["l"], c["ch"]), end=types.Position(c["l2"], c["ch2"]))
                    cd = codecs_[c["e"]]
                    r = (cd.range_from_client_units if k == "rfrom" else cd.range_to_client_units)(lines, rg)
                    out.append([r.start.line, r.start.character, r.end.line, r.end.character,
                                rg.start.line, rg.start.character, rg.end.line, rg.end.character])
                else:
                    out.append(["?"])
            except Exception as ex:
                out.append(["raise", type(ex).__name__])
        return out

    # ---------------- model ----------------
    def model_input(self, c):
        k = c["k"]
        if k == "width":
            return f"width {c['e']} {c['c']}"
        if k == "units":
            return f"units {c['e']} {enc_str(c['s'])}"
        if k == "lines":
            return f"lines {enc_str(c['text'])}"
        if k == "disk":
            return f"disk {c['e']} {enc_str(c['text'])} {enc_str(c['text2'])} {c['l']} {c['ch']}"
        if k in ("fromt", "tot", "offset", "word"):
            return f"{k} {c['e']} {enc_str(c['text'])} {c['l']} {c['ch']}"
        if k in ("from", "to"):
            return f"{k} {c['e']} {enc_lines(c['lines'])} {c['l']} {c['ch']}"
        return f"{k} {c['e']} {enc_lines(c['lines'])} {c['l']} {c['ch']} {c['l2']} {c['ch2']}"

    def model_output(self, c, t):
        k = c["k"]
        v = [int(x) for x in t]
        if k == "width":
            lw, cnu, tw, g = v
            return {"M": [lw, cnu, tw], "S": [tw, tw, tw], "guard": bool(g), "klass": "F17-utf8-widths"}
        if k == "units":
            cnu, u, g = v
            return {"M": [cnu], "S": [u], "guard": bool(g), "klass": "F17-utf8-widths"}
        if k == "lines":
            it = iter(v); n = next(it); ls = []
            for _ in range(n):
                m = next(it); ls.append([next(it) for _ in range(m)])
            return {"M": ls, "S": None, "guard": True}
        if k == "disk":
            it = iter(v); obs = []
            def s_():
                return [next(it) for _ in range(next(it))]
            for _ in range(2):
                t = s_(); ls = [s_() for _ in range(next(it))]; off = next(it); w = s_()
                obs.append([t, ls, off, w])
            return {"M": obs, "S": obs, "guard": True, "klass": None}
        if k == "offset":
            m, sd, so, gw, gu = v
            klass = None
            if sd and not (gw and gu):
                past = c["l"] >= self._nlines(c["text"])
                if not gw:
                    klass = "F17-utf8-widths"
                elif past and any(x > 0xFFFF for x in self._last_line(c["text"])):
                    klass = "F16p-eof-unit-count"
                else:
                    klass = "F31-offset-mixed-units"
            return {"M": [m], "S": [so] if sd else None, "guard": bool(sd and gw and gu), "klass": klass}
        if k == "word":
            it = iter(v); gw = next(it); sd = next(it)
            m = [next(it) for _ in range(next(it))]
            w = [next(it) for _ in range(next(it))]
            return {"M": m, "S": w if sd else None, "guard": bool(sd and gw),
                    "klass": "F17-utf8-widths" if (sd and not gw) else None}
        if k in ("from", "to", "fromt", "tot"):
            rl, rc, al, ac, sd, sl, sc, g = v
            M = [rl, rc, al, ac]
            if c.get("monly"):
                return {"M": M, "S": None, "guard": True}
            S = [sl, sc, c["l"], c["ch"]] if sd else None
            klass = None
            if not g and sd:
                nlines = len(c["lines"]) if "lines" in c else self._nlines(c["text"])
                klass = "F16p-eof-unit-count" if (k.startswith("from") and c["l"] >= nlines) else "F17-utf8-widths"
            return {"M": M, "S": S, "guard": bool(g), "klass": klass}
        # range wrappers: clause (iv) the range argument is unchanged, and pointwise: each end of the
        # result is the reference conversion of that end (mid-character ends have no reference)
        pts = [v[9:11] if v[8] else None, v[12:14] if v[11] else None]
        return {"M": v[:8], "S": {"arg": [c["l"], c["ch"], c["l2"], c["ch2"]], "pts": pts}, "guard": True}

    def satisfies(self, c, impl, S):
        if isinstance(S, dict) and "arg" in S:
            if not (isinstance(impl, list) and len(impl) == 8 and impl[4:] == S["arg"]):
                return False
            pts = S.get("pts") or [None, None]
            return all(p is None or impl[2 * i:2 * i + 2] == p for i, p in enumerate(pts))
        return impl == S

    def nontrivial(self, c):
        k = c["k"]
        if k == "width":
            return c["c"] >= 0x80
        s = c.get("text") or c.get("s") or [x for l in c.get("lines", []) for x in l]
        return any(x >= 0x80 for x in s) or c.get("ch", 0) > 3

    def shrink(self, c):
        if "text" in c and len(c["text"]) > 0:
            for i in range(len(c["text"])):
                d = dict(c); d["text"] = c["text"][:i] + c["text"][i + 1:]
                yield d
        if c.get("ch", 0) > 0:
            d = dict(c); d["ch"] = c["ch"] - 1
            yield d

    def distribution(self, cases):
        d = {}
        for c in cases:
            key = c["k"] + ("-cell" if c.get("cell") else "") + (f"/utf{c['e']}" if "e" in c else "")
            d[key] = d.get(key, 0) + 1
        return d


PROPERTY = C11


# ---------------------------------------------------------------------------------------------
# Second tie for the pure core (appended; harness/gen_ast.py, coq/Base/PyMini.v, Proofs/AstCodecEquiv.v):
# the SOURCE TEXT of is_char_beyond_multilingual_plane, utf16_unit_offset, client_num_units,
# position_from_client_units and position_to_client_units is translated on every run by a fail-closed
# AST translator into a deep embedding, and the kernel re-checks that the translation computes exactly
# Model/Codec.v for all inputs.  An edit to those functions is thereby seen by the proof side directly;
# the obligations are imported late ("Module::theorem", core.check_obligations) so that a broken
# translator tie does not hide the other obligations.
import sys as _sys
_sys.path.insert(0, os.path.dirname(os.path.abspath(__file__)))
import gen_c11 as _gen_c11

_AST_MOD = "Proofs.AstCodecEquiv"
# ast_codec_equiv = ast_is_char_equiv /\ ast_utf16_unit_offset_equiv /\ ast_client_num_units_equiv /\
# ast_position_from_equiv /\ ast_position_to_equiv (one Print Assumptions instead of five)
C11.obligations = list(C11.obligations) + [_AST_MOD + "::" + n for n in ("ast_codec_equiv", "ast_from_example")]
# the range wrappers; and offset_at_position / word_at_position of text_document.py, translated and LINKED with
# the translated codec (Gen/AstDoc.v, Proofs/AstDocEquiv.v: equal to Model/DocQuery.v for all inputs)
C11.obligations += [_AST_MOD + "::ast_range_equiv", "Proofs.AstDocEquiv::ast_doc_query_equiv"]
C11.coq_targets = list(C11.coq_targets) + ["Proofs/AstCodecEquiv.vo", "Proofs/AstDocEquiv.vo"]
C11.trusted_base = list(C11.trusted_base) + [
    "translator tie: harness/gen_ast.py (Python ast -> PyMini, fail-closed) and the PyMini semantics "
    "coq/Base/PyMini.v (hand-written meaning of the Python subset; primitives shared with Base/PyStr.v)"]
_prev_regenerate = getattr(C11, "regenerate", None)


def _regenerate(self, chk):
    if _prev_regenerate is not None:
        _prev_regenerate(self, chk)
    # the model, its theorems and the extraction do not depend on the translation: build them first so
    # that the differential search still runs when the translator tie is what broke
    core.coq_make(["Props/C11.vo", "Extract/ExtractC11.vo"])
    # translate and compile under the build lock: coq/Gen is shared by concurrent checks that may run
    # against different trees
    with core._Lock("coq"):
        try:
            _gen_c11.main()
        finally:
            core._coq_make(["Proofs/AstCodecEquiv.vo", "Proofs/AstDocEquiv.vo"])


C11.regenerate = _regenerate
