"""C09 - shutdown closes the door; exit reports whether it was closed.

Two kinds of cases, both through the extracted model (bin/c09_driver) and the real pygls:

  sched  {"kind": "sched", "cfg": .., "evs": [..]}  - the vocabulary of harness/sched.py.  The REAL
         LanguageServer is stepped one event at a time (Sched9 = sched.Sched + the state of every
         outgoing future); after EVERY event the observation is compared with Model/Endpoint.v
         (impl = M: frames, handler log, hook calls, key lists of both tables, shutdown / exit /
         closed flags, outgoing futures) and judged by the reference Spec/ShutdownSpec.v
         (impl |= S, `satisfies_sched`): flag = x_shut, the shutdown request answered `null` as the
         last frame of its event, everything in flight at that moment shows cancel() (queued thread
         request: popped and answered -32800 at once, never starts; unstarted async: never starts;
         suspended async: CancelledError at its next step; running thread: unaffected; outgoing
         future: cancelled), nothing but `exit` reaches a handler afterwards, exit status =
         x_exit, and C01's exactly-once at quiescence.
  proc   {"kind": "proc", "transport": "stdio"|"stdio-sync"|"tcp", "msgs": [frame, ..]} - a real
         server SUBPROCESS (harness/servers/c09_server.py: start_io / its private sync variant / start_tcp as
         the last statement of a script); the client plays the frames, the observation is the
         process return code, whether JsonRPCServer.shutdown() ran, the reply to `shutdown`, and
         which requests sent after it were answered; the model side is Model/ExitWrappers.v
         (`status`) over the same frames, the reference is `exit_ref`.
And, judged by the statement directly (extra_checks; the model has no notion of who awaits an outgoing future):
  live   {"kind": "live", "steps": [..]} - the real LanguageServer on a real asyncio loop; client requests with
         the ids real clients send (1, 2, 3, ..) pending while server-initiated requests are issued through every
         public requester shape (future, callback, send_request_async awaited in an async request handler / in an
         async notification handler), some answered, then shutdown / late traffic / exit: every pending client
         request answered exactly once (-32800), every unanswered outgoing future cancelled and its awaiter
         released, nothing later looked at, exit status.  `--replay` of such a case goes through run_impl.
"""
import json
import logging
import os
import socket
import subprocess
import sys
import threading
import time

import core
import sched
import priv

logging.raiseExceptions = False       # a logging call that fails (recursion storm of the default hook) stays quiet
SERVER_SCRIPT = os.path.join(core.ROOT, "harness", "servers", "c09_server.py")
IDS = [0, 1, 2, 3, 4, 2 ** 53, "", "0", "a", "b"]
F18 = "F18-thread-awaitable-writer"
WRAPPER = {"stdio": 0, "stdio-sync": 1, "tcp": 2}
PENDING_KINDS = ["async-susp", "async-new", "async-done", "thread-run", "thread-queued", "out",
                 "notif-async", "cmd-async", "cmd-thread"]


def B(k, o, n=0, early=False, r="prop"):
    b = {"k": k, "o": o, "r": r}
    if k == "async":
        b["n"] = n
    if k == "thread":
        b["early"] = early
    return b


# ------------------------------------------------------------------ the real endpoint, stepped
class Sched9(sched.Sched):
    """sched.Sched that also keeps the futures returned by send_request (observable: their state)."""

    def __init__(self, cfg, chained=None, error_handler="protected"):
        self.ofuts = []
        super().__init__(cfg, chained, error_handler)

    def _user_send(self, i):
        def go():
            self.ofuts.append(self.protocol.send_request("t/out", {"x": 1}, msg_id=i))
        h = self.loop.call_soon(go)
        self.loop._ready.remove(h)
        self._run_handle(h)

    def _start_job(self, job):
        # a worker dequeues a cancelled work item once and drops it; sched.Sched._start_job would call
        # set_running_or_notify_cancel() again on a second (disabled) `jstart` and the future raises
        if job.fut is not None and job.fut.cancelled():
            return False
        return super()._start_job(job)

    def observe(self):
        o = super().observe()
        o["outg"] = ["cancelled" if f.cancelled() else "done" if f.done() else "pending" for f in self.ofuts]
        return o


def run_sched(case):
    s = Sched9(case["cfg"], sched.chained_of(case))
    obs = []
    try:
        s.observe()
        for e in case["evs"]:
            s.do(e)
            obs.append(s.observe())
        if s.anomalies:
            return {"obs": obs, "anomalies": s.anomalies}
        return {"obs": obs}
    finally:
        s.close()


@priv.in_worker
def _run_sched_one(case):
    # the recursion storm of the default hook on a closed transport (model: `storm`) can surface again in
    # Task.__del__ / logging at collection time: harmless, keep stderr clean
    sys.unraisablehook = lambda *a, **k: None
    try:
        return run_sched(case)
    except priv.Unresolvable:       # a failure of the harness, not an observation of pygls
        raise
    except BaseException as ex:     # noqa
        return ["raise", type(ex).__name__, str(ex)[:200]]


def query(cmd, cases):
    if not cases:
        return []
    outs = core.run_driver("C09", [sched.encode_case(c, cmd) for c in cases])
    return [sched.parse_evs(o) for o in outs]


def parse_run9(toks, n):
    c = sched._Cur(toks)
    obs, owed, ref = [], [], []
    for _ in range(n):
        o = {"out": c.list(lambda: sched._dec_oframe(c)), "hlog": c.list(lambda: sched._dec_hentry(c)),
             "errs": c.list(lambda: ["request", "notification", "jsonrpc", "internal"][c.int()]),
             "futs": c.list(c.id), "rtypes": c.list(c.id), "shutdown": bool(c.int())}
        x = c.int()
        o["exit"] = None if x < 0 else x
        o["closed"], o["storm"], undef = bool(c.int()), bool(c.int()), bool(c.int())
        o["quiescent"] = bool(c.int())
        o["outg"] = c.list(lambda: ["pending", "cancelled", "done"][c.int()])
        o["alive"] = o["exit"] is None
        obs.append(o)
        owed.append(c.list(c.id))
        xs = bool(c.int())
        xe = c.int()
        pr = c.int()
        ref.append({"shut": xs, "exit": None if xe < 0 else xe, "pending_rc": None if pr < 0 else pr, "undef": undef})
    summ = {"guard": bool(c.int()), "tie_guard": bool(c.int()), "f18": bool(c.int()), "exact": bool(c.int()),
            "quiescent": bool(c.int())}
    summ["ids"] = c.list(lambda: [c.id(), c.int(), c.int()])
    return obs, owed, ref, summ


# ------------------------------------------------------------------ the real server process
def _free_port():
    s = socket.socket()
    s.bind(("127.0.0.1", 0))
    p = s.getsockname()[1]
    s.close()
    return p


class _Client:
    """Plays frames to a server subprocess and collects what comes back."""

    def __init__(self, transport):
        env = dict(os.environ, PYTHONPATH=core.REPO, PYTHONHASHSEED="0", PYTHONDONTWRITEBYTECODE="1")
        self.transport = transport
        self.cv = threading.Condition()
        self.frames, self.lines = [], []
        self.buf = b""
        self.eof = False
        self.sock = None
        if transport == "tcp":
            port = _free_port()
            self.p = subprocess.Popen([core.PY, SERVER_SCRIPT, "tcp", str(port)], env=env, stdin=subprocess.DEVNULL,
                                      stdout=subprocess.DEVNULL, stderr=subprocess.PIPE)
            t0 = time.time()
            while True:
                try:
                    self.sock = socket.create_connection(("127.0.0.1", port), timeout=1)
                    break
                except OSError:
                    if time.time() - t0 > 15 or self.p.poll() is not None:
                        raise RuntimeError("tcp server did not come up")
                    time.sleep(0.05)
            self.sock.settimeout(None)
            self.tout = threading.Thread(target=self._pump_sock, daemon=True)
        else:
            self.p = subprocess.Popen([core.PY, SERVER_SCRIPT, transport], env=env, stdin=subprocess.PIPE,
                                      stdout=subprocess.PIPE, stderr=subprocess.PIPE)
            self.tout = threading.Thread(target=self._pump_out, daemon=True)
        self.terr = threading.Thread(target=self._pump_err, daemon=True)
        self.tout.start()
        self.terr.start()

    def _feed(self, data):
        with self.cv:
            if not data:
                self.eof = True
            self.buf += data
            while True:
                head, sep, rest = self.buf.partition(b"\r\n\r\n")
                if not sep:
                    break
                n = None
                for line in head.split(b"\r\n"):
                    if line.lower().startswith(b"content-length:"):
                        n = int(line.split(b":", 1)[1])
                if n is None or len(rest) < n:
                    break
                self.frames.append(sched.decode_frame(head + sep + rest[:n]))
                self.buf = rest[n:]
            self.cv.notify_all()

    def _pump_out(self):
        f = self.p.stdout
        while True:
            d = f.read1(65536)
            self._feed(d)
            if not d:
                return

    def _pump_sock(self):
        while True:
            try:
                d = self.sock.recv(65536)
            except OSError:
                d = b""
            self._feed(d)
            if not d:
                return

    def _pump_err(self):
        for line in self.p.stderr:
            with self.cv:
                self.lines.append(line.decode("utf-8", "replace").rstrip("\n"))
                self.cv.notify_all()

    def send(self, body):
        data = b"Content-Length: %d\r\n\r\n" % len(body) + body
        try:
            if self.sock is not None:
                self.sock.sendall(data)
            else:
                self.p.stdin.write(data)
                self.p.stdin.flush()
            return True
        except OSError:
            return False

    def wait(self, pred, timeout):
        end = time.time() + timeout
        with self.cv:
            while not pred():
                left = end - time.time()
                if left <= 0 or (self.eof and self.p.poll() is not None):
                    return pred()
                self.cv.wait(min(left, 0.2))
            return True

    def finish(self, timeout):
        try:
            rc = self.p.wait(timeout)
        except subprocess.TimeoutExpired:
            self.p.kill()
            self.p.wait()
            rc = "timeout"
        self.tout.join(5)
        self.terr.join(5)
        for f in (self.p.stdin, self.p.stdout, self.p.stderr):
            try:
                if f:
                    f.close()
            except OSError:
                pass
        if self.sock is not None:
            try:
                self.sock.close()
            except OSError:
                pass
        return rc


def _method_of(f):
    return sched.frame_method(f) if f["t"] in ("req", "notif") and f.get("ps", "ok") == "ok" else None


def proc_summary(case, replies):
    """The schedule-independent part of what came back: reply to the first accepted shutdown request,
    ids of the requests sent after it that were answered with a result."""
    shut_id, late = None, []
    after = False
    for f in case["msgs"]:
        if f["t"] == "req" and f.get("ver", True) and f["ps"] == "ok":
            if after:
                late.append(f["id"])
            elif f["m"][0] == "shutdown":
                shut_id, after = f["id"], True
    srep = [r[2:] for r in replies if r[0] == "resp" and shut_id is not None and core.canon(r[1]) == core.canon(shut_id)]
    answered = [i for i in late if any(r[0] == "resp" and core.canon(r[1]) == core.canon(i) for r in replies)]
    return {"shutdown_reply": srep, "late_answered": answered}


def run_proc(case):
    """One real server process; returns {"rc", "released", "shutdown_reply", "late_answered"}."""
    cl = _Client(case["transport"])
    shut = False
    exited = False
    try:
        for f in case["msgs"]:
            meth = _method_of(f)
            nfr, nln = len(cl.frames), len(cl.lines)
            if not cl.send(sched.wire(f)):
                break
            if f["t"] == "notif" and meth == "exit" and f.get("ver", True):
                exited = True
                break
            if shut or not f.get("ver", True):
                time.sleep(0.05)           # nothing comes back; leave the server time to (not) react
                continue
            if f["t"] == "req":
                if meth in ("t/async", "t/thread"):
                    cl.wait(lambda: any(l == "START " + meth for l in cl.lines[nln:]), 10)
                else:
                    i = f["id"]
                    cl.wait(lambda: any(r[0] == "resp" and core.canon(r[1]) == core.canon(i) for r in cl.frames[nfr:]), 10)
                    if meth == "shutdown":
                        shut = True
            else:
                time.sleep(0.05)
        if not exited:
            # no effective exit in the script: end the input
            try:
                if cl.sock is not None:
                    cl.sock.shutdown(socket.SHUT_WR)
                else:
                    cl.p.stdin.close()
            except OSError:
                pass
        rc = cl.finish(20)
    except BaseException:       # noqa
        cl.p.kill()
        cl.finish(5)
        raise
    atexit = [l for l in cl.lines if l.startswith("ATEXIT ")]
    out = {"rc": rc, "released": bool(atexit) and atexit[-1] == "ATEXIT stop=1 pool=1"}
    out.update(proc_summary(case, cl.frames))
    return out


@priv.in_worker
def _run_proc_one(case):
    try:
        return run_proc(case)
    except priv.Unresolvable:
        raise
    except BaseException as ex:     # noqa
        return ["raise", type(ex).__name__, str(ex)[:200]]


# ------------------------------------------------------------------ live histories (statement level)
# {"kind": "live", "steps": [step, ..]}: the real LanguageServer on a real asyncio loop, in-memory blocking
# writer, public API only.  Everything a server can have in flight when shutdown arrives, server-initiated
# requests in every public requester shape included, and what each party observes afterwards:
#   ["req", id, "susp"]      client request, async handler suspended for ever
#   ["req", id, "await"]     client request, async handler awaits send_request_async(..)
#   ["notif", "await"]       async NOTIFICATION handler (an untracked task) awaits send_request_async(..)
#   ["notif", "future"]      handler keeps the future send_request(..) returned
#   ["notif", "callback"]    handler passes a callback to send_request(..)
#   ["reply", k]             the client answers the k-th server-initiated request (if it was issued)
#   ["shutdown", id] | ["late", id] (a request after it) | ["exit"]
LIVE_ASKS = [["notif", "future"], ["notif", "callback"], ["notif", "await"], ["req", None, "await"]]
LIVE_SETTLE = 12


def run_live(case):
    import asyncio
    from pygls.lsp.server import LanguageServer
    frames = []

    class W:
        def write(self, data):
            frames.append(json.loads(data.split(b"\r\n\r\n", 1)[1].decode("utf-8")))

        def close(self):
            pass
    asks, started, late, status, seen = [], [], [], [None], [None]

    async def main():
        server = LanguageServer("c09-live", "v1")
        proto = server.protocol
        proto.set_writer(W())

        def feed(payload):
            payload = dict(payload, jsonrpc="2.0")
            proto.handle_message(json.loads(json.dumps(payload), object_hook=proto.structure_message))

        async def settle():
            for _ in range(LIVE_SETTLE):
                await asyncio.sleep(0)

        @server.feature("t/susp")
        async def susp(ls, params):
            started.append(params.rid)
            await asyncio.Event().wait()
            return "never"

        @server.feature("t/await")
        async def aw(ls, params):
            if params.rid is not None:
                started.append(params.rid)
            rec = {"shape": "await-req" if params.rid is not None else "await-notif", "tag": params.tag,
                   "outcome": "suspended", "fut": None}
            asks.append(rec)
            rec["fut"] = ls.protocol.send_request_async("t/question", {"tag": params.tag})
            try:
                await rec["fut"]
                rec["outcome"] = "replied"
            except asyncio.CancelledError:
                rec["outcome"] = "cancelled"
                raise
            except Exception:       # noqa
                rec["outcome"] = "error"
            return "done"

        @server.feature("t/send")
        def snd(ls, params):
            rec = {"shape": params.shape, "tag": params.tag, "outcome": None, "fut": None}
            asks.append(rec)
            if params.shape == "callback":
                rec["outcome"] = "not-called"

                def cb(_result):
                    rec["outcome"] = "called"
                rec["fut"] = ls.protocol.send_request("t/question", {"tag": params.tag}, cb)
            else:
                rec["fut"] = ls.protocol.send_request("t/question", {"tag": params.tag})

        @server.feature("t/late")
        def lt(ls, params):
            late.append(params.rid)

        tag, answered = 0, set()
        for st in case["steps"]:
            tag += 1
            try:
                if st[0] == "req":
                    feed({"id": st[1], "method": "t/" + st[2], "params": {"rid": st[1], "tag": tag}})
                elif st[0] == "notif":
                    if st[1] == "await":
                        feed({"method": "t/await", "params": {"rid": None, "tag": tag}})
                    else:
                        feed({"method": "t/send", "params": {"shape": st[1], "tag": tag}})
                elif st[0] == "reply":
                    if st[1] < len(asks) and st[1] not in answered:      # a client answers a request once
                        answered.add(st[1])
                        t = asks[st[1]]["tag"]
                        oid = [f["id"] for f in frames if f.get("method") == "t/question" and f["params"]["tag"] == t]
                        if oid:
                            feed({"id": oid[0], "result": "r%d" % st[1]})
                elif st[0] == "shutdown":
                    feed({"id": st[1], "method": "shutdown"})
                elif st[0] == "late":
                    feed({"id": st[1], "method": "t/late", "params": {"rid": st[1]}})
                elif st[0] == "exit":
                    feed({"method": "exit"})
            except SystemExit as ex:
                status[0] = ex.code
                break
            await settle()
        await settle()
        obs_asks = []
        for r in asks:
            f = r["fut"]
            obs_asks.append([r["shape"], "none" if f is None else "cancelled" if f.cancelled() else "done" if f.done()
                             else "pending", r["outcome"]])
        seen[0] = len(frames)            # what follows is the harness tidying up, not the history
        rest = [t for t in asyncio.all_tasks() if t is not asyncio.current_task()]
        for t in rest:
            t.cancel()
        await asyncio.gather(*rest, return_exceptions=True)
        return obs_asks

    loop = asyncio.new_event_loop()
    try:
        asyncio.set_event_loop(loop)
        obs_asks = loop.run_until_complete(main())
    finally:
        asyncio.set_event_loop(None)
        loop.close()
    replies = {}
    for f in frames[:seen[0]]:
        if "method" not in f:
            r = ["error", f["error"].get("code")] if f.get("error") is not None else ["result", f.get("result")]
            replies.setdefault(core.canon(f.get("id")), []).append(r)
    return {"replies": replies, "asks": obs_asks, "started": sorted(map(core.canon, started)),
            "late": late, "exit": status[0]}


def _run_live_one(case):
    sys.unraisablehook = lambda *a, **k: None
    try:
        return run_live(case)
    except priv.Unresolvable:
        raise
    except BaseException as ex:     # noqa
        return ["raise", type(ex).__name__, str(ex)[:200]]


def live_reference(case):
    """What the statement demands of a live history (ShutdownSpec read on these observables): shutdown answered
    null; every client request pending then answered exactly once, RequestCancelled; every server-initiated
    request awaiting its reply then cancelled and whoever awaits it released with the cancellation; nothing
    but exit is looked at afterwards (replies of the client included); exit status 0 iff shut down."""
    replies, asks, started, pend = {}, [], [], {}
    shut, status = False, None
    for st in case["steps"]:
        if st[0] == "exit":
            status = 0 if shut else 1
            break
        if shut:
            continue
        if st[0] == "req":
            started.append(core.canon(st[1]))
            pend[core.canon(st[1])] = len(asks) if st[2] == "await" else None
            if st[2] == "await":
                asks.append(["await-req", "pending", "suspended"])
        elif st[0] == "notif":
            asks.append({"await": ["await-notif", "pending", "suspended"], "future": ["future", "pending", None],
                         "callback": ["callback", "pending", "not-called"]}[st[1]])
        elif st[0] == "reply":
            if st[1] < len(asks) and asks[st[1]][1] == "pending":
                a = asks[st[1]]
                a[1] = "done"
                a[2] = {"future": None, "callback": "called"}.get(a[0], "replied")
                for i, k in list(pend.items()):
                    if k == st[1]:
                        replies.setdefault(i, []).append(["result", "done"])
                        del pend[i]
        elif st[0] == "shutdown":
            shut = True
            replies.setdefault(core.canon(st[1]), []).append(["result", None])
            for i in pend:
                replies.setdefault(i, []).append(["error", -32800])
            pend = {}
            for a in asks:
                if a[1] == "pending":
                    a[1] = "cancelled"
                    if a[2] == "suspended":
                        a[2] = "cancelled"
    return {"replies": replies, "asks": asks, "started": sorted(started), "late": [], "exit": status}


PROC_BEHAV = {"sync": B("sync", ["ret", 7]), "async": B("async", ["ret", 8], n=1), "thread": B("thread", ["ret", 9])}


def proc_events(case):
    return [["recv", f] for f in case["msgs"]]


# ------------------------------------------------------------------ the property
class C09(core.Property):
    id = "C09"
    modules = ["Proofs.C09Proofs", "Props.C09"]
    obligations = ["IO_run_cb", "H_chain", "CL_cancel_all", "cancel_all_tasks", "cancel_all_jobs", "cancel_all_outg",
                   "handle_request_K", "recv_K", "J_step", "J_run", "exit_sound", "exit_blocking", "exit_delivered",
                   "flag_is_reference", "x_status", "exit_status",
                   "shutdown_reply_null", "shutdown_requests_cancel", "queued_job_answered_cancelled",
                   "flagged_task_step", "cancelled_job_never_starts", "DR_step", "cancelled_unstarted_never_starts",
                   "shutdown_kills_unstarted",
                   "gate_recv", "gate_recv_futs", "gate_step", "gate_after_shutdown",
                   "pending_still_answered_once", "shutdown_step_balance", "exit_keeps_replies",
                   "C09_reply_null_holds", "C09_cancel_holds", "C09_pending_holds", "C09_gate_holds", "C09_exit_holds",
                   "C09_partial", "C09_refuted_thread_awaitable", "C09_refuted", "C09_pinned_stdio_loses_status",
                   "C09_nonvacuous", "C09_outgoing_entry_remains", "C09_awaitable_first_exit_wins", "C09_reference_agrees"]
    coq_targets = ["Props/C09.vo", "Extract/ExtractC09.vo"]
    rule = ("sched: a pending set drawn from {async suspended / unstarted / finished-callback-queued, thread running / "
            "queued, outgoing request, async notification, command async / thread}, then shutdown and exit at chosen "
            "positions among further traffic, under a model-guided random interleaving ended by a drain, both writer "
            "kinds; proc: frames played to a real server subprocess (stdio, stdio-sync, tcp) ending with exit; "
            "live: client requests 1, 2, 3.. pending x server-initiated requests in every requester shape (future, "
            "callback, awaited in an async request / notification handler), some answered, then shutdown, late traffic, exit. "
            "Non-trivial = shutdown accepted while at least one future is in flight, or an exit that is not preceded "
            "by an accepted shutdown")
    trusted_base = ["Coq 8.16.1 kernel incl. vm_compute (Examples, refutation witnesses of the repaired defects)",
                    "extraction with ExtrOcamlBasic only + ocaml/c09_driver.ml + conv_io/n/z/nat",
                    "harness/sched.py (ready-queue interposition on a private asyncio loop, duck-typed pool and writers, "
                    "frame decoder), harness/c09.py (generators, subprocess client, canonicalisation), "
                    "harness/servers/c09_server.py",
                    "modelled not verified: asyncio task/cancel semantics, concurrent.futures.Future.cancel, dict order, "
                    "SystemExit leaving asyncio.run / a loop callback, the interpreter turning the end of the start_* call "
                    "into a process status",
                    priv.trusted(sched.PRIVATE + ["server.stop_event", "server.start_io_sync"])]
    private = sched.PRIVATE + ["server.stop_event", "server.start_io_sync"]
    assumptions = ["request ids pairwise distinct among incoming requests (exactly-once clause)",
                   "handler_codes_int32: JSON-RPC codes raised by request handlers are int32 (outside it the real endpoint "
                   "sends no reply, C07 finding wide-own-code, and the model over-approximates); the generators draw "
                   "int32 codes only, the boundaries 2^31-1 and -2^31 included",
                   "no request frame carries the method name `exit` (the model's request methods do not include it)",
                   "one writer.write call is atomic; a pool work item starts and finishes as two atomic events",
                   "writer.close() of the transport in use is synchronous for stdio and TCP (StdoutWriter, StreamWriter)"]

    def __init__(self):
        self._nt = {}
        self.extra_coverage = {}

    # ---------------------------------------------------------------- scenarios (sched)
    def _outcome(self, rng):
        return rng.choice([["ret", rng.choice([0, 1, 7, -3])], ["ret", 5], ["raise"], ["rpc", rng.choice([-32001, 5, 2 ** 31 - 1, -2 ** 31])]])

    def _pending(self, rng, kind, ids, state):
        """Messages (and the internal events that bring the handler to the wanted state) for one member of
        the pending set.  state = {"t": next task index, "j": next job index, "tag": next tag}."""
        o = self._outcome(rng)
        r = rng.choice(["prop", "prop", "swallow"])

        def req(m):
            return ["recv", {"t": "req", "id": ids.pop(), "ver": True, "ps": "ok", "m": m, "np": rng.random() < 0.2}]
        if kind in ("async-susp", "async-new", "async-done", "cmd-async"):
            n = {"async-susp": rng.choice([1, 1, 2]), "async-new": rng.choice([0, 1]), "async-done": 0,
                 "cmd-async": rng.choice([0, 1, 2])}[kind]
            b = B("async", o, n=n, r=r)
            t = state["t"]
            state["t"] += 1
            if kind == "cmd-async":
                return [req(["command", b, None])] + ([["task", t]] if rng.random() < 0.6 else [])
            evs = [req(["user", b])]
            if kind != "async-new":
                evs.append(["task", t])
            return evs
        if kind in ("thread-run", "thread-queued", "cmd-thread"):
            b = B("thread", o, early=False)
            j = state["j"]
            state["j"] += 1
            if kind == "cmd-thread":
                return [req(["command", b, None])] + ([["jstart", j]] if rng.random() < 0.5 else [])
            return [req(["user", b])] + ([["jstart", j]] if kind == "thread-run" else [])
        if kind == "out":
            return [["send", rng.choice(["o1", 900, "o2"])]]
        if kind == "notif-async":
            state["tag"] += 1
            b = B("async", o, n=rng.choice([0, 1]), r=r)
            t = state["t"]
            state["t"] += 1
            return [["recv", {"t": "notif", "tag": state["tag"], "ver": True, "ps": "ok", "m": ["user", b]}]] + \
                   ([["task", t]] if rng.random() < 0.5 else [])
        raise ValueError(kind)

    def _traffic(self, rng, ids, state, targets):
        """One frame of ordinary traffic (before or after the shutdown)."""
        x = rng.random()
        state["tag"] += 1
        tag = state["tag"]

        def req(m, ps="ok", ver=True):
            return ["recv", {"t": "req", "id": ids.pop(), "ver": ver, "ps": ps, "m": m, "np": rng.random() < 0.2}]
        if x < 0.30:
            k = rng.choice(["sync", "sync", "async", "thread"])
            return req(["user", B(k, self._outcome(rng), n=rng.choice([0, 1]), early=rng.random() < 0.3)])
        if x < 0.38:
            return req(["unknown", rng.choice([0, 1, 2])])
        if x < 0.46:
            return req(["unknown", 0], ps=rng.choice(["bad", "fail"]))
        if x < 0.52:
            return req(["command", B("sync", self._outcome(rng)) if rng.random() < 0.7 else None, None])
        if x < 0.56:
            return req(["builtin", False, None])
        if x < 0.60:
            return req(["user", B("sync", ["ret", 1])], ver=False)
        if x < 0.72:
            tgt = rng.choice(targets) if targets and rng.random() < 0.8 else rng.choice(IDS)
            return ["recv", {"t": "notif", "tag": tag, "ver": True, "ps": "ok", "m": ["cancel", tgt]}]
        if x < 0.82:
            k = rng.choice(["sync", "async", "thread"])
            return ["recv", {"t": "notif", "tag": tag, "ver": True, "ps": "ok",
                             "m": ["user", B(k, self._outcome(rng), n=rng.choice([0, 1]), early=rng.random() < 0.3)]}]
        if x < 0.87:
            return ["recv", {"t": "notif", "tag": tag, "ver": True, "ps": "ok", "m": ["builtin", False, None]}]
        if x < 0.91:
            return ["recv", {"t": "notif", "tag": tag, "ver": rng.random() < 0.5, "ps": rng.choice(["bad", "fail", "ok"]),
                             "m": ["unknown"]}]
        if x < 0.95:
            return ["recv", {"t": "garbage", "v": rng.randint(0, 7)}]
        return ["recv", {"t": "resp", "id": rng.choice(["o1", 900, "o2", "zz"]), "ver": True, "err": rng.random() < 0.5,
                         "ps": "ok"}]

    def _scenario(self, rng, kinds=None, shut_pos=None, exit_mode=None, writer=None):
        cfg = {"writer": writer or rng.choice(["blocking", "awaitable"]),
               "hook": rng.choice(["default", "default", "quiet", "raises"]), "wfail": None}
        ids = list(IDS)
        rng.shuffle(ids)
        state = {"t": 0, "j": 0, "tag": 0}
        if kinds is None:
            kinds = [rng.choice(PENDING_KINDS) for _ in range(rng.choice([0, 1, 1, 2, 2, 3]))]
        chained = {}

        def ub(name):
            if name not in chained:
                chained[name] = rng.choice(["sync", "async", "thread"]) if rng.random() < 0.2 else None
            k = chained[name]
            return B(k, self._outcome(rng), n=rng.choice([0, 1]), early=rng.random() < 0.3) if k else None
        groups = [self._pending(rng, k, ids, state) for k in kinds]
        targets = [e[1]["id"] for g in groups for e in g if e[0] == "recv" and e[1]["t"] == "req"]
        for _ in range(rng.choice([0, 0, 1, 2])):
            groups.insert(rng.randint(0, len(groups)), [self._traffic(rng, ids, state, targets)])
        post = [[self._traffic(rng, ids, state, targets)] for _ in range(rng.choice([0, 1, 1, 2, 3]))]
        shut = [["recv", {"t": "req", "id": ids.pop(), "ver": rng.random() > 0.04, "ps": rng.choice(["ok"] * 12 + ["bad"]),
                          "m": ["shutdown", ub("shutdown")]}]]
        # where the shutdown goes: anywhere among the groups (default: after the pending set)
        if shut_pos is None:
            shut_pos = len(groups) if rng.random() < 0.7 else rng.randint(0, len(groups))
        seq = groups[:shut_pos] + [shut] + groups[shut_pos:] + post
        if rng.random() < 0.1:
            seq.insert(rng.randint(shut_pos + 1, len(seq)),
                       [["recv", {"t": "req", "id": ids.pop(), "ver": True, "ps": "ok", "m": ["shutdown", ub("shutdown")]}]])
        state["tag"] += 1
        ex = [["recv", {"t": "notif", "tag": 90 + state["tag"], "ver": rng.random() > 0.04, "ps": "ok", "m": ["exit", ub("exit")]}]]
        if exit_mode is None:
            exit_mode = rng.choice(["none", "end", "end", "end", "after", "before", "any", "twice"])
        si = seq.index(shut)
        if exit_mode == "end":
            seq.append(ex)
        elif exit_mode == "after":
            seq.insert(si + 1, ex)
        elif exit_mode == "before":
            seq.insert(rng.randint(0, si), ex)
        elif exit_mode == "any":
            seq.insert(rng.randint(0, len(seq)), ex)
        elif exit_mode == "twice":
            seq.insert(rng.randint(0, len(seq)), ex)
            state["tag"] += 1
            ex2 = [["recv", {"t": "notif", "tag": 90 + state["tag"], "ver": True, "ps": "ok", "m": ["exit", ub("exit")]}]]
            seq.insert(rng.randint(0, len(seq)), ex2)
        if exit_mode != "none" and rng.random() < 0.4:
            seq.append([self._traffic(rng, ids, state, targets)])
        msgs = [e for g in seq for e in g]
        return cfg, msgs

    def _interleave(self, chk, scens, maxlen=70):
        """Model-guided interleaving.  The scripted internal events of a scenario (those that build the
        pending set) stay in place; between arrivals an enabled internal event is inserted with the
        scenario's own probability; a drain ends the history."""
        rng = chk.rng
        st = [{"cfg": cfg, "evs": [], "rest": list(msgs), "done": False, "p": rng.choice([0.1, 0.25, 0.5])}
              for cfg, msgs in scens]
        for _ in range(maxlen):
            live = [s for s in st if not s["done"]]
            if not live:
                break
            en = query("enabled", live)
            for s, (evs, _q) in zip(live, en):
                x = rng.random()
                if s["rest"] and (not evs or x > s["p"]):
                    s["evs"].append(s["rest"].pop(0))
                elif evs and x < 0.97 * s["p"]:
                    s["evs"].append(rng.choice(evs))
                elif evs:
                    s["evs"].append(rng.choice([["task", rng.randint(0, 3)], ["cb", rng.randint(0, 3)],
                                                ["jstart", rng.randint(0, 2)], ["jfin", rng.randint(0, 2)],
                                                ["write"], ["exitcb"]]))
                else:
                    s["done"] = True
        for s in st:
            s["evs"].extend(s["rest"])
        cases = [{"kind": "sched", "cfg": s["cfg"], "evs": s["evs"]} for s in st]
        dr = query("drain", cases)
        for c, (evs, _q) in zip(cases, dr):
            c["evs"] = c["evs"] + evs
        return cases

    # ---------------------------------------------------------------- scenarios (proc)
    def _proc_case(self, rng, transport, shape):
        ids = [1, 2, 3, 4, 5, "a", "b", 0, "", "1", 6, 7, 8, 9, 10, 11, 12, 13, 14, 15, 16, 17, 18, 19, 20, 21]
        rng.shuffle(ids)

        def req(m, ps="ok"):
            return {"t": "req", "id": ids.pop(), "ver": True, "ps": ps, "m": m}
        sh = lambda: req(["shutdown", None])                                         # noqa
        ex = lambda: {"t": "notif", "tag": 99, "ver": True, "ps": "ok", "m": ["exit", None]}   # noqa
        user = lambda k: req(["user", dict(PROC_BEHAV[k])])                           # noqa
        pend = [user(k) for k in rng.sample(["async", "thread", "sync"], rng.randint(1, 3))]
        more = [rng.choice([user("sync"), user("async"), req(["unknown", 0]), req(["command", dict(PROC_BEHAV["sync"]), None]),
                            {"t": "notif", "tag": 5, "ver": True, "ps": "ok", "m": ["user", dict(PROC_BEHAV["sync"])]}])
                for _ in range(rng.randint(1, 3))]
        if shape == "shutdown-exit":
            msgs = [sh(), ex()]
        elif shape == "exit-alone":
            msgs = [ex()]
        elif shape == "gate":
            msgs = [sh()] + more + [ex()]
        elif shape == "exit-pending":
            msgs = pend + [ex()]
        elif shape == "shutdown-pending":
            msgs = pend + [sh()] + (more if rng.random() < 0.5 else []) + [ex()]
        elif shape == "bad-shutdown":
            # a shutdown request that is not accepted (other version) does not count
            s = sh()
            s["ver"] = False
            msgs = [s, ex()]
        elif shape == "sync-then-exit":
            msgs = [user("sync"), ex()]
        elif shape == "eof":
            # no exit at all: the input simply ends, the start_* call returns, status 0
            msgs = rng.choice([[], [sh()], [user("sync")], [sh(), user("sync")]])
        else:
            msgs = rng.sample(pend + more, rng.randint(0, 3)) + ([sh()] if rng.random() < 0.5 else []) + [ex()]
        return {"kind": "proc", "transport": transport, "msgs": msgs}

    def _proc_cases(self, chk):
        rng = chk.rng
        fixed = [("stdio", "shutdown-exit"), ("stdio", "exit-alone"), ("stdio", "gate"), ("stdio", "exit-pending"),
                 ("tcp", "exit-alone"), ("stdio-sync", "exit-alone")]
        if chk.quick:
            plan = fixed
        else:
            shapes = ["shutdown-exit", "exit-alone", "gate", "exit-pending", "shutdown-pending", "bad-shutdown",
                      "sync-then-exit", "random", "random"]
            plan = [(t, s) for t in ("stdio", "tcp", "stdio-sync") for s in shapes for _ in range(2)] + fixed + \
                   [(t, "eof") for t in ("stdio", "tcp", "stdio-sync")]
        return [self._proc_case(rng, t, s) for t, s in plan]

    # ---------------------------------------------------------------- scenarios (live)
    def _live_case(self, rng, pre=None, shutdown=None):
        """Client requests with the ids real clients use (1, 2, 3, .. in order of sending; now and then strings
        or a gap), server-initiated requests in every requester shape issued among them, some answered before
        the shutdown, then shutdown / late traffic / exit."""
        nid = [rng.choice([0, 1, 1, 1, 1, 2])]
        strs = rng.random() < 0.15

        def cid():
            i = nid[0]
            nid[0] += rng.choice([1, 1, 1, 1, 2])
            return "r%d" % i if strs else i
        steps, nasks = [], 0
        if pre is None:
            pre = [rng.choice([["req", None, "susp"], ["req", None, "susp"]] + LIVE_ASKS)
                   for _ in range(rng.choice([1, 2, 2, 3, 3, 4, 5]))]
        for st in pre:
            st = list(st)
            if st[0] == "req":
                st[1] = cid()
            if st[-1] != "susp":
                nasks += 1
            steps.append(st)
            if nasks and rng.random() < 0.15:
                steps.append(["reply", rng.randrange(nasks)])
        if shutdown is None:
            shutdown = rng.random() < 0.92
        if shutdown:
            steps.append(["shutdown", cid()])
            for _ in range(rng.choice([0, 0, 1, 2])):
                steps.append(rng.choice([["late", cid()], ["reply", rng.randrange(nasks + 1)], ["notif", "future"],
                                         ["req", cid(), "await"], ["notif", "await"]]))
        if rng.random() < 0.85:
            steps.append(["exit"])
        return {"kind": "live", "steps": steps}

    def _live_cases(self, chk):
        rng = chk.rng
        cases = []
        # every requester shape alone and next to pending client requests 1..n (n <= 3), both orders
        for a in LIVE_ASKS:
            for n in range(4):
                pend = [["req", None, "susp"]] * n
                cases.append(self._live_case(rng, pre=pend + [a], shutdown=True))
                if n:
                    cases.append(self._live_case(rng, pre=[a] + pend, shutdown=True))
        cases += [self._live_case(rng) for _ in range(chk.n(150, 1500))]
        return cases

    def _live_bad(self, case):
        impl = _run_live_one(case)
        S = live_reference(case)
        return None if core.canon(impl) == core.canon(S) else (impl, S)

    def _live_check(self, chk):
        cases = self._live_cases(chk)
        viol, pending_at_shutdown, shapes = [], 0, {}
        for c in cases:
            S = live_reference(c)
            if S["exit"] != 1 and any(a[1] == "cancelled" for a in S["asks"]):
                pending_at_shutdown += 1
            for a in S["asks"]:
                shapes[a[0] + "/" + a[1]] = shapes.get(a[0] + "/" + a[1], 0) + 1
            if viol:
                continue
            bad = self._live_bad(c)
            if bad:
                # greedy shrink: drop steps while the history still fails
                best, steps = bad, list(c["steps"])
                k = len(steps) - 1
                while k >= 0:
                    cand = {"kind": "live", "steps": steps[:k] + steps[k + 1:]}
                    b = self._live_bad(cand)
                    if b:
                        steps, best = cand["steps"], b
                    k -= 1
                viol.append({"case": {"kind": "live", "steps": steps}, "impl": best[0], "S": best[1], "M": None,
                             "guard": True, "verdict": "violation"})
        self.extra_coverage["live_histories"] = {"cases": len(cases), "server_request_in_flight_at_shutdown": pending_at_shutdown,
                                                 "requester_shape_x_final_state": shapes}
        return viol

    # ---------------------------------------------------------------- generate
    def generate(self, chk):
        cases = []
        cdir = os.path.join(core.ROOT, "corpus", "C09")
        if os.path.isdir(cdir):
            for f in sorted(os.listdir(cdir)):
                if f.endswith(".json"):
                    cases.extend(json.load(open(os.path.join(cdir, f))))
        rng = chk.rng
        scens = [self._scenario(rng) for _ in range(chk.n(800, 6000))]
        if not chk.quick:
            # every pending set of size <= 2 (+ some of size 3), shutdown at every position, every exit mode
            sets = [[]] + [[a] for a in PENDING_KINDS] + [[a, b] for a in PENDING_KINDS for b in PENDING_KINDS] + \
                   [[rng.choice(PENDING_KINDS) for _ in range(3)] for _ in range(40)]
            n = 0
            for ks in sets:
                for pos in range(len(ks) + 1):
                    for em in ("none", "end", "after", "before"):
                        for w in ("blocking", "awaitable"):
                            scens.append(self._scenario(rng, kinds=list(ks), shut_pos=pos, exit_mode=em, writer=w))
                            n += 1
            self.extra_coverage["position_x_pending_scenarios"] = n
        cases.extend(self._interleave(chk, scens))
        cases.extend(self._proc_cases(chk))
        return cases

    # ---------------------------------------------------------------- implementation
    def run_impl(self, chk, cases):
        out = [None] * len(cases)
        si = [k for k, c in enumerate(cases) if c.get("kind", "sched") == "sched"]
        pi = [k for k, c in enumerate(cases) if c.get("kind") == "proc"]
        # subprocess cases first, 4 at a time (threads only wait); then the stepped ones in 4 forked workers
        if pi:
            from concurrent.futures import ThreadPoolExecutor
            with ThreadPoolExecutor(4) as tp:
                for k, r in zip(pi, tp.map(_run_proc_one, [cases[k] for k in pi])):
                    out[k] = r
        sc = [cases[k] for k in si]
        if len(sc) < 40:
            res = [_run_sched_one(c) for c in sc]
        else:
            import multiprocessing as mp
            with mp.get_context("fork").Pool(4) as pool:
                res = pool.map(_run_sched_one, sc, chunksize=16)
        for k, r in zip(si, res):
            out[k] = r
        for k, c in enumerate(cases):
            if c.get("kind") == "live":
                out[k] = _run_live_one(c)
        return priv.collect(out)

    # ---------------------------------------------------------------- model
    def model_input(self, case):
        if case.get("kind") == "live":
            # replay of a live history: judged by the reference alone, the driver gets the empty history
            return sched.encode_case({"cfg": {"writer": "blocking", "hook": "default", "wfail": None}, "evs": []})
        if case.get("kind") == "proc":
            evs = proc_events(case)
            return "proc %d %s" % (WRAPPER[case["transport"]],
                                   sched.encode_case({"cfg": {"writer": "blocking", "hook": "default", "wfail": None},
                                                      "evs": evs}, "").strip())
        return sched.encode_case(case)

    def model_output(self, case, toks):
        if case.get("kind") == "live":
            S = live_reference(case)
            self._nt[core.canon(case)] = True
            return {"M": S, "S": S, "guard": True, "klass": None}
        if case.get("kind") == "proc":
            c = sched._Cur(toks)
            st = c.int()
            released = bool(c.int())
            xe = c.int()
            xs = bool(c.int())
            frames = c.list(lambda: sched._dec_oframe(c))
            M = {"rc": None if st == -9 else st, "released": released}
            M.update(proc_summary(case, frames))
            # the reference: the status the history decides (an input that simply ends: 0), shutdown()
            # has run, an accepted shutdown request is answered null, nothing after it is answered
            S = {"rc": 0 if xe < 0 else xe, "released": True, "late_answered": [],
                 "shutdown_reply": [["result", "null"]] if xs else []}
            self._nt[core.canon(case)] = (xe == 1) or (xs and len(case["msgs"]) > 2)
            return {"M": M, "S": S, "guard": True, "klass": None}
        obs, owed, ref, summ = parse_run9(toks, len(case["evs"]))
        for o in obs:
            o["hlog"] = [h for h in o["hlog"] if h[1] != "builtin"]
        wfail = case["cfg"].get("wfail") is not None
        undef = any(r["undef"] for r in ref)
        S = {"owed": owed, "exact": summ["exact"], "ref": ref}
        # non-trivial: shutdown accepted with something in flight, or an exit deciding status 1
        nt = False
        for k, r in enumerate(ref):
            prev = ref[k - 1] if k else {"shut": False, "exit": None}
            if r["shut"] and not prev["shut"] and k and obs[k - 1]["futs"]:
                nt = True
            if r["exit"] == 1 and prev["exit"] is None:
                nt = True
        self._nt[core.canon(case)] = nt
        # F18 (thread handler + awaitable writer: the reply of a RUNNING work item is lost) stays in the
        # code: those histories are judged by the full reference and reported as the known finding
        # (the class is narrowed to the histories in which the model itself loses a reply at quiescence,
        # so that every other awaitable + thread history keeps the full comparison impl = M)
        lost = (summ["f18"] and summ["exact"] and summ["quiescent"] and any(o != r for _i, o, r in summ["ids"]))
        return {"M": {"obs": obs}, "S": None if (wfail or undef) else S,
                "guard": not (wfail or undef or lost), "klass": F18 if lost else None}

    def nontrivial(self, case):
        return bool(self._nt.get(core.canon(case)))

    def same(self, case, impl, M):
        return core.canon(impl) == core.canon(M)

    # ---------------------------------------------------------------- impl |= S
    def satisfies(self, case, impl, S):
        if case.get("kind") == "live":
            return core.canon(impl) == core.canon(S)
        if case.get("kind") == "proc":
            return isinstance(impl, dict) and all(core.canon(impl.get(k)) == core.canon(v) for k, v in S.items())
        return self.satisfies_sched(case, impl, S) is None

    @staticmethod
    def _reqs(case):
        """id -> (position, frame) of every request frame of the case."""
        d = {}
        for k, e in enumerate(case["evs"]):
            if e[0] == "recv" and e[1]["t"] == "req":
                d.setdefault(core.canon(e[1]["id"]), (k, e[1]))
        return d

    def satisfies_sched(self, case, impl, S):
        """None when the real endpoint's observations satisfy the reference, else a reason."""
        if not isinstance(impl, dict) or "obs" not in impl or len(impl["obs"]) != len(case["evs"]):
            return "no observation"
        obs, ref, evs = impl["obs"], S["ref"], case["evs"]
        blocking = case["cfg"]["writer"] == "blocking"
        reqs = self._reqs(case)
        kstar = None
        for k, r in enumerate(ref):
            prev = ref[k - 1] if k else {"shut": False, "exit": None}
            o = obs[k]
            po = obs[k - 1] if k else {"futs": [], "shutdown": False, "closed": False, "exit": None, "outg": []}
            # (1) the flag is the reference's while the exit status is undecided
            if r["exit"] is None and o["shutdown"] != r["shut"]:
                return "event %d: shutdown flag %r, reference %r" % (k, o["shutdown"], r["shut"])
            # (3) exit status
            if o["exit"] is not None and o["exit"] != r["exit"]:
                return "event %d: exit status %r, reference %r" % (k, o["exit"], r["exit"])
            if blocking and o["exit"] != r["exit"]:
                return "event %d: exit status %r, reference %r (synchronous close)" % (k, o["exit"], r["exit"])
            if o["exit"] is not None and not o["closed"]:
                return "event %d: exited without closing the transport" % k
            if r["shut"] and not prev["shut"]:
                kstar = k
            # (2) the gate: flag set before this event, frame is not an effective exit
            e = evs[k]
            if prev["shut"] and po["exit"] is None and e[0] == "recv":
                f = e[1]
                is_exit = (f["t"] == "notif" and f.get("ver", True) and f["ps"] == "ok" and f["m"][0] == "exit")
                if not is_exit:
                    if o["hlog"]:
                        return "event %d: a handler ran after shutdown: %r" % (k, o["hlog"])
                    if core.canon(o["futs"]) != core.canon(po["futs"]):
                        return "event %d: in-flight table changed after shutdown" % k
                    for fr in o["out"]:
                        if fr[0] == "req" or (fr[0] == "resp" and fr[2] != "error"):
                            return "event %d: %r written for a frame received after shutdown" % (k, fr)
        if kstar is not None:
            why = self._at_shutdown(case, obs, kstar, blocking, reqs)
            if why:
                return why
        # C01: never more replies than owed; exactly the owed ones at quiescence of an exit-free history
        owed, got = {}, {}
        for o, new in zip(obs, S["owed"]):
            for i in new:
                owed[core.canon(i)] = owed.get(core.canon(i), 0) + 1
            for f in o["out"]:
                if f[0] == "resp":
                    if f[2] not in ("result", "error"):
                        return "malformed reply"
                    k = core.canon(f[1])
                    got[k] = got.get(k, 0) + 1
                    if got[k] > owed.get(k, 0):
                        return "more replies than owed for %s" % k
        if S["exact"] and obs and obs[-1]["quiescent"]:
            for k, v in owed.items():
                if got.get(k, 0) != v:
                    return "request %s answered %d times at quiescence, owed %d" % (k, got.get(k, 0), v)
        return None

    def _at_shutdown(self, case, obs, k, blocking, reqs):
        f = case["evs"][k][1]
        sid = f["id"]
        o = obs[k]
        po = obs[k - 1] if k else {"futs": [], "closed": False, "outg": []}
        null = ["resp", sid, "result", "null"]
        reps = [fr for ob in obs for fr in ob["out"] if fr[0] == "resp" and core.canon(fr[1]) == core.canon(sid)]
        if any(core.canon(fr) != core.canon(null) for fr in reps):
            return "shutdown request %r answered %r" % (sid, reps)
        if blocking and not po["closed"]:
            if not o["out"] or core.canon(o["out"][-1]) != core.canon(null):
                return "event %d: the null reply is not the last frame of the shutdown event: %r" % (k, o["out"])
        # everything in flight at that moment
        started, ended = set(), set()
        for ob in obs[:k]:
            for h in ob["hlog"]:
                key = core.canon([h[0], h[1]])
                (started if h[2] == "start" else ended if h[2] == "end" else set()).add(key)
        later = [(j, h) for j in range(k, len(obs)) for h in obs[j]["hlog"]]
        replies = {}
        for j in range(k, len(obs)):
            for fr in obs[j]["out"]:
                if fr[0] == "resp":
                    replies.setdefault(core.canon(fr[1]), []).append((j, fr))
        sends = [e[1] for e in case["evs"][:k] if e[0] == "send"]
        for i in po["futs"]:
            ci = core.canon(i)
            if ci in reqs and reqs[ci][0] < k and reqs[ci][1]["ps"] == "ok":
                fr = reqs[ci][1]
                m = fr["m"]
                if m[0] == "user":
                    part, b = "user", m[1]
                elif m[0] == "command" and m[1]:
                    part, b = "command", m[1]
                else:
                    continue
                key = core.canon([["req", i], part])
                mine = [(j, h) for j, h in later if core.canon([h[0], h[1]]) == key]
                rep = replies.get(ci, [])
                cancelled = ["resp", i, "error", -32800]
                if key not in started:
                    # queued work item / coroutine not entered: it never starts, its only answer is -32800
                    if any(h[2] == "start" for _, h in mine):
                        return "request %r started after the shutdown that found it unstarted" % (i,)
                    if any(core.canon(x) != core.canon(cancelled) for _, x in rep):
                        return "unstarted request %r answered %r after shutdown" % (i, rep)
                    if b["k"] == "thread":
                        if i in o["futs"]:
                            return "queued thread request %r still in flight after shutdown" % (i,)
                        if blocking and not po["closed"] and not any(j == k for j, _ in rep):
                            return "queued thread request %r not answered in the shutdown event" % (i,)
                elif key not in ended:
                    if b["k"] == "async":
                        # suspended coroutine: CancelledError at its next step
                        if mine and mine[0][1][2] != "cancel":
                            return "suspended request %r resumed normally after shutdown: %r" % (i, mine[0][1])
                        if b.get("r", "prop") == "prop" and any(core.canon(x) != core.canon(cancelled) for _, x in rep):
                            return "cancelled request %r answered %r" % (i, rep)
                    else:
                        # running work item: cancel() has no effect
                        if any(core.canon(x) == core.canon(cancelled) for _, x in rep):
                            return "running thread request %r answered -32800" % (i,)
            elif i in sends:
                n = len(sends) - 1 - sends[::-1].index(i)      # the table holds the future of the LAST send of that id
                if n < len(po["outg"]) and po["outg"][n] == "pending" and o["outg"][n] != "cancelled":
                    return "outgoing request %r not cancelled by shutdown" % (i,)
        return None

    # ---------------------------------------------------------------- extraction sanity, coqchk
    def extra_checks(self, chk):
        """The extracted driver against values the kernel computed (Props/C09.v: C09_nonvacuous,
        C09_pinned_stdio_loses_status, C09_awaitable_first_exit_wins); thorough: coqchk."""
        viol = self._live_check(chk)
        ex = {"t": "notif", "tag": 0, "ver": True, "ps": "ok", "m": ["exit", None]}
        blocking = {"writer": "blocking", "hook": "default", "wfail": None}
        lines, want = [], []
        for w, st in ((0, 1), (1, 1), (2, 1), (3, 0), (4, 0)):
            lines.append("proc %d %s" % (w, sched.encode_case({"cfg": blocking, "evs": [["recv", ex]]}, "").strip()))
            want.append([str(st), "1", "1", "0", "0"])
        def req(i, m):
            return ["recv", {"t": "req", "id": i, "ver": True, "ps": "ok", "m": m}]
        pre = [req(1, ["user", B("async", ["ret", 11], n=2)]), ["task", 0], req(2, ["user", B("async", ["ret", 12], n=1)]),
               req(3, ["user", B("thread", ["ret", 13])]), ["jstart", 0], req(4, ["user", B("thread", ["ret", 14])]),
               ["send", "o"], ["recv", {"t": "notif", "tag": 7, "ver": True, "ps": "ok", "m": ["user", B("async", ["ret", 0], n=0)]}]]
        post = [req(6, ["user", B("sync", ["ret", 1])]),
                ["recv", {"t": "notif", "tag": 8, "ver": True, "ps": "ok", "m": ["user", B("sync", ["ret", 1])]}],
                ["task", 0], ["task", 1], ["task", 2], ["jstart", 1], ["jfin", 0], ["cb", 0], ["cb", 1], ["cb", 2]]
        evs = pre + [req(5, ["shutdown", None])] + post
        lines.append(sched.encode_case({"cfg": blocking, "evs": evs}))
        outs = core.run_driver("C09", lines)
        bad = [k for k in range(5) if outs[k] != want[k]]
        obs, _owed, ref, _summ = parse_run9(outs[5], len(evs))
        resp = [f for o in obs for f in o["out"] if f[0] == "resp"]
        kernel = [["resp", 4, "error", -32800], ["resp", 5, "result", "null"], ["resp", 3, "result", 13],
                  ["resp", 1, "error", -32800], ["resp", 2, "error", -32800]]
        if resp != kernel or obs[-1]["outg"] != ["cancelled"] or not obs[-1]["quiescent"] or not ref[-1]["shut"]:
            bad.append("C09_nonvacuous")
        self.extra_coverage["driver_sanity"] = "%d/6 fixed cases agree with kernel-computed values" % (6 - len(bad))
        if bad:
            viol.append({"case": None, "impl": None, "S": None, "verdict": "violation", "broken": "extracted driver sanity",
                         "cases": bad, "suffix": "no-failing-input-found"})
        if not chk.quick:
            r = core.sh("timeout 1500 coqchk -silent -o -Q . Pygls Pygls.Props.C09", cwd=core.COQ, timeout=1600)
            out = r.stdout + r.stderr
            ok = r.returncode == 0
            self.extra_coverage["coqchk"] = "Props.C09: ok" if ok else out[-800:]
            if not ok:
                viol.append({"case": None, "impl": out[-600:], "S": "coqchk -o accepts Props/C09.vo", "verdict": "violation",
                             "broken": "coqchk", "suffix": "no-failing-input-found"})
        return viol

    # ---------------------------------------------------------------- shrink / search / distribution
    def shrink(self, case):
        if case.get("kind") == "live":
            st = case["steps"]
            for a in range(len(st) - 1, -1, -1):
                yield dict(case, steps=st[:a] + st[a + 1:])
            return
        if case.get("kind") == "proc":
            ms = case["msgs"]
            for a in range(len(ms) - 1, -1, -1):
                if len(ms) > 1:
                    yield dict(case, msgs=ms[:a] + ms[a + 1:])
            return
        evs = case["evs"]
        n = len(evs)
        for k in (n // 2, n // 4):
            if 0 < k < n:
                yield dict(case, evs=evs[:n - k])
        for a in range(n - 1, -1, -1):
            yield dict(case, evs=evs[:a] + evs[a + 1:])
        if case["cfg"]["hook"] != "quiet":
            yield dict(case, cfg=dict(case["cfg"], hook="quiet"))

    def search(self, chk):
        scens = [self._scenario(chk.rng) for _ in range(300)]
        cases = self._interleave(chk, scens) + [self._proc_case(chk.rng, t, s) for t in ("stdio", "stdio-sync", "tcp")
                                                for s in ("exit-alone", "shutdown-exit", "gate")]
        res = core.evaluate(self, chk, cases)
        return [r for r in res if r["S"] is not None and not self.satisfies(r["case"], r["impl"], r["S"])
                and r["verdict"] != "known:" + F18][:1]

    def distribution(self, cases):
        d = {}

        def add(k):
            d[k] = d.get(k, 0) + 1
        for c in cases:
            if c.get("kind") == "live":
                add("live")
                continue
            if c.get("kind") == "proc":
                add("proc/" + c["transport"])
                add("proc/msgs/%d" % len(c["msgs"]))
                continue
            add("writer/" + c["cfg"]["writer"])
            add("hook/" + c["cfg"]["hook"])
            add("len/%d" % (10 * (len(c["evs"]) // 10)))
            seen_shut = False
            for e in c["evs"]:
                if e[0] != "recv":
                    add("ev/" + e[0])
                    continue
                f = e[1]
                if f["t"] in ("req", "notif"):
                    add("%s/%s/%s%s" % (f["t"], f["ps"], f["m"][0], "/after-shutdown" if seen_shut else ""))
                    if f["t"] == "req" and f["m"][0] == "shutdown" and f["ps"] == "ok" and f.get("ver", True):
                        seen_shut = True
                else:
                    add(f["t"] + ("/after-shutdown" if seen_shut else ""))
        return d


PROPERTY = C09


# ---------------------------------------------------------------------------------------------
# Second tie for "shutdown closes the door; exit reports whether it was closed" (appended;
# harness/gen_ast_shutdown.py on top of harness/gen_ast.py, coq/Base/PyMini.v, Proofs/AstShutdownEquiv.v): the
# SOURCE TEXT of LanguageServerProtocol.lsp_shutdown and lsp_exit is translated on every run by the fail-closed
# AST translator into a deep embedding, and the kernel re-checks, for ALL states, that lsp_shutdown records one
# cancel per entry of the snapshot of the in-flight table (table order), sets _shutdown and touches nothing else,
# and that lsp_exit closes the writer exactly when there is one and hands sys.exit (directly or through the done
# callback of an awaitable close) the status 0 iff _shutdown was true, else 1; both are related to
# Model/Endpoint.v's lsp_shutdown / lsp_exit.  inspect.isawaitable is an oracle of the exit theorem.
# Imported late ("Module::theorem") so that a broken translator tie does not hide the other obligations.
import gen_ast_shutdown as _gen_ast_shutdown

C09.obligations = list(C09.obligations) + ["Proofs.AstShutdownEquiv::" + n for n in (
    "ast_lsp_shutdown_equiv", "ast_lsp_exit_equiv", "ast_lsp_shutdown_model", "ast_lsp_exit_model",
    "ast_shutdown_example")]
C09.coq_targets = list(C09.coq_targets) + ["Proofs/AstShutdownEquiv.vo"]
C09.trusted_base = list(C09.trusted_base) + [
    "translator tie: harness/gen_ast.py + harness/gen_ast_shutdown.py (Python ast -> PyMini, fail-closed; the "
    "normalisations of gen_ast_shutdown.py: @lsp_method(..) / unused *args dropped, the loop header "
    "list(self._request_futures.values()) read as the state field holding that snapshot, sys.exit(e) recorded and "
    "followed by the end of the run since it raises SystemExit, x.cancel() and fut.add_done_callback(lambda t: "
    "sys.exit(rc)) recorded) and the PyMini semantics coq/Base/PyMini.v (for over a list, conditional expression, "
    "`is None`, attribute assignment; calls on self.writer / future.cancel / sys.exit / asyncio.ensure_future are "
    "recorded and return normally); inspect.isawaitable is an oracle of ast_lsp_exit_equiv"]
_prev_regenerate_ast = getattr(C09, "regenerate", None)


def _regenerate_ast(self, chk):
    try:
        if _prev_regenerate_ast is not None:
            _prev_regenerate_ast(self, chk)
    finally:
        core.coq_make(["Props/C09.vo", "Extract/ExtractC09.vo"])     # the differential side first
        with core._Lock("coq"):                                      # coq/Gen is shared
            try:
                _gen_ast_shutdown.gen_shutdown()
            finally:
                core._coq_make(["Proofs/AstShutdownEquiv.vo"])


C09.regenerate = _regenerate_ast
