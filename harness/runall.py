#!/usr/bin/env python3
"""Full pass: run every registered check (MANIFEST.json) once; summary table; exit 1 if any alarms.
   harness/runall.py [--tier quick|thorough] [--jobs N] [C01 C02 ...]"""
import argparse, json, os, subprocess, sys, time
from concurrent.futures import ThreadPoolExecutor
ROOT = os.path.dirname(os.path.dirname(os.path.abspath(__file__)))
def one(c, tier):
    cmd = c["quick_cmd"] if tier == "quick" else c.get("thorough_cmd", c["quick_cmd"])
    t0 = time.time()
    r = subprocess.run(cmd, shell=True, cwd=ROOT, capture_output=True, text=True)
    out = r.stdout
    return c["property_id"], r.returncode, round(time.time() - t0, 1), \
        [l for l in out.split("\n") if l.startswith(("VIOLATION", "KNOWN-FINDING", "["))], r.stderr[-500:]
def main():
    ap = argparse.ArgumentParser(); ap.add_argument("--tier", default="quick"); ap.add_argument("--jobs", type=int, default=1)
    ap.add_argument("props", nargs="*"); a = ap.parse_args()
    checks = [c for c in json.load(open(os.path.join(ROOT, "MANIFEST.json")))["checks"] if not a.props or c["property_id"] in a.props]
    bad = 0
    with ThreadPoolExecutor(a.jobs) as ex:
        for pid, rc, wall, lines, err in ex.map(lambda c: one(c, a.tier), checks):
            print(f"== {pid} exit={rc} wall={wall}s")
            for l in lines: print("   " + l[:300])
            if rc != 0: bad += 1; print("   stderr:", err)
    # evidence validation
    try:
        import jsonschema
        sch = json.load(open("/root/.vp/EVIDENCE.schema.json"))
        for c in checks:
            jsonschema.validate(json.load(open(os.path.join(ROOT, c["evidence_file"]))), sch)
        print("evidence files validate")
    except ImportError:
        print("(jsonschema not available in this interpreter: run with python3-vt to validate evidence)")
    sys.exit(1 if bad else 0)
main()
