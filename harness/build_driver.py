#!/usr/bin/env python3
"""Build bin/<prop>_driver from ocaml/gen/<prop>_model.ml (extracted) + conv_*.ml + <prop>_driver.ml.
The pieces are concatenated into one compilation unit so that the hand-written glue sees the
extracted constructors unqualified."""
import os, re, subprocess, sys
ROOT = os.path.dirname(os.path.dirname(os.path.abspath(__file__)))
def build(prop):
    p = prop.lower()
    drv = os.path.join(ROOT, "ocaml", f"{p}_driver.ml")
    model = os.path.join(ROOT, "ocaml", "gen", f"{p}_model.ml")
    src = open(drv).read()
    m = re.match(r"\(\* conv: ([a-z ]+) \*\)", src)
    parts = m.group(1).split() if m else ["io", "n"]
    bdir = os.path.join(ROOT, "ocaml", "build", p)
    os.makedirs(bdir, exist_ok=True)
    os.makedirs(os.path.join(ROOT, "bin"), exist_ok=True)
    allml = os.path.join(bdir, f"{p}_all.ml")
    text = open(model).read() + "\n"
    for part in parts:
        text += open(os.path.join(ROOT, "ocaml", f"conv_{part}.ml")).read() + "\n"
    text += src
    out = os.path.join(ROOT, "bin", f"{p}_driver")
    if os.path.exists(allml) and open(allml).read() == text and os.path.exists(out):
        return out
    open(allml, "w").write(text)
    r = subprocess.run(["ocamlfind", "ocamlopt", "-O2", "-w", "-a", "-o", out, allml] if False else
                       ["ocamlfind", "ocamlopt", "-w", "-a", "-o", out, allml],
                       cwd=bdir, capture_output=True, text=True, timeout=600)
    if r.returncode != 0:
        sys.stderr.write(r.stdout + r.stderr)
        os.remove(allml)
        raise SystemExit(f"driver build failed for {prop}")
    return out
if __name__ == "__main__":
    for a in sys.argv[1:]:
        print(build(a))
