#!/usr/bin/env python3
"""Regenerated files of C14: coq/Gen/AstFeatures.v (has_ls_param_or_annotation), see gen_c19.py."""
import os, sys
sys.path.insert(0, os.path.dirname(os.path.abspath(__file__)))
import gen_c19


def main():
    return gen_c19.main()


if __name__ == "__main__":
    import gen_ast
    print("gen_c14:", os.path.relpath(main(), gen_ast.ROOT))
